"""M4: coverage probes with sys.monitoring (line events restricted to one code object)."""
import sys


class BranchProbe:
    """M4: counts executions of the two omega2 branches of Lij (line events on that code object only)."""

    def __init__(self, func):
        import inspect
        self.code = func.__code__
        src, start = inspect.getsourcelines(func)
        self.large, self.small = set(), set()
        mode = None
        for n, line in enumerate(src):
            st = line.strip()
            if st.startswith('if np.any(np.abs(gdom2) > large_om2)'): mode = 'large'; continue
            if mode == 'large' and st.startswith('else:'): mode = 'small'; continue
            if mode == 'small' and st.startswith('# 6.'): mode = None
            if mode == 'large' and st and not st.startswith('#'): self.large.add(start + n)
            if mode == 'small' and st and not st.startswith('#'): self.small.add(start + n)
        self.hits = {'large': 0, 'small': 0}
        self.tool = None

    def __enter__(self):
        mon = sys.monitoring
        for tid in (mon.PROFILER_ID, mon.COVERAGE_ID, 4, 5):
            try:
                mon.use_tool_id(tid, 'vmon-branch')
                self.tool = tid
                break
            except ValueError:
                continue
        if self.tool is None: return self

        def cb(code, line):
            if line in self.large: self.hits['large'] += 1
            elif line in self.small: self.hits['small'] += 1
        mon.register_callback(self.tool, mon.events.LINE, cb)
        mon.set_local_events(self.tool, self.code, mon.events.LINE)
        return self

    def __exit__(self, *a):
        if self.tool is not None:
            mon = sys.monitoring
            mon.set_local_events(self.tool, self.code, 0)
            mon.register_callback(self.tool, mon.events.LINE, None)
            mon.free_tool_id(self.tool)



def lij_probe(diff):
    func = type(diff).Lij
    func = getattr(func, '__wrapped__', func)
    return BranchProbe(func)
