"""C30: automation tarballs are complete and self-consistent.

Monitor over automator.supercelltar output (in-memory tar) for supercell dictionaries of random interstitial and
vacancy-mediated calculators: tags.json is a bijection between tags and the state/transition directories of the
archive; every POSCAR / POS.* / POSCAR.* is re-read with Supercell.POSCAR_occ *and* parsed independently and must
reproduce occupation and ordering of the supercell that was handed in; every Makefile rule is executed the way
the Makefile does it (perl trans.pl <neb>/trans.<x> <relax>/CONTCAR, with the state's POSCAR - optionally with
small random 'relaxation' displacements - as CONTCAR) and must reproduce the transition endpoint; every Makefile
prerequisite is a member of the archive or the CONTCAR of a relaxation directory of the archive.  An import
failure of onsager.automator is an observed violation, not a harness error.
"""
import io, json, os, re, shutil, subprocess, tarfile, tempfile, warnings
import numpy as np
from vmon import gen
from vmon.util import Mon
from vmon.ref import supercells as R

ID = 'C30'
RULE = ('case = one random calculator (as in C29: vacancy-mediated on named/random 3-D crystals, Nthermo 1-2; interstitial on the same '
        'hosts with 1-2 added Wyckoff orbits, in a minority of cases with the species name invented by addbasis) x 2 supercell '
        'matrices (n*I / diagonal / general incl. symmetry-breaking) x random supercelltar options (basedir, statename, IDformat, '
        'KPOINTS on/off, YAML on/off); non-trivial = the archive contains at least one trans.* file; distinct = (kind, crystal, '
        'species, cutoff, matrix, options)')
ASSUMPTIONS = ['perl is available; each trans.pl run has a 60 s timeout (a timeout is reported as inconclusive, not as a violation)',
               'CONTCAR = the POSCAR of the relaxation directory, in half of the runs with uniform displacements of +-1e-4 (direct coordinates), '
               'far below the 0.1 A matching threshold of POSCAR_occ',
               'at most 10 (quick) / 30 (thorough) randomly chosen Makefile rules are executed per archive (process start-up cost); all rules are checked statically',
               'positions written with 16 decimals: independent parse compares to 1e-12',
               'transitionname is left at its default because the Makefile template hard-codes neb.%']
REQUIRED_OBS = {'archives_checked': 30, 'eval:C30:tags-bijection': 30, 'eval:C30:poscar-api': 200, 'eval:C30:poscar-parse': 200,
                'eval:C30:trans-endpoint': 100, 'eval:C30:makefile-prereq': 100, 'perl_runs': 100, 'interstitial_archives': 8,
                'vacancy_archives': 8, 'endpoints_written_directly': 5}
CASE_TIMEOUT = 600
LIMITS = ['3-D crystals only; at most 90 (quick) / 160 (thorough) sites per supercell; 2 archives per calculator',
          'at most 10 (quick) / 30 (thorough) Makefile rules are executed with perl per archive; nebmake.pl (VTST) is not executed',
          'supercell.yaml, INCAR contents and file modes are not judged']
SCRATCH = '/verif/scratch/su'


def cases(tier, seed):
    n = 40 if tier == 'quick' else 960
    return [{'seed': seed, 'idx': i, 'hashseed': i % 5, 'tier': tier, 'kind': 'vacancy' if i % 2 == 0 else 'interstitial'}
            for i in range(n)]


# ---------------------------------------------------------------------------------------------------
def read_archive(buf):
    """-> (members: name -> ('dir'|'file'|'link', payload), duplicates)"""
    members, dup = {}, []
    buf.seek(0)
    with tarfile.open(fileobj=buf, mode='r') as tar:
        for m in tar.getmembers():
            name = m.name.rstrip('/')
            if name in members: dup.append(name)
            if m.isdir(): members[name] = ('dir', None)
            elif m.issym(): members[name] = ('link', m.linkname)
            elif m.isfile(): members[name] = ('file', tar.extractfile(m).read().decode('ascii'))
            else: members[name] = ('other', None)
    return members, dup


def parse_poscar(text):
    """Independent parser for the POSCAR dialect written by the archive: -> (name, lattice columns, counts, direct positions)"""
    lines = text.split('\n')
    name, scale = lines[0], float(lines[1])
    latt = scale * np.array([[float(x) for x in lines[2 + k].split()] for k in range(3)]).T
    k = 5
    if not re.match(r'^\s*\d', lines[k]): k += 1  # optional element line
    counts = [int(x) for x in lines[k].split()]
    k += 1
    if lines[k].strip()[:1] in 'sS': k += 1
    if lines[k].strip()[:1] not in 'dD': raise ValueError('not in direct coordinates: %r' % lines[k])
    k += 1
    n = sum(counts)
    pos = np.array([[float(x) for x in lines[k + a].split()[:3]] for a in range(n)]).reshape(n, 3)
    rest = [l for l in lines[k + n:] if l.strip()]
    if rest: raise ValueError('%d trailing lines' % len(rest))
    return name, latt, counts, pos


def poscar_problem(text, sup):
    """None if text lists exactly the atoms of sup in its presentation order"""
    try:
        name, latt, counts, pos = parse_poscar(text)
    except Exception as e:
        return 'cannot parse: %s: %s' % (type(e).__name__, e)
    if not np.allclose(latt, sup.lattice, atol=1e-12 * max(1., np.abs(sup.lattice).max())):
        return 'lattice %s vs %s' % (latt.tolist(), np.asarray(sup.lattice).tolist())
    want = [len(c) for c in sup.chemorder]
    if counts != want: return 'atom counts %s vs %s' % (counts, want)
    order = [ind for c in sup.chemorder for ind in c]
    if len(order) == 0: return None
    d = pos - sup.pos[order]
    d = np.abs(d - np.round(d))
    if d.max() > 1e-12:
        return 'atom %d at %s, expected %s' % (int(d.max(axis=1).argmax()), pos[d.max(axis=1).argmax()], sup.pos[order][d.max(axis=1).argmax()])
    return None


def noisy_contcar(text, rng, amp=1e-4):
    name, latt, counts, pos = parse_poscar(text)
    pos = pos + rng.uniform(-amp, amp, size=pos.shape)
    lines = text.split('\n')
    head = lines[:len(lines) - 1 - len(pos)] if lines[-1] == '' else lines[:len(lines) - len(pos)]
    return '\n'.join(head + [' %19.16f %19.16f %19.16f' % tuple(u) for u in pos]) + '\n'


def makefile_rules(text):
    """explicit rules 'target: prereq ...' (no patterns, no variables, no special targets)"""
    rules = []
    marker = '# structure of NEB runs:'  # everything before it is the fixed template (pattern rules, help, ...)
    if marker in text: text = text.split(marker, 1)[1]
    for line in text.split('\n'):
        if not line or line[0] in '\t#.' or '%' in line or '$' in line or '=' in line: continue
        m = re.match(r'^(\S+)\s*:\s*(.*)$', line)
        if m: rules.append((m.group(1), m.group(2).split()))
    return rules


# ---------------------------------------------------------------------------------------------------
def run_case(case):
    mon = Mon()
    automator = None
    with mon.guard('C30:import'):
        from onsager import automator
    if automator is None:
        return mon.result(sample={'import': 'onsager.automator failed'})
    mon.check(True, 'C30:import')
    rng = gen.rng_for(case['seed'], case['idx'], 30)
    kind = case['kind']
    tags = []
    if kind == 'vacancy':
        calc, desc = R.vacancy_calculator(rng)
    else:
        dflt = bool(case['idx'] % 8 == 1)
        calc, desc = R.interstitial_calculator(rng, default_chemistry=dflt)
        if dflt:
            tags.append('addbasis-default-chemistry')
            mon.count('default_chemistry_cases')
    maxsites = 90 if case.get('tier', 'quick') == 'quick' else 160
    sample = None
    tmproot = None
    try:
        for mode in [('scalar', 'diag')[int(rng.integers(2))], 'general']:
            S = R.rand_supermatrix(rng, calc.crys, maxsites, mode=mode)
            with warnings.catch_warnings():
                warnings.simplefilter('ignore')
                sd = calc.makesupercells(S)  # C29 judges this dictionary; here it is the input
            opts = {}
            if rng.uniform() < 0.4: opts['basedir'] = ('run1', 'a/b/', 'calc/')[int(rng.integers(3))]
            if rng.uniform() < 0.3: opts['statename'] = ('st_', 'relax-')[int(rng.integers(2))]
            if rng.uniform() < 0.3: opts['IDformat'] = '{:03d}'
            u = rng.uniform()
            if u < 0.25: opts['KPOINTS'] = None
            elif u < 0.5: opts['KPOINTS'] = automator.KPOINTS_MP.format(N1=2, N2=2, N3=3)
            if rng.uniform() < 0.7: opts['YAMLdef'] = None
            info = dict(desc, kind=kind, S=S, mode=mode, options={k: v for k, v in opts.items() if k != 'KPOINTS'},
                        kpoints=('KPOINTS' not in opts or opts['KPOINTS'] is not None), hashseed=case.get('hashseed'),
                        tier=case.get('tier', 'quick'))
            if sample is None: sample = info
            ctags = list(tags)
            if kind == 'interstitial' and any(len(v) != 2 for v in sd['transmapping'].values()):
                ctags.append('interstitial-broken-symmetry')
            buf = io.BytesIO()
            done = False
            with mon.guard('C30:supercelltar', tags=ctags):
                with tarfile.open(fileobj=buf, mode='w') as tar:
                    automator.supercelltar(tar, sd, **opts)
                done = True
            if not done: continue
            mon.count('archives_checked')
            mon.count(kind + '_archives')
            if tmproot is None:
                os.makedirs(SCRATCH, exist_ok=True)
                tmproot = tempfile.mkdtemp(prefix='c30_', dir=SCRATCH)
            ntrans = check_archive(mon, automator, buf, sd, opts, info, rng, tempfile.mkdtemp(dir=tmproot))
            if ntrans:
                mon.sig([kind, desc['crystal'], desc['chem'], round(desc['cutoff'], 4), S.tolist(), sorted(info['options'].items()), info['kpoints']])
    finally:
        if tmproot is not None:
            shutil.rmtree(tmproot, ignore_errors=True)
    return mon.result(sample=sample, inconclusive='perl trans.pl timed out' if mon.obs.get('perl_timeouts') else None)


def check_archive(mon, automator, buf, sd, opts, info, rng, tmp):
    where = lambda: ' | %s' % {k: (v.tolist() if hasattr(v, 'tolist') else v) for k, v in info.items() if k not in ('basis', 'lattice')}
    states, transitions, transmapping = sd['states'], sd['transitions'], sd['transmapping']
    base = opts.get('basedir', '')
    if base and not base.endswith('/'): base += '/'
    statename = opts.get('statename', 'relax.')
    kpoints = info['kpoints']
    allmembers, dup = read_archive(buf)
    mon.check(not dup, 'C30:members-unique', lambda: 'members written twice: %s%s' % (dup[:5], where()))
    outside = [n for n in allmembers if not n.startswith(base)]
    mon.check(not outside, 'C30:basedir', lambda: 'members outside basedir %r: %s%s' % (base, outside[:5], where()))
    mem = {n[len(base):]: v for n, v in allmembers.items() if n.startswith(base)}
    files = {n: v[1] for n, v in mem.items() if v[0] == 'file'}
    dirs = set(n for n, v in mem.items() if v[0] == 'dir')
    # ---- tags.json: bijection tags <-> directories -----------------------------------------------
    ok, tagmap, why = True, {}, ''
    try:
        pairs = json.loads(files['tags.json'], object_pairs_hook=list)
        tagmap = dict(pairs)
        alltags = list(states) + list(transitions)
        if len(pairs) != len(tagmap): ok, why = False, 'duplicate directory keys'
        elif set(tagmap) != dirs: ok, why = False, 'directories in tags.json %s vs in archive %s' % (sorted(set(tagmap) - dirs)[:4], sorted(dirs - set(tagmap))[:4])
        elif sorted(tagmap.values()) != sorted(alltags): ok, why = False, 'tags in tags.json are not exactly the tags of the dictionary (each once)'
        else:
            for d, t in tagmap.items():
                isstate = t in states
                if d.startswith(statename) != isstate or d.startswith('neb.') != (not isstate):
                    ok, why = False, 'directory %s carries tag %s' % (d, t)
    except Exception as e:
        ok, why = False, '%s: %s' % (type(e).__name__, e)
    mon.check(ok, 'C30:tags-bijection', lambda: why + where())
    if not ok: return 0
    dirof = {t: d for d, t in tagmap.items()}
    # ---- POSCARs read back --------------------------------------------------------------------------
    def readback(path, sup, what):
        text = files.get(path)
        mon.check(text is not None, 'C30:poscar-present', lambda: '%s: %s missing%s' % (what, path, where()))
        if text is None: return
        prob = poscar_problem(text, sup)
        mon.check(prob is None, 'C30:poscar-parse', lambda: '%s (%s): %s%s' % (what, path, prob, where()))
        eq = None
        with mon.guard('C30:poscar-api'):
            s2 = sup.copy()
            s2.POSCAR_occ(text)
            eq = bool(s2 == sup)
        if eq is not None:
            mon.check(eq, 'C30:poscar-api', lambda: '%s (%s): POSCAR_occ does not reproduce occupation and ordering%s' % (what, path, where()))

    if 'reference' in sd:
        readback('POSCAR', sd['reference'], 'reference')
    for t, sup in states.items():
        d = dirof[t]
        readback(d + '/POSCAR', sup, 'state ' + t)
        need = [d + '/INCAR'] + ([d + '/KPOINTS'] if kpoints else [])
        miss = [n for n in need if n not in mem]
        mon.check(not miss, 'C30:relax-inputs', lambda: 'state directory %s lacks %s%s' % (d, miss, where()))
    direct = 0
    for t, (s0, s1) in transitions.items():
        d = dirof[t]
        tm = transmapping[t]
        for x, sup, entry in (('init', s0, tm[0]), ('final', s1, tm[1])):
            has_pos, has_poscar, has_trans = (d + '/POS.' + x) in files, (d + '/POSCAR.' + x) in files, (d + '/trans.' + x) in files
            if entry is None:
                direct += 1
                mon.count('endpoints_written_directly')
                mon.check(has_poscar and not has_trans, 'C30:endpoint-files', lambda: '%s %s has no mapping: expected POSCAR.%s and no trans.%s; '
                          'POS %s POSCAR %s trans %s%s' % (t, x, x, x, has_pos, has_poscar, has_trans, where()))
                if has_poscar: readback(d + '/POSCAR.' + x, sup, '%s of %s' % (x, t))
            else:
                mon.check(has_pos and has_trans and not has_poscar, 'C30:endpoint-files', lambda: '%s %s is mapped from %s: expected POS.%s and trans.%s, '
                          'POSCAR.%s to be made; POS %s POSCAR %s trans %s%s' % (t, x, entry[0], x, x, x, has_pos, has_poscar, has_trans, where()))
                if has_pos: readback(d + '/POS.' + x, sup, '%s of %s' % (x, t))
    # ---- links -----------------------------------------------------------------------------------------
    for n, v in mem.items():
        if v[0] != 'link': continue
        target = os.path.normpath(os.path.join(os.path.dirname(n), v[1]))
        if os.path.basename(n) == 'POTCAR': continue  # supplied by the user
        mon.check(target in mem, 'C30:links', lambda: 'link %s -> %s: no such member%s' % (n, v[1], where()))
    mon.check(('KPOINTS' in files) == kpoints, 'C30:links', lambda: 'KPOINTS member present=%s, requested=%s%s' % ('KPOINTS' in files, kpoints, where()))
    # ---- bundled scripts -------------------------------------------------------------------------------
    pkgdir = os.path.dirname(automator.__file__)
    for script in ('trans.pl', 'nebmake.pl', 'Vasp.pm'):
        with open(os.path.join(pkgdir, script)) as f: ref = f.read()
        mon.check(files.get(script) == ref, 'C30:scripts', lambda: '%s in the archive differs from the bundled file%s' % (script, where()))
    # ---- Makefile ---------------------------------------------------------------------------------------
    mk = files.get('Makefile')
    mon.check(mk is not None, 'C30:makefile-present', where)
    if mk is None: return 0
    rules = makefile_rules(mk)
    targets = {}
    for target, prereqs in rules:
        m = re.match(r'^(.+)/POSCAR\.(init|final)$', target)
        goodt = bool(m) and m.group(1) in dirs and tagmap[m.group(1)] in transitions and target not in files and target not in targets
        mon.check(goodt, 'C30:makefile-target', lambda: 'rule for %s: not a missing NEB endpoint of a transition directory (or given twice)%s' % (target, where()))
        if not goodt: continue
        targets[target] = prereqs
        for pre in prereqs:
            m2 = re.match(r'^(.+)/CONTCAR$', pre)
            okp = pre in files or (bool(m2) and m2.group(1) in dirs and tagmap[m2.group(1)] in states
                                   and (m2.group(1) + '/POSCAR') in files and (m2.group(1) + '/INCAR') in files)
            mon.check(okp, 'C30:makefile-prereq', lambda: '%s depends on %s: neither a member of the archive nor the CONTCAR of a relaxation directory%s'
                                                          % (target, pre, where()))
    # every endpoint is either written or made
    for t in transitions:
        d = dirof[t]
        for x in ('init', 'final'):
            tgt = d + '/POSCAR.' + x
            mon.check((tgt in files) != (tgt in targets), 'C30:makefile-complete', lambda: '%s: written %s, made by a rule %s%s'
                                                                                          % (tgt, tgt in files, tgt in targets, where()))
    # NEBlist of every relaxation directory = the NEB directories that depend on it
    users = {}
    for target, prereqs in targets.items():
        for pre in prereqs:
            if pre.endswith('/CONTCAR'): users.setdefault(pre[:-len('/CONTCAR')], set()).add(target.rsplit('/', 1)[0])
    for d in dirs:
        if tagmap[d] not in states: continue
        got = files.get(d + '/NEBlist')
        want = users.get(d)
        good = (got is None and want is None) or (got is not None and want is not None and got.split() == sorted(want))
        mon.check(good, 'C30:neblist', lambda: '%s/NEBlist %r vs directories using its CONTCAR %s%s' % (d, got, sorted(want or []), where()))
    # ---- run the rules the way the Makefile does ----------------------------------------------------------
    if not targets: return 0
    for n, text in files.items():
        path = os.path.join(tmp, n)
        os.makedirs(os.path.dirname(path), exist_ok=True)
        with open(path, 'w') as f: f.write(text)
    nrun = 0
    todo = sorted(targets.items())
    maxrun = 10 if info.get('tier', 'quick') == 'quick' else 30
    if len(todo) > maxrun:  # process start-up dominates: run a random subset of the rules
        mon.count('rules_not_run', len(todo) - maxrun)
        todo = [todo[k] for k in sorted(rng.choice(len(todo), size=maxrun, replace=False))]
    for target, prereqs in todo:
        d, x = re.match(r'^(.+)/POSCAR\.(init|final)$', target).groups()
        t = tagmap[d]
        end = transitions[t][0 if x == 'init' else 1]
        entry = transmapping[t][0 if x == 'init' else 1]
        oks = len(prereqs) == 2 and prereqs[0] == d + '/trans.' + x and prereqs[0] in files and prereqs[1].endswith('/CONTCAR')
        relax = prereqs[1][:-len('/CONTCAR')] if oks else None
        oks = oks and entry is not None and relax in tagmap and tagmap[relax] == entry[0] and files[prereqs[0]].split('\n')[0] == relax
        mon.check(oks, 'C30:trans-rule', lambda: '%s: prerequisites %s; recorded mapping from state %s (directory %s)%s'
                                                 % (target, prereqs, entry[0] if entry else None, dirof.get(entry[0]) if entry else None, where()))
        if not oks: continue
        noisy = bool(rng.uniform() < 0.5)
        contcar = files[relax + '/POSCAR']
        if noisy: contcar = noisy_contcar(contcar, rng)
        with open(os.path.join(tmp, relax, 'CONTCAR'), 'w') as f: f.write(contcar)
        try:
            # Makefile: neb.%/POSCAR.init:  @$(transform) $^ > $@   with transform := "./trans.pl"
            out = subprocess.run(['perl', './trans.pl'] + prereqs, cwd=tmp, capture_output=True, text=True, timeout=60)
        except subprocess.TimeoutExpired:
            return_inconclusive(mon)
            continue
        nrun += 1
        mon.count('perl_runs')
        mon.count('perl_runs_noisy', noisy)
        ran = out.returncode == 0 and out.stderr == ''
        mon.check(ran, 'C30:trans-run', lambda: 'perl trans.pl %s: rc=%s stderr=%s%s' % (' '.join(prereqs), out.returncode, out.stderr[:300], where()))
        if not ran: continue
        eq = None
        with mon.guard('C30:trans-endpoint'):
            e2 = end.copy()
            e2.POSCAR_occ(out.stdout)
            eq = bool(e2 == end)
        if eq is not None:
            mon.check(eq, 'C30:trans-endpoint', lambda: '%s: %s applied to the POSCAR of %s (%s) does not reproduce occupation and ordering of the %s endpoint of %s%s'
                                                        % (target, prereqs[0], relax, entry[0], x, t, where()))
        if not noisy:
            prob = poscar_problem(out.stdout, end)
            mon.check(prob is None, 'C30:trans-positions', lambda: '%s: transformed positions: %s%s' % (target, prob, where()))
    return nrun


def return_inconclusive(mon):
    mon.count('perl_timeouts')
