"""C23: coordinate conversions and symmetry actions are mutually consistent.

Monitors on the real Crystal.pos2cart/unit2cart/cart2unit/cart2pos, g_pos/g_vect/g_cart/g_direc/g_tensor,
GroupOp.__mul__/inv/__add__/__sub__, crystalStars.PairState.g and cluster.ClusterSite.g / Cluster.g:
every route must describe the same geometric map  x -> L (rot L^-1 x + trans)  on Cartesian positions
(recomputed here from plain lattice/basis data; atoms are looked up by brute force), compositions and
inverses must act as compositions and inverses of the maps.  Random crystals (all lattice systems, 2-D/3-D,
random orientation), random operations incl. products, inverses and lattice-translated ones.
"""
import numpy as np
from vmon import gen
from vmon.util import Mon
from vmon.ref import geom, pointgroups as pg

ID = 'C23'
RULE = ('random crystals (all lattice systems, 1-3 orbits, 1-3 species, half in a random rigid orientation) x operations drawn from '
        'crys.G, products g*h, inverses, and g+R / g-R x random lattice vectors in [-4,4] (incl. negative), atoms, unit-cell '
        'positions (general, exactly 0 components, 1e-4 from cell faces), pair states (i,j,R) and clusters of 2-4 sites (plain, '
        'transition, vacancy); non-trivial = crystal with >1 atom or >1 operation; distinct = (kind, atoms per species, |G|, rotated)')
ASSUMPTIONS = ['Cartesian positions compared to 1e-9 (coordinates are O(1..10)); integer lattice vectors and atom indices exactly',
               'unit-cell test positions keep 1e-4 away from cell faces unless a component is exactly 0 (the in-cell rounding '
               'threshold is 1e-8)',
               'the geometric map is evaluated in direct coordinates with rot/trans; cartrot = L rot L^-1 is the contract of C18']
REQUIRED_OBS = {'crystals_checked': 40, 'eval:C23:cart2unit-roundtrip': 300, 'eval:C23:cart2pos-roundtrip': 300,
                'eval:C23:g_pos': 300, 'eval:C23:g_vect': 300, 'eval:C23:g_cart': 300, 'eval:C23:g_direc': 300, 'eval:C23:g_tensor': 300,
                'eval:C23:pairstate-g': 300, 'eval:C23:clustersite-g': 300, 'eval:C23:cluster-g': 100,
                'eval:C23:product-acts-as-composition': 300, 'eval:C23:inverse-acts-as-inverse': 300,
                'eval:C23:translated-op': 300, 'negative_lattice_vectors': 100, 'ops_with_fractional_translation': 20, 'ops_moving_atoms': 100}
CASE_TIMEOUT = 600
TOL = 1e-9
NAMED = ('hcp', 'diamond', 'honey', 'omega', 'rumpled', 'kagome', 'l12', 'b2', 'dtria', 'lieb')


def cases(tier, seed):
    n = 48 if tier == 'quick' else 1000
    return [{'seed': seed, 'idx': i, 'hashseed': i % (5 if tier == 'quick' else 7), 'ncrys': 3 if tier == 'quick' else 5, 'nops': 6 if tier == 'quick' else 10}
            for i in range(n)]


def lookup(L, basis, x, tol=1e-6):
    """brute-force (R, (c, i)) of the atom at Cartesian x; None if there is none"""
    f = np.linalg.solve(L, x)
    for c, lst in enumerate(basis):
        for i, u in enumerate(lst):
            d = f - u
            if np.all(np.abs(d - np.round(d)) < tol):
                return np.round(d).astype(int), (c, i)
    return None


def run_case(case):
    from onsager import crystal, crystalStars, cluster
    mon = Mon()
    rng = gen.rng_for(case['seed'], case['idx'], 23)
    sample = None
    for kc in range(case['ncrys']):
        if rng.uniform() < 0.25:
            name = str(rng.choice(NAMED))
            c0 = gen.named(name)[0]
            spec = {'kind': name, 'dim': c0.dim, 'latt': c0.lattice, 'basis': c0.basis}
        else:
            spec = gen.rand_crystal_spec(rng, nchem=int(rng.integers(1, 4)))
        dim = spec['dim']
        rotated = bool(rng.uniform() < 0.5)
        Q = pg.random_rotation(rng, dim) if rotated else np.eye(dim)
        # random origin: operations then carry fractional translations (unless the constructor re-centres the cell)
        shift = rng.uniform(size=dim) if rng.uniform() < 0.6 else np.zeros(dim)
        crys = crystal.Crystal(Q @ np.array(spec['latt']), [[np.array(u) + shift for u in lst] for lst in spec['basis']])
        L = crys.lattice.copy()
        Linv = np.linalg.inv(L)
        basis = [[u.copy() for u in lst] for lst in crys.basis]
        desc = {'kind': spec['kind'], 'lattice': L, 'basis': basis, 'hashseed': case.get('hashseed')}
        if sample is None: sample = desc
        mon.count('crystals_checked')
        if crys.N > 1 or len(crys.G) > 1:
            mon.sig([spec['kind'], [len(l) for l in basis], len(crys.G), rotated])
        atoms = [(c, i) for c, lst in enumerate(basis) for i in range(len(lst))]
        scale = 10.

        def randR(lo=-4, hi=5):
            R = rng.integers(lo, hi, size=dim)
            if np.any(R < 0): mon.count('negative_lattice_vectors')
            return R

        def randatom():
            return atoms[int(rng.integers(len(atoms)))]

        def xatom(R, ind):
            return L @ (R + basis[ind[0]][ind[1]])

        # ---------------- conversions
        for t in range(12):
            R = randR()
            mode = t % 4
            if mode == 0: u = rng.uniform(1e-4, 1 - 1e-4, size=dim)
            elif mode == 1:
                u = rng.uniform(1e-4, 1 - 1e-4, size=dim)
                u[int(rng.integers(dim))] = 0.
            elif mode == 2: u = np.where(rng.uniform(size=dim) < 0.5, 1e-4, 1 - 1e-4) * np.ones(dim)
            else: u = np.zeros(dim)
            det = lambda: 'R=%s u=%s %s' % (R.tolist(), u.tolist(), desc)
            with mon.guard('C23:conversions'):
                x = crys.unit2cart(R, u)
                mon.close(x, L @ (R + u), TOL, 'C23:unit2cart', det, scale=scale)
                R2, u2 = crys.cart2unit(x)
                ok = np.array_equal(np.asarray(R2), R) and np.issubdtype(np.asarray(R2).dtype, np.integer)
                mon.check(ok and np.allclose(u2, u, atol=TOL), 'C23:cart2unit-roundtrip', lambda: 'got %s %s for %s' % (R2, u2, det()))
                x2 = crys.unit2cart(R2, u2)
                mon.close(x2, x, TOL, 'C23:unit2cart-cart2unit', det, scale=scale)
            ind = randatom()
            det = lambda: 'R=%s ind=%s %s' % (R.tolist(), ind, desc)
            with mon.guard('C23:conversions'):
                x = crys.pos2cart(R, ind)
                mon.close(x, xatom(R, ind), TOL, 'C23:pos2cart', det, scale=scale)
                R2, ind2 = crys.cart2pos(x)
                mon.check(ind2 is not None and tuple(ind2) == tuple(ind) and np.array_equal(np.asarray(R2), R), 'C23:cart2pos-roundtrip',
                          lambda: 'got %s %s for %s' % (R2, ind2, det()))
                # a position that is not an atom
                xg = L @ (R + rng.uniform(size=dim))
                if lookup(L, basis, xg, 1e-3) is None:
                    R3, ind3 = crys.cart2pos(xg)
                    mon.check(ind3 is None, 'C23:cart2pos-no-atom', lambda: 'got %s for a general position %s' % (ind3, det()))

        # ---------------- operations
        Glist = sorted(crys.G, key=lambda g: (g.rot.tolist(), np.round(g.trans, 6).tolist()))
        ops = []
        for t in range(case['nops']):
            g = Glist[int(rng.integers(len(Glist)))]
            h = Glist[int(rng.integers(len(Glist)))]
            kind = t % 4
            if kind == 0: ops.append(('g', g))
            elif kind == 1: ops.append(('g*h', g * h))
            elif kind == 2: ops.append(('g.inv', g.inv()))
            else: ops.append(('g+R', g + randR()))
        for label, g in ops:
            rot, trans = np.array(g.rot), np.array(g.trans)
            if np.any(np.abs(trans - np.round(trans)) > 1e-6): mon.count('ops_with_fractional_translation')
            if any(tuple(m) != tuple(range(len(m))) for m in g.indexmap): mon.count('ops_moving_atoms')

            def gmap(x, rot=rot, trans=trans):
                return L @ (rot @ (Linv @ x) + trans)

            Rc = L @ rot @ Linv
            gd = lambda: 'op %s rot=%s trans=%s %s' % (label, rot.tolist(), trans.tolist(), desc)
            for t in range(4):
                R, ind = randR(), randatom()
                x = xatom(R, ind)
                with mon.guard('C23:g_pos'):
                    R2, ind2 = crys.g_pos(g, R, ind)
                    ref = lookup(L, basis, gmap(x))
                    ok = ref is not None and tuple(ind2) == ref[1] and np.array_equal(np.asarray(R2), ref[0]) \
                        and np.issubdtype(np.asarray(R2).dtype, np.integer)
                    mon.check(ok, 'C23:g_pos', lambda: 'g_pos(R=%s, %s) = %s %s, geometric image is %s; %s' % (R.tolist(), ind, R2, ind2, ref, gd()))
                    mon.close(crys.pos2cart(R2, ind2), crys.g_cart(g, crys.pos2cart(R, ind)), TOL, 'C23:g_pos=g_cart', gd, scale=scale)
                u = rng.uniform(1e-4, 1 - 1e-4, size=dim)
                if t == 0: u = basis[ind[0]][ind[1]].copy()
                with mon.guard('C23:g_vect'):
                    R2, u2 = crys.g_vect(g, R, u)
                    mon.close(L @ (np.asarray(R2) + u2), gmap(L @ (R + u)), TOL, 'C23:g_vect', lambda: 'R=%s u=%s %s' % (R.tolist(), u.tolist(), gd()), scale=scale)
                    mon.check(np.issubdtype(np.asarray(R2).dtype, np.integer) and np.all(u2 > -1e-7) and np.all(u2 < 1.),
                              'C23:g_vect-in-cell', lambda: 'u=%s -> %s %s' % (u.tolist(), u2, gd()))
                xr = rng.normal(size=dim) * 3
                with mon.guard('C23:g_cart'):
                    mon.close(crys.g_cart(g, xr), gmap(xr), TOL, 'C23:g_cart', gd, scale=scale)
                d = rng.normal(size=dim)
                with mon.guard('C23:g_direc'):
                    gdv = crys.g_direc(g, d)
                    mon.close(gdv, gmap(xr + d) - gmap(xr), TOL, 'C23:g_direc', gd, scale=scale)
                T = rng.normal(size=(dim, dim))
                a, b = rng.normal(size=dim), rng.normal(size=dim)
                with mon.guard('C23:g_tensor'):
                    gT = crys.g_tensor(g, T)
                    # (gT)(ga, gb) = T(a, b) for the rotated co-vectors
                    mon.close((Rc @ a) @ gT @ (Rc @ b), a @ T @ b, TOL, 'C23:g_tensor', gd, scale=scale)
                    mon.close(gT, Rc @ T @ Rc.T, TOL, 'C23:g_tensor-matrix', gd, scale=scale)
                # pair states
                chem = int(rng.integers(len(basis)))
                i, j = int(rng.integers(len(basis[chem]))), int(rng.integers(len(basis[chem])))
                Rp = randR(-3, 4)
                dx = L @ (Rp + basis[chem][j] - basis[chem][i])
                with mon.guard('C23:pairstate-g'):
                    ps = crystalStars.PairState(i=i, j=j, R=Rp.copy(), dx=dx.copy())
                    gps = ps.g(crys, chem, g)
                    a0 = lookup(L, basis, gmap(L @ basis[chem][i]))
                    a1 = lookup(L, basis, gmap(L @ (Rp + basis[chem][j])))
                    ok = a0 is not None and a1 is not None and a0[1] == (chem, gps.i) and a1[1] == (chem, gps.j) \
                        and np.array_equal(np.asarray(gps.R), a1[0] - a0[0])
                    mon.check(ok, 'C23:pairstate-g', lambda: '(%d,%d,%s) -> (%s,%s,%s), geometric %s %s; %s' % (i, j, Rp.tolist(), gps.i, gps.j, gps.R, a0, a1, gd()))
                    mon.close(gps.dx, gmap(L @ (Rp + basis[chem][j])) - gmap(L @ basis[chem][i]), TOL, 'C23:pairstate-g-dx', gd, scale=scale)
                    mon.close(gps.dx, L @ (np.asarray(gps.R) + basis[chem][gps.j] - basis[chem][gps.i]), TOL, 'C23:pairstate-g-consistent', gd, scale=scale)
                # cluster sites
                with mon.guard('C23:clustersite-g'):
                    cs = cluster.ClusterSite(ci=ind, R=R.copy())
                    gcs = cs.g(crys, g)
                    ref = lookup(L, basis, gmap(x))
                    mon.check(ref is not None and tuple(gcs.ci) == ref[1] and np.array_equal(np.asarray(gcs.R), ref[0]), 'C23:clustersite-g',
                              lambda: '%s.%s -> %s.%s geometric %s; %s' % (ind, R.tolist(), gcs.ci, gcs.R, ref, gd()))
            # clusters
            for t in range(2):
                nsite = int(rng.integers(2, 5))
                sites, seen = [], set()
                for s in range(nsite):
                    for tt in range(20):
                        ind, R = randatom(), randR(-2, 3)
                        key = (ind, tuple(R.tolist()))
                        if key not in seen: break
                    seen.add(key)
                    sites.append(cluster.ClusterSite(ci=ind, R=R))
                if len(seen) != nsite: continue
                flavour = ['plain', 'transition', 'vacancy', 'transition+vacancy'][int(rng.integers(4))]
                if nsite < 3 and 'transition' in flavour: flavour = 'plain'
                kw = {'transition': 'transition' in flavour, 'vacancy': 'vacancy' in flavour}
                with mon.guard('C23:cluster-g'):
                    cl = cluster.Cluster(sites, **kw)
                    gcl = cl.g(crys, g)
                    # geometric image of the stored sites, rebuilt from Cartesian positions
                    img = []
                    for cs in cl.sites:
                        ref = lookup(L, basis, gmap(xatom(np.asarray(cs.R), cs.ci)))
                        img.append(None if ref is None else cluster.ClusterSite(ci=ref[1], R=ref[0]))
                    ok = all(s is not None for s in img)
                    if ok:
                        expect = cluster.Cluster(img, **kw)
                        ok = (gcl == expect) and hash(gcl) == hash(expect) and gcl.Norder == cl.Norder
                        # positions relative to the centroid agree as sets per species (independent of Cluster.__eq__)
                        xg = np.array([xatom(np.asarray(s_.R), s_.ci) for s_ in gcl.sites])
                        xg = xg - xg.mean(axis=0)
                        xi = np.array([gmap(xatom(np.asarray(s_.R), s_.ci)) for s_ in cl.sites])
                        xi = xi - xi.mean(axis=0)
                        cg = [s_.ci[0] for s_ in gcl.sites]
                        ci_ = [s_.ci[0] for s_ in cl.sites]
                        used = set()
                        for m_ in range(len(xi)):
                            hit = [n_ for n_ in range(len(xg)) if n_ not in used and cg[n_] == ci_[m_] and np.allclose(xg[n_], xi[m_], atol=1e-6)]
                            if hit: used.add(hit[0])
                        ok = ok and len(used) == len(xi) == len(xg)
                        nspecial = 2 if kw['transition'] else (1 if kw['vacancy'] else 0)
                        # the distinguished leading sites (transition pair / vacancy) keep their role and order
                        for s_ in range(nspecial):
                            if not (cg[s_] == ci_[s_] and np.allclose(xg[s_], xi[s_], atol=1e-6)): ok = False
                    mon.check(ok, 'C23:cluster-g', lambda: '%s cluster %s -> %s; %s' % (flavour, [str(s) for s in cl.sites], [str(s) for s in gcl.sites], gd()))
                    mon.seen('cluster_flavours', flavour)

        # ---------------- composition, inverse, translation
        for t in range(case['nops']):
            g = Glist[int(rng.integers(len(Glist)))]
            h = Glist[int(rng.integers(len(Glist)))]
            if t % 2: h = h + randR(-2, 3)
            gh, gi = g * h, g.inv()
            gd = lambda: 'g rot=%s trans=%s; h rot=%s trans=%s %s' % (g.rot.tolist(), g.trans.tolist(), h.rot.tolist(), h.trans.tolist(), desc)
            R, ind = randR(), randatom()
            x = rng.normal(size=dim) * 3
            u = rng.uniform(1e-4, 1 - 1e-4, size=dim)
            chem = int(rng.integers(len(basis)))
            i, j = int(rng.integers(len(basis[chem]))), int(rng.integers(len(basis[chem])))
            Rp = randR(-3, 4)
            ps = crystalStars.PairState(i=i, j=j, R=Rp.copy(), dx=L @ (Rp + basis[chem][j] - basis[chem][i]))
            cs = cluster.ClusterSite(ci=ind, R=R.copy())

            def same_pos(a, b):
                return tuple(a[1]) == tuple(b[1]) and np.array_equal(np.asarray(a[0]), np.asarray(b[0]))

            def same_ps(a, b):
                return a.i == b.i and a.j == b.j and np.array_equal(np.asarray(a.R), np.asarray(b.R)) and np.allclose(a.dx, b.dx, atol=TOL * scale)

            with mon.guard('C23:composition'):
                ok = same_pos(crys.g_pos(gh, R, ind), crys.g_pos(g, *crys.g_pos(h, R, ind)))
                ok = ok and np.allclose(crys.g_cart(gh, x), crys.g_cart(g, crys.g_cart(h, x)), atol=TOL * scale)
                a, b = crys.g_vect(gh, R, u), crys.g_vect(g, *crys.g_vect(h, R, u))
                ok = ok and np.allclose(L @ (a[0] + a[1]), L @ (b[0] + b[1]), atol=TOL * scale)
                ok = ok and np.allclose(crys.g_direc(gh, x), crys.g_direc(g, crys.g_direc(h, x)), atol=TOL * scale)
                ok = ok and same_ps(ps.g(crys, chem, gh), ps.g(crys, chem, h).g(crys, chem, g))
                ok = ok and cs.g(crys, gh) == cs.g(crys, h).g(crys, g)
                # and against the geometric composition
                xx = L @ (g.rot @ (h.rot @ (Linv @ x) + h.trans) + g.trans)
                ok = ok and np.allclose(crys.g_cart(gh, x), xx, atol=TOL * scale)
                mon.check(ok, 'C23:product-acts-as-composition', gd)
            with mon.guard('C23:inverse'):
                ok = same_pos(crys.g_pos(gi, *crys.g_pos(g, R, ind)), (R, ind))
                ok = ok and same_pos(crys.g_pos(g, *crys.g_pos(gi, R, ind)), (R, ind))
                ok = ok and np.allclose(crys.g_cart(gi, crys.g_cart(g, x)), x, atol=TOL * scale)
                a = crys.g_vect(gi, *crys.g_vect(g, R, u))
                ok = ok and np.allclose(L @ (a[0] + a[1]), L @ (R + u), atol=TOL * scale)
                ok = ok and same_ps(ps.g(crys, chem, g).g(crys, chem, gi), ps)
                ok = ok and cs.g(crys, g).g(crys, gi) == cs
                e = g * gi
                ok = ok and np.array_equal(e.rot, np.eye(dim, dtype=int)) and np.allclose(e.trans, 0, atol=1e-9) and \
                    all(tuple(m) == tuple(range(len(m))) for m in e.indexmap)
                mon.check(ok, 'C23:inverse-acts-as-inverse', gd)
            with mon.guard('C23:translated-op'):
                Rv = randR(-3, 4)
                gp, gm = g + Rv, g - Rv
                a0 = crys.g_pos(g, R, ind)
                ok = same_pos(crys.g_pos(gp, R, ind), (a0[0] + Rv, a0[1])) and same_pos(crys.g_pos(gm, R, ind), (a0[0] - Rv, a0[1]))
                ok = ok and np.allclose(crys.g_cart(gp, x), crys.g_cart(g, x) + L @ Rv, atol=TOL * scale)
                ok = ok and np.allclose(crys.g_cart(gm, x), crys.g_cart(g, x) - L @ Rv, atol=TOL * scale)
                b0, b1 = crys.g_vect(g, R, u), crys.g_vect(gp, R, u)
                ok = ok and np.array_equal(b1[0], b0[0] + Rv) and np.allclose(b1[1], b0[1], atol=TOL)
                # a pure translation does not change a pair state; a cluster site is shifted
                ok = ok and same_ps(ps.g(crys, chem, gp), ps.g(crys, chem, g))
                ok = ok and cs.g(crys, gp) == cs.g(crys, g) + Rv
                ok = ok and gp.indexmap == g.indexmap and np.array_equal(gp.rot, g.rot)
                mon.check(ok, 'C23:translated-op', lambda: 'Rv=%s %s' % (Rv.tolist(), gd()))
    return mon.result(sample=sample)
