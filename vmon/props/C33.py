"""C33: Monte Carlo sampler state is a function of the occupation.

Recorded-history monitor on the real MonteCarloSampler: after every event (start, single- and
multi-site update, trial energy, performed transition) the sampler is compared with (R8) a second
sampler constructed from the same data and freshly started on the current occupation, and with
(R9) the brute-force cluster energy of vmon.ref.sampler_ref (geometry only).  Small supercells
(<= 8 mobile sites; <= 10 on the thorough tier) are explored exhaustively: every occupation, every
single-site and every pair update and its inverse, plus a Gray-code walk through all occupations
without restart; larger supercells get random histories of 200 events.  With / without vacancy,
with / without jump network (and transition-state clusters), with spectators.  A fixed share of the
workload uses thin supercells (period <= cluster range: a cluster meets its own periodic image, the
image of the fixed vacancy lies inside the vacancy clusters), explored in the same two ways.
"""
import itertools
import numpy as np
from vmon import gen
from vmon.util import Mon
from vmon.ref import sampler_ref as sr

ID = 'C33'
RULE = ('supercell drawn from a fixed menu (chains, ladders, planes, triangular/honeycomb layers, sc/fcc/bcc/hcp/diamond/B2/'
        'rocksalt/L12 incl. non-diagonal supercell matrices and cells in which clusters wrap around) x random cluster/KRA/TS '
        'values x variant (vacancy seat or none, jump network or none, TS clusters or none); exhaustive mode visits every '
        'occupation with every 1- and 2-site update, history mode draws 200 events (start / update of 1..4+1..4 sites incl. '
        'no-op sites / swap / trial only / performed transition); a fixed share of the cases (28 of 136 quick; every thin '
        'entry x every variant x 3 on the thorough tier) uses the THIN menu of vmon.ref.sampler_ref: supercells whose period is not '
        'longer than the cluster range (fcc nn clusters in 1x2x3 / 1x1x4 / 2x2x1 / 1x3x3 / 1x4x5 and a non-diagonal thin cell, fcc 2x2x2 and '
        '3x3x2 with pairs to the 4th neighbour, hcp 1x1x1 / 1x1x2 / 2x1x2, B2 (with spectators) and all-mobile B2 1x2x2 / 2x1x3 / 2x2x2 with '
        'cut-off 2.01, sc, bcc, diamond, rocksalt, L12, chains, planes, triangular, honeycomb), so that a cluster contains a site and '
        'its own periodic image (the same supercell site listed twice in one interaction) and, with a vacancy, the periodic image of '
        'the fixed vacancy lies inside the range of the vacancy clusters; thin cells with <= 8 (10) sites are explored exhaustively, '
        'larger ones by histories; non-trivial = at least one interaction changes state; '
        'distinct = (crystal, supercell, cutoff, order, variant, mode)')
ASSUMPTIONS = ['energies compared with tolerance 1e-9 x sum of |interaction values|; integer state compared exactly',
               'the fresh sampler (R8) is a second MonteCarloSampler object built from the same inputs and started on a copy of '
               'the occupation; the brute-force energy (R9) maps cluster sites to indices through positions only',
               'update/deltaE_trial arguments never contain the same site twice nor in both lists (the docstring leaves that '
               'unspecified); sites already in the requested state may be listed (documented no-op)',
               'exhaustive exploration bound: <= 8 mobile sites (quick), <= 10 (thorough)',
               'self-wrapping (thin) supercells are in scope: the brute-force energy R9 counts one instance per (cluster, lattice '
               'translation modulo the supercell), every cluster site mapped into the supercell by its position, the instance being on '
               'iff all mapped sites are occupied (a site that occurs twice simply has to be occupied; the vacancy site is never '
               'occupied, so a vacancy cluster that reaches the periodic image of its own vacancy never counts); on the unchanged '
               'repository evalcluster, expandcluster_matrices, clusterevaluator and the samplers agree with this reading in every thin '
               'cell of the menu. Barriers in thin cells are only compared between samplers (history vs fresh), never with a model',
               'the thin-regime counters (thin:*) come from a geometry-only census (vmon.ref.sampler_ref.placement_stats), not from '
               'the interaction lists of the sampler under test']
REQUIRED_OBS = {'eval:C33:E=fresh': 2000, 'eval:C33:E=brute': 2000, 'eval:C33:trial=performed': 2000, 'eval:C33:trial=brute': 2000,
                'eval:C33:sets=fresh': 2000, 'eval:C33:clustercount=fresh': 2000, 'eval:C33:transitions=fresh': 500,
                'eval:C33:trial-is-pure': 200, 'eval:C33:occ-array': 2000,
                'events:start': 200, 'events:update1': 500, 'events:update2': 500, 'events:updateN': 100, 'events:trial': 100,
                'events:move': 30, 'events:noop-sites': 20, 'events:restart': 20,
                'cells:exhaustive': 8, 'cells:history': 8, 'variant:vac+jumps': 3, 'variant:vac': 3, 'variant:jumps': 3,
                'variant:plain': 3, 'cells:spectator': 2, 'occupations_exhausted': 1000,
                # thin (self-wrapping) regime
                'thin_supercells': 12, 'thin:exhaustive': 6, 'thin:history': 4, 'thin:vac': 4, 'thin:jumps': 4,
                'self_wrapping_instances': 300, 'vacancy_image_in_range': 40, 'events:update-double-site': 2000,
                'events:trial-double-site': 2000}
CASE_TIMEOUT = 300

QUICK_LARGE = [('fcc', 0), ('fcc', 1), ('fcc', 2), ('bcc', 0), ('bcc', 3), ('sc', 0), ('sc', 1), ('hcp', 1), ('diamond', 0), ('diamond', 1),
               ('b2', 0), ('b2', 1), ('rocksalt', 0), ('l12', 0), ('tet', 0), ('tet', 1), ('plane', 0), ('plane', 1), ('tri', 0),
               ('honey', 0), ('honey', 1), ('chain2', 0), ('b2mob', 0), ('hcp', 0)]
VARIANTS = ('plain', 'jumps', 'vac', 'vac+jumps')


def cases(tier, seed):
    out = []
    small = sr.menu('small')
    if tier == 'quick':
        for i in range(44):
            out.append({'seed': seed, 'idx': i, 'hashseed': i % 4, 'mode': 'exhaustive', 'menu': 'small',
                        'cfg': list(small[(i * 7 + seed * 3) % len(small)]), 'variant': VARIANTS[(i + seed) % 4]})
        for i in range(56):
            out.append({'seed': seed, 'idx': 100 + i, 'hashseed': i % 4, 'mode': 'history', 'menu': 'large',
                        'cfg': list(QUICK_LARGE[(i + seed * 5) % len(QUICK_LARGE)]), 'variant': VARIANTS[(i // 2 + seed) % 4]})
        for i in range(8):
            out.append({'seed': seed, 'idx': 200 + i, 'hashseed': i % 4, 'mode': 'history', 'menu': 'small',
                        'cfg': list(small[(i * 5 + seed) % len(small)]), 'variant': VARIANTS[i % 4]})
        # thin supercells: 18 exhaustive (<= 8 sites) + 10 histories (any size, the > 8-site entries always among them)
        thin = sr.menu('thin')
        tsmall = [c for c in thin if sr.menu_nsites('thin', *c) <= 8]
        tbig = [c for c in thin if sr.menu_nsites('thin', *c) > 8]
        for i in range(18):
            out.append({'seed': seed, 'idx': 300 + i, 'hashseed': i % 4, 'mode': 'exhaustive', 'menu': 'thin',
                        'cfg': list(tsmall[(i * 5 + seed * 7) % len(tsmall)]), 'variant': VARIANTS[(i + seed) % 4]})
        for i in range(10):
            cfg = tbig[(i + seed) % len(tbig)] if i < 4 else thin[(i * 11 + seed * 3) % len(thin)]
            out.append({'seed': seed, 'idx': 400 + i, 'hashseed': i % 4, 'mode': 'history', 'menu': 'thin',
                        'cfg': list(cfg), 'variant': VARIANTS[(i + 2 * (i // 4) + seed) % 4]})
    else:
        medium, large = sr.menu('medium'), sr.menu('large')
        n = 0
        for rep in range(2):
            for cfg in small:
                for v in VARIANTS:
                    out.append({'seed': seed, 'idx': n, 'hashseed': n % 7, 'mode': 'exhaustive', 'menu': 'small', 'cfg': list(cfg), 'variant': v})
                    n += 1
        for rep in range(3):
            for cfg in medium:
                for v in VARIANTS:
                    out.append({'seed': seed, 'idx': n, 'hashseed': n % 7, 'mode': 'exhaustive', 'menu': 'medium', 'cfg': list(cfg), 'variant': v})
                    n += 1
        for rep in range(24):
            for cfg in large:
                for v in VARIANTS:
                    out.append({'seed': seed, 'idx': n, 'hashseed': n % 7, 'mode': 'history', 'menu': 'large', 'cfg': list(cfg), 'variant': v})
                    n += 1
        for rep in range(4):
            for cfg in small + medium:
                out.append({'seed': seed, 'idx': n, 'hashseed': n % 7, 'mode': 'history', 'menu': 'small' if cfg in small else 'medium',
                            'cfg': list(cfg), 'variant': VARIANTS[(n + rep) % 4]})
                n += 1
        # thin supercells: every entry x every variant, exhaustive where <= 10 sites (and one history), histories otherwise
        for rep in range(3):
            for cfg in sr.menu('thin'):
                for v in VARIANTS:
                    exh = sr.menu_nsites('thin', *cfg) <= 10 and rep < 2
                    out.append({'seed': seed, 'idx': n, 'hashseed': n % 7, 'mode': 'exhaustive' if exh else 'history', 'menu': 'thin',
                                'cfg': list(cfg), 'variant': v})
                    n += 1
    return out


class Snapshot:
    """what a freshly started sampler reports for one occupation"""
    __slots__ = ('occ', 'E', 'Eb', 'cc', 'occset', 'unoccset', 'trans')

    def __init__(self, B, eref, occ, mon):
        self.occ = occ.copy()
        with mon.guard('C33:fresh-start'):
            B.start(occ.copy())
        self.E = B.E()
        self.Eb = eref.E(occ)
        self.cc = B.clustercount.copy()
        self.occset = set(B.occupied_set)
        self.unoccset = set(B.unoccupied_set)
        self.trans = None
        if B.jumps is not None:
            ij, Q, dx = B.transitions()
            self.trans = (list(ij), np.array(Q), np.array(dx))


class Checker:
    def __init__(self, mon, A, B, eref, desc, vac, double=()):
        self.mon, self.A, self.B, self.eref, self.desc, self.vac = mon, A, B, eref, desc, vac
        self.double = set(double)  # sites that occur twice in one cluster placement (thin supercells)
        self.scale = sr.energy_scale(A)
        self.qscale = sr.barrier_scale(A)
        self.N = len(A.Ninteract)
        self.table = {}

    def snap(self, occ):
        key = occ.tobytes()
        s = self.table.get(key)
        if s is None:
            s = Snapshot(self.B, self.eref, occ, self.mon)
            if len(self.table) < 5000:
                self.table[key] = s
        return s

    def state(self, shadow, what):
        """the sampler A must look exactly like a fresh sampler on `shadow`"""
        mon, A = self.mon, self.A
        s = self.snap(shadow)
        info = lambda: '%s after %s occ=%s' % (self.desc, what, shadow.tolist())
        mon.check(np.array_equal(np.asarray(A.occ), shadow), 'C33:occ-array', lambda: 'sampler occ %s | %s' % (np.asarray(A.occ).tolist(), info()))
        with mon.guard('C33:E'):
            E = A.E()
            mon.close(E, s.E, 1e-9, 'C33:E=fresh', info, scale=self.scale)
            mon.close(E, s.Eb, 1e-9, 'C33:E=brute', info, scale=self.scale)
        mon.check(np.array_equal(A.clustercount, s.cc), 'C33:clustercount=fresh',
                  lambda: 'differs at interactions %s | %s' % (np.nonzero(np.asarray(A.clustercount) != s.cc)[0][:10].tolist(), info()))
        occset = set(int(i) for i in np.nonzero(shadow == 1)[0])
        unoccset = set(int(i) for i in np.nonzero(shadow == 0)[0])
        mon.check(set(A.occupied_set) == s.occset and set(A.unoccupied_set) == s.unoccset, 'C33:sets=fresh',
                  lambda: 'occupied %s unoccupied %s | %s' % (sorted(A.occupied_set), sorted(A.unoccupied_set), info()))
        mon.check(set(A.occupied_set) == occset and set(A.unoccupied_set) == unoccset, 'C33:sets=occupation',
                  lambda: 'occupied %s unoccupied %s | %s' % (sorted(A.occupied_set), sorted(A.unoccupied_set), info()))
        if s.trans is not None:
            with mon.guard('C33:transitions'):
                ij, Q, dx = A.transitions()
                ok = list(ij) == s.trans[0] and np.array(dx).shape == s.trans[2].shape and np.array_equal(np.array(dx), s.trans[2])
                mon.check(ok, 'C33:transitions=fresh', lambda: 'ij %s vs fresh %s | %s' % (list(ij)[:12], s.trans[0][:12], info()))
                if ok:
                    mon.close(np.array(Q), s.trans[1], 1e-9, 'C33:barriers=fresh', info, scale=self.qscale)
        return s

    def trial(self, shadow, occsites, unoccsites, perform, what, form=0):
        """deltaE_trial must not change the state and must equal the energy change of performing the update"""
        mon, A = self.mon, self.A
        new = shadow.copy()
        for i in occsites:
            if new[i] == 0: new[i] = 1
        for i in unoccsites:
            if new[i] == 1: new[i] = 0
        conv = (tuple, list, lambda x: np.array(x, dtype=int))[form % 3]
        a, b = conv([int(i) for i in occsites]), conv([int(i) for i in unoccsites])
        info = lambda: '%s %s occsites=%s unoccsites=%s from occ=%s' % (self.desc, what, list(occsites), list(unoccsites), shadow.tolist())
        before = self.snap(shadow)
        if self.double and any(new[i] != shadow[i] and i in self.double for i in list(occsites) + list(unoccsites)):
            mon.count('events:update-double-site' if perform else 'events:trial-double-site')
            if perform: mon.count('events:trial-double-site')
        dE = None
        with mon.guard('C33:deltaE_trial'):
            E0 = A.E()
            cc0 = A.clustercount.copy()
            dE = A.deltaE_trial(a, b)
            mon.check(np.array_equal(A.clustercount, cc0) and np.array_equal(np.asarray(A.occ), shadow) and A.E() == E0
                      and set(A.occupied_set) == before.occset and set(A.unoccupied_set) == before.unoccset,
                      'C33:trial-is-pure', info)
        after = self.snap(new)
        if dE is not None:
            mon.close(dE, after.Eb - before.Eb, 1e-9, 'C33:trial=brute', info, scale=self.scale)
            mon.close(dE, after.E - before.E, 1e-9, 'C33:trial=fresh', info, scale=self.scale)
        if not perform:
            return shadow
        with mon.guard('C33:update'):
            A.update(a, b)
            if dE is not None:
                mon.close(A.E() - E0, dE, 1e-9, 'C33:trial=performed', info, scale=self.scale)
        self.state(new, what + ' update(%s,%s)' % (list(occsites), list(unoccsites)))
        return new

    def vacancy_guard(self, shadow):
        mon, A = self.mon, self.A
        if self.vac is None: return
        others = [i for i in range(self.N) if i != self.vac]
        for fn in (A.update, A.deltaE_trial):
            for args in (((self.vac,), ()), ((), (self.vac,)), ((others[0], self.vac), (others[-1],))):
                try:
                    fn(*args)
                    mon.check(False, 'C33:vacancy-guard', '%s: %s%s did not raise' % (self.desc, fn.__name__, args))
                except ValueError:
                    mon.check(True, 'C33:vacancy-guard')
                except Exception as e:
                    mon.check(False, 'C33:vacancy-guard', '%s: %s%s raised %s' % (self.desc, fn.__name__, args, type(e).__name__))
        self.state(shadow, 'rejected vacancy update')


def flips(shadow, sites):
    occs = tuple(i for i in sites if shadow[i] == 0)
    unoccs = tuple(i for i in sites if shadow[i] == 1)
    return occs, unoccs


def exhaustive(mon, chk, S, vac, rng):
    free = [n for n in range(S.Nsites) if n != vac]
    updates = [(i,) for i in free] + list(itertools.combinations(free, 2))
    A = chk.A
    nocc = 0
    for occ in S.all_occ(vac):
        if len(mon.viol) >= 25: return  # the report is full
        nocc += 1
        shadow = occ.copy()
        with mon.guard('C33:start'):
            A.start(occ)  # the sampler keeps (and edits) this array
        mon.count('events:start')
        chk.state(shadow, 'start')
        for u in updates:
            a, b = flips(shadow, u)
            mon.count('events:update%d' % len(u))
            new = chk.trial(shadow, a, b, True, 'exhaustive', form=nocc + len(u))
            a2, b2 = flips(new, u)
            mon.count('events:update%d' % len(u))
            shadow = chk.trial(new, a2, b2, True, 'exhaustive-inverse', form=nocc)
    mon.count('occupations_exhausted', nocc)
    # Gray-code walk: all occupations, one flip at a time, no restart in between
    shadow = np.zeros(S.Nsites, dtype=int)
    if vac is not None: shadow[vac] = -1
    with mon.guard('C33:start'):
        A.start(shadow.copy())
    chk.state(shadow, 'start')
    order = list(rng.permutation(free))
    for g in range(1, 2 ** len(free)):
        if len(mon.viol) >= 25: return
        bit = (g & -g).bit_length() - 1
        a, b = flips(shadow, (order[bit],))
        mon.count('events:update1')
        shadow = chk.trial(shadow, a, b, True, 'gray-walk step %d' % g, form=g)
    mon.count('graywalk_steps', 2 ** len(free) - 1)


def history(mon, chk, S, vac, rng, length):
    A = chk.A
    free = np.array([n for n in range(S.Nsites) if n != vac])
    shadow = S.rand_occ(rng, vac)
    with mon.guard('C33:start'):
        A.start(shadow.copy())
    mon.count('events:start')
    chk.state(shadow, 'start')
    chk.vacancy_guard(shadow)
    for step in range(length):
        if len(mon.viol) >= 25: return
        r = rng.uniform()
        occd = [int(i) for i in free if shadow[i] == 1]
        unoc = [int(i) for i in free if shadow[i] == 0]
        what = 'history step %d' % step
        if r < 0.08:
            shadow = S.rand_occ(rng, vac)
            with mon.guard('C33:start'):
                A.start(shadow.copy())
            mon.count('events:start')
            mon.count('events:restart')
            chk.state(shadow, what + ' restart')
        elif r < 0.30:
            i = int(rng.choice(free))
            a, b = flips(shadow, (i,))
            mon.count('events:update1')
            shadow = chk.trial(shadow, a, b, True, what, form=step)
        elif r < 0.45 and occd and unoc:
            mon.count('events:swap')
            mon.count('events:update2')
            shadow = chk.trial(shadow, (int(rng.choice(unoc)),), (int(rng.choice(occd)),), True, what + ' swap', form=step)
        elif r < 0.75:
            k = int(rng.integers(2, 9))
            sites = [int(i) for i in rng.choice(free, size=min(k, len(free)), replace=False)]
            a, b = flips(shadow, sites)
            extra = ''
            if rng.uniform() < 0.3:
                # sites that are already in the requested state: documented no-op
                rest = [i for i in free if i not in sites]
                na = [int(i) for i in rest if shadow[i] == 1][:int(rng.integers(0, 3))]
                nb = [int(i) for i in rest if shadow[i] == 0][:int(rng.integers(0, 3))]
                if na or nb:
                    a, b = tuple(rng.permutation(list(a) + na)), tuple(rng.permutation(list(b) + nb))
                    mon.count('events:noop-sites')
                    extra = ' (+no-op sites)'
            mon.count('events:updateN' if len(sites) > 2 else 'events:update2')
            shadow = chk.trial(shadow, a, b, True, what + ' multi' + extra, form=step)
        elif r < 0.9:
            k = int(rng.integers(1, 6))
            sites = [int(i) for i in rng.choice(free, size=min(k, len(free)), replace=False)]
            a, b = flips(shadow, sites)
            mon.count('events:trial')
            chk.trial(shadow, a, b, False, what + ' trial only', form=step)
        elif A.jumps is not None and vac is None:
            with mon.guard('C33:transitions'):
                ij, Q, dx = A.transitions()
                if len(ij):
                    i, j = ij[int(rng.integers(len(ij)))]
                    mon.count('events:move')
                    shadow = chk.trial(shadow, (int(j),), (int(i),), True, what + ' transition %d->%d' % (i, j), form=step)
        else:
            chk.vacancy_guard(shadow)


def run_case(case):
    mon = Mon()
    rng = gen.rng_for(case['seed'], case['idx'], 33)
    name, k = case['cfg']
    variant = case['variant']
    S = sr.Setup(case['menu'], name, k, rng, const=bool(rng.uniform() < 0.8), kra=str(rng.choice(['vector', 'scalar', 'zero'])),
                 zero_fraction=float(rng.choice([0., 0., 0.3])))
    vac = int(rng.choice(S.chemsites)) if variant.startswith('vac') else None
    jumps = variant.endswith('jumps')
    ts = bool(rng.uniform() < 0.7)
    desc = dict(S.describe(), variant=variant, vacancy=vac, ts=ts, mode=case['mode'], hashseed=case.get('hashseed'))
    A = B = None
    with mon.guard('C33:construct'):
        A = S.sampler(vac, jumps, ts)
        B = S.sampler(vac, jumps, ts)
    if A is None or B is None:
        return mon.result(sample=desc)
    eref = S.energyref(vac)
    mon.count('variant:' + variant)
    mon.count('cells:' + case['mode'])
    mon.count('cells:spectator', bool(S.spectator))
    mon.seen('crystals', name)
    mon.note_max('Nsites', S.Nsites)
    mon.note_max('Ninteractions', len(A.interactvalue))
    double = ()
    if case['menu'] == 'thin':
        ce, _ = S.clusters_values(vac)
        st = sr.placement_stats(S.supercell(vac), ce)
        double = st['double_sites']
        mon.count('thin_supercells')
        mon.count('thin:' + case['mode'])
        mon.count('thin:vac', vac is not None)
        mon.count('thin:jumps', jumps)
        mon.count('self_wrapping_instances', st['self_wrapping'])
        mon.count('vacancy_image_in_range', st['vacancy_image'])
        mon.count('thin:cells-with-self-wrapping', st['self_wrapping'] > 0)
        mon.count('thin:cells-with-vacancy-image', st['vacancy_image'] > 0)
        mon.note_max('thin:Nsites', S.Nsites)
        mon.seen('thin:cells', '%s %s' % (name, S.superlatt.tolist()))
        desc['thin'] = {k: v for k, v in st.items() if k != 'double_sites'}
    chk = Checker(mon, A, B, eref, str(desc), vac, double)
    if case['mode'] == 'exhaustive':
        exhaustive(mon, chk, S, vac, rng)
    else:
        history(mon, chk, S, vac, rng, 200)
    mon.sig([name, S.superlatt.tolist(), S.cutoff, S.order, variant, case['mode']])
    return mon.result(sample=desc)
