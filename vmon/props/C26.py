"""C26: solute-vacancy jump networks classify every transition exactly once.

Monitor: the (jumpnetwork, jumptype, starpair) triples returned by StarSet.jumpnetwork_omega1/omega2 on a kinetic star
set, and om1_*/om2_*/omegalist() of a VacancyMediated calculator after generate()'s pruning, are compared with an
independent enumeration (vmon.ref.pairs): for every non-zero state (i; R, j) and every jump (j -> j', dR) of the
omega0 network the target is either the solute site (exchange, final state (j; -R, i)) or another state (swing hop);
classes must partition that set (pruned: exactly the hops with an end point in the thermodynamic range), equal the
orbit of their first member under the brute-force space group and reversal, carry the vacancy displacement, the
omega0 class of the underlying jump and the star pair of their end points.
"""
import numpy as np
from vmon import gen
from vmon.util import Mon
from vmon.ref import pairs

ID = 'C26'
RULE = ('crystal as in C24 (30% named, else random Bravais type, 2-D/3-D, 1-2 species, <=3 sites of the vacancy species), '
        'cut-off after neighbour shell 1..2 and a second cut-off after shell 1..3 on the same crystal; (a) StarSet(N in 1..3, <= 320 states [420 thorough], origin states on in 70%) -> omega1/omega2 '
        'networks, and in 60 % the same object regenerated (origin-state flag flipped at the same range, or another range) and asked again; (b) VacancyMediated(Nthermo in 1..2, kinetic set <= 260 / 200 states [340 / 260 thorough]) -> pruned networks; non-trivial = '
        'at least two omega1 classes; distinct = (structure kind, sites, |G|, range, omega1 classes, omega2 classes, pruned?)')
ASSUMPTIONS = ['reference space group = vmon.ref.geom.full_group (cases where its order differs from len(crys.G) are skipped)',
               'displacements compared to 1e-9',
               'the thermodynamic / kinetic ranges of a calculator are the model BFS sets of Nthermo / Nthermo+1 jumps; the '
               "calculator's own star sets are required to coincide with them (C26:ranges)",
               'only construction and the network tables of a calculator are exercised (Lij is never called, so '
               'non-percolating networks are admissible inputs)']
REQUIRED_OBS = {'networks_checked': 150, 'eval:C26:om1-complete': 80, 'eval:C26:om2-complete': 80, 'eval:C26:om1-orbit': 300,
                'eval:C26:om2-orbit': 100, 'eval:C26:om1-dx': 80, 'eval:C26:om1-jumptype': 80, 'eval:C26:om1-starpair': 80,
                'eval:C26:pruned-exactly-outer': 25, 'calculators_checked': 25, 'calculators_with_pruning': 15, 'outer_outer_hops': 500,
                'nthermo2_calculators': 3, 'reused_starsets': 15, 'reused_starsets_flag_flipped': 8, 'dim2_cases': 15, 'multisite_cases': 15, 'hops_checked': 5000}
CASE_TIMEOUT = 400
PER_CASE = 2
VARIANTS = 2
CHUNK = 2


def cases(tier, seed):
    if tier == 'quick':
        return [{'seed': seed, 'idx': i, 'hashseed': i % 5} for i in range(40)]
    return [{'seed': seed, 'idx': i, 'hashseed': i % 7, 'big': True} for i in range(480)]


def check_network(mon, pg, keys, starindex, net, model, which, what, desc, tags=()):
    """net = (jumpnetwork, jumptype, starpair); model = dict (key_i, key_f) -> (jt, dx) of required transitions."""
    w = 'om%d' % which
    det = lambda: '%s %s' % (what, desc)
    mon.count('networks_checked')
    try:
        jnw, jtw, spw = net
        ok = len(jnw) == len(jtw) == len(spw)
    except Exception:
        ok = False
    if not mon.check(ok, 'C26:tables-aligned', lambda: 'jump network / jump type / star pair tables differ in length %s' % det(), tags):
        return
    n = len(keys)
    seen = {}
    dup = bad = None
    for k, jl in enumerate(jnw):
        for (IS, FS), dx in jl:
            if not (isinstance(IS, (int, np.integer)) and isinstance(FS, (int, np.integer)) and 0 <= IS < n and 0 <= FS < n):
                bad = (k, IS, FS)
                continue
            pair = (keys[IS], keys[FS])
            if pair in seen and dup is None: dup = (pair, seen[pair], k)
            seen[pair] = k
    mon.check(bad is None, 'C26:%s-state-index' % w, lambda: 'class, initial, final = %s is not a pair of states %s' % (bad, det()), tags)
    mon.check(dup is None, 'C26:%s-exactly-once' % w, lambda: 'transition %s listed in classes %s and %s %s' % (dup + (det(),)), tags)
    missing = [p for p in model if p not in seen]
    extra = [p for p in seen if p not in model]
    mon.check(not missing, 'C26:%s-complete' % w, lambda: '%d of %d transitions in no class, e.g. %s %s' % (
        len(missing), len(model), missing[:2], det()), tags)
    mon.check(not extra, 'C26:%s-sound' % w, lambda: '%d listed transitions are not %s, e.g. %s %s' % (
        len(extra), 'exchanges' if which == 2 else 'vacancy hops inside the required set', extra[:2], det()), tags)
    mon.count('hops_checked', len(seen))
    mon.note_max(w + '_classes', len(jnw))
    dxerr, jtbad, spbad, orbbad = 0., None, None, None
    for k, jl in enumerate(jnw):
        cls = set()
        for (IS, FS), dx in jl:
            if not (isinstance(IS, (int, np.integer)) and isinstance(FS, (int, np.integer)) and 0 <= IS < n and 0 <= FS < n): continue
            pair = (keys[IS], keys[FS])
            cls.add(pair)
            # vacancy displacement, geometrically
            geo = (pg.dx(pair[1]) - pg.dx(pair[0])) if which == 1 else -pg.dx(pair[0])
            dxerr = max(dxerr, float(np.max(np.abs(np.asarray(dx, dtype=float) - geo))))
            if pair in model:
                jt, mdx = model[pair]
                dxerr = max(dxerr, float(np.max(np.abs(geo - mdx))))
                if int(jtw[k]) != jt and jtbad is None: jtbad = (k, pair, int(jtw[k]), jt)
            if {int(starindex[IS]), int(starindex[FS])} != {int(spw[k][0]), int(spw[k][1])} and spbad is None:
                spbad = (k, pair, tuple(spw[k]), (int(starindex[IS]), int(starindex[FS])))
        if cls:
            first = (keys[jl[0][0][0]], keys[jl[0][0][1]]) if len(jl) else None
            orb = pg.hop_orbit(first)
            good = mon.check(cls == orb, 'C26:%s-orbit' % w, lambda: 'class %d has %d transitions, the orbit (group + reversal) of '
                             'its first %s has %d; missing %s extra %s %s' % (k, len(cls), first, len(orb), sorted(orb - cls)[:2],
                                                                          sorted(cls - orb)[:2], det()), tags)
        else:
            mon.check(False, 'C26:%s-orbit' % w, lambda: 'empty class %d %s' % (k, det()), tags)
    mon.check(dxerr < 1e-9, 'C26:%s-dx' % w, lambda: 'max |dx - vacancy displacement| = %.3e %s' % (dxerr, det()), tags)
    mon.check(jtbad is None, 'C26:%s-jumptype' % w, lambda: 'class, transition, listed type, omega0 class of the jump = %s %s' % (jtbad, det()), tags)
    mon.check(spbad is None, 'C26:%s-starpair' % w, lambda: 'class, transition, listed star pair, stars of the end points = %s %s' % (spbad, det()), tags)


def run_case(case):
    from onsager import crystalStars as stars, OnsagerCalc
    mon = Mon()
    rng = gen.rng_for(case['seed'], case['idx'], 26)
    sample = None
    big = bool(case.get('big'))
    cap, cap1, cap2 = (420, 340, 260) if big else (320, 260, 200)
    for rep in range(PER_CASE * VARIANTS):
        if rep % VARIANTS == 0:
            crys, chem, jn, desc, kind = pairs.rand_network(rng, gen, named_prob=0.3, maxshell=2)
        else:
            # the same crystal (construction dominates the cost) with another cut-off
            cut, nsh = pairs.pick_cutoff(crys, chem, rng, 3)
            jn = crys.jumpnetwork(chem, cut)
            desc = dict(desc, cutoff=cut, njumps=sum(len(j) for j in jn))
            if desc.get('named'): desc['named'] += '@%.4f' % cut
            if not jn: continue
        pg = pairs.PairGeom(crys.lattice, crys.basis, chem, jn)
        if len(pg.group) != len(crys.G):
            mon.count('group_mismatch')
            continue
        desc['hashseed'] = case.get('hashseed')
        sizes = {}
        for N in (1, 2, 3):
            r = pg.reachable(N, cap=cap)
            if r is None: break
            sizes[N] = r
        if not sizes:
            mon.count('too_large')
            continue
        mon.count('dim2_cases', pg.dim == 2)
        mon.count('multisite_cases', pg.N > 1)
        mon.seen('kinds', kind)
        zeros = set(pg.zero(i) for i in range(pg.N))

        # ---- (a) star set level ---------------------------------------------------------------
        okN = sorted(sizes)
        N = int(okN[-1] if rng.uniform() < 0.5 else okN[int(rng.integers(len(okN)))])
        origin = bool(rng.uniform() < 0.7)
        d1 = dict(desc, N=N, origin=origin)
        if sample is None: sample = d1
        ss = None
        with mon.guard('C26:construct'):
            ss = stars.StarSet(jn, crys, chem, Nshells=N, originstates=origin)
        if ss is None: continue
        keys = [pairs.key_of(s) for s in ss.states]
        m1, m2 = pg.hops(set(keys))
        n1 = n2 = None
        with mon.guard('C26:jumpnetwork_omega1'):
            n1 = ss.jumpnetwork_omega1()
        with mon.guard('C26:jumpnetwork_omega2'):
            n2 = ss.jumpnetwork_omega2()
        mon.seen('N_used', N)
        if n1 is not None:
            check_network(mon, pg, keys, ss.index, n1, m1, 1, 'StarSet(N=%d, origin=%s).jumpnetwork_omega1()' % (N, origin), d1)
        if n2 is not None:
            check_network(mon, pg, keys, ss.index, n2, m2, 2, 'StarSet(N=%d, origin=%s).jumpnetwork_omega2()' % (N, origin), d1)
        if n1 is not None and n2 is not None and len(n1[0]) > 1:
            mon.sig([kind, pg.N, len(pg.group), N, len(n1[0]), len(n2[0]), False])

        # ---- (a') reuse: the same StarSet object regenerated (other origin-state flag at the same range, or another range) and asked again
        if n1 is not None and n2 is not None and rng.uniform() < 0.6:
            flip = rng.uniform() < 0.6 or len(okN) == 1
            N2 = N if flip else int([x for x in okN if x != N][int(rng.integers(len(okN) - 1))])
            origin2 = (not origin) if flip else bool(rng.uniform() < 0.5)
            d1b = dict(desc, N=N2, origin=origin2, history='generate(%d, %s) -> omega1/omega2 -> generate(%d, %s)' % (N, origin, N2, origin2))
            ok2 = False
            with mon.guard('C26:regenerate'):
                ss.generate(N2, originstates=origin2)
                ok2 = True
            if ok2:
                keys2 = [pairs.key_of(s) for s in ss.states]
                m1b, m2b = pg.hops(set(keys2))
                r1 = r2 = None
                with mon.guard('C26:jumpnetwork_omega1'):
                    r1 = ss.jumpnetwork_omega1()
                with mon.guard('C26:jumpnetwork_omega2'):
                    r2 = ss.jumpnetwork_omega2()
                mon.count('reused_starsets')
                mon.count('reused_starsets_flag_flipped', flip)
                if r1 is not None:
                    check_network(mon, pg, keys2, ss.index, r1, m1b, 1, 'reused StarSet %s .jumpnetwork_omega1()' % d1b['history'], d1b, tags=('reused-object',))
                if r2 is not None:
                    check_network(mon, pg, keys2, ss.index, r2, m2b, 2, 'reused StarSet %s .jumpnetwork_omega2()' % d1b['history'], d1b, tags=('reused-object',))

        # ---- (b) calculator level: pruning ----------------------------------------------------
        cand = [nt for nt in (1, 2) if nt + 1 in sizes and len(sizes[nt + 1]) <= (cap1 if nt == 1 else cap2)]
        if not cand or rng.uniform() < 0.25: continue
        Nth = int(cand[-1] if rng.uniform() < 0.35 else cand[0])
        thermo = set(sizes[Nth])
        kin = set(sizes[Nth + 1]) | zeros
        a1, a2 = pg.hops(kin)
        want1 = {p: v for p, v in a1.items() if p[0] in thermo or p[1] in thermo}
        mon.count('empty_om1_calculators', not want1)
        d2 = dict(desc, Nthermo=Nth)
        calc = None
        with mon.guard('C26:VacancyMediated'):
            calc = OnsagerCalc.VacancyMediated(crys, chem, crys.sitelist(chem), jn, Nth, NGFmax=2)
        if calc is None: continue
        mon.count('calculators_checked')
        mon.count('nthermo2_calculators', Nth == 2)
        kk = [pairs.key_of(s) for s in calc.kinetic.states]
        tk = [pairs.key_of(s) for s in calc.thermo.states]
        if not mon.check(set(kk) == kin and set(tk) == thermo and len(kk) == len(kin), 'C26:ranges',
                         lambda: 'thermo %d states (model %d), kinetic %d states (model %d) %s' % (len(tk), len(thermo), len(kk), len(kin), d2)):
            continue
        what = 'VacancyMediated(Nthermo=%d)' % Nth
        check_network(mon, pg, kk, calc.kinetic.index, (calc.om1_jn, calc.om1_jt, calc.om1_SP), want1, 1, what + '.om1_*', d2,
                      tags=['pruned'])
        check_network(mon, pg, kk, calc.kinetic.index, (calc.om2_jn, calc.om2_jt, calc.om2_SP), a2, 2, what + '.om2_*', d2,
                      tags=['pruned'])
        # exactly the outer-outer hops are absent
        listed = set((kk[IS], kk[FS]) for jl in calc.om1_jn for (IS, FS), dx in jl
                     if isinstance(IS, (int, np.integer)) and isinstance(FS, (int, np.integer)))
        absent = set(a1) - listed
        outer_outer = set(p for p in a1 if p[0] not in thermo and p[1] not in thermo)
        mon.check(absent == outer_outer, 'C26:pruned-exactly-outer',
                  lambda: '%d hops absent, %d outer-outer hops; absent but not outer-outer %s; outer-outer but present %s %s' % (
                      len(absent), len(outer_outer), sorted(absent - outer_outer)[:2], sorted(outer_outer - absent)[:2], d2))
        mon.count('outer_outer_hops', len(outer_outer))
        mon.count('calculators_with_pruning', bool(outer_outer))
        # omegalist(): first member and jump type of every class
        with mon.guard('C26:omegalist'):
            for which, jnw, jtw in ((1, calc.om1_jn, calc.om1_jt), (2, calc.om2_jn, calc.om2_jt)):
                ol, ojt = calc.omegalist(which)
                good = len(ol) == len(jnw) and list(ojt) == list(jtw)
                if good:
                    for (P1, P2), jl in zip(ol, jnw):
                        if pairs.key_of(P1) != kk[jl[0][0][0]] or pairs.key_of(P2) != kk[jl[0][0][1]]:
                            good = False
                            break
                mon.check(good, 'C26:omegalist', lambda: 'omegalist(%d) does not list the first transition / type of every class %s' % (which, d2))
        if len(calc.om1_jn) > 1:
            mon.sig([kind, pg.N, len(pg.group), Nth, len(calc.om1_jn), len(calc.om2_jn), True])
    return mon.result(sample=sample)
