"""C06: tracer limit - a solute identical to the host obeys the exact tracer identities.

Monitor on VacancyMediated.Lij fed through the package's own tracer data generator (maketracerpreene + preene2betafree)
with random vacancy site energies/prefactors per Wyckoff set and random omega0 rates per jump class:
Lsv = -L0vv, L1vv = 0 (integration accuracy with the real Green function; round-off with the torus Green function R3'
substituted), and 0 <= Lss <= L0vv as matrices. The chain value of Lss (R3) is compared as well.
"""
import numpy as np
from vmon import gen, work_vac
from vmon.util import Mon
from vmon.ref import torus as T

ID = 'C06'
RULE = ('named crystal pool (Bravais/multi-site, 2-D/3-D, one or several Wyckoff sets, with/without origin states, compounds with spectator species) x Nthermo in '
        '{1,2} x random vacancy prefactors [0.5,2] and energies N(0,sigma) per Wyckoff set and omega0 class (spread limited to 12 kT), kT in [0.5,2]; '
        'non-trivial = rates not all equal or more than one site; distinct = (crystal, Nthermo, input index)')
ASSUMPTIONS = ['real Green function: tolerance 1e-5 x |L0vv| (the property qualifies these identities by integration accuracy; '
               'observed <= 4e-7); a larger error is accepted only if it shrinks on denser k-meshes (NGFmax 8: not larger, 12: at most half) - '
               'seen on the 2-D displaced triangular lattice with anisotropic rates (1e-4)', 'torus Green function: 1e-9 x |L0vv| x max(1, rate spread / 100) (rounding of the linear solves grows with the condition number: 1.8e-8 observed at a spread of 7e4 on double hcp; 1e-4 for L1vv on crystals with origin states, see C01)',
               'matrix inequalities with margin 1e-6 x |L0vv|; a violation at the default k-point density is decided by the same mesh-convergence rule (2-D displaced triangular lattice, Nthermo=2, rate ratio 900: lambda_min(Lss)/|L0vv| = -0.46 (NGFmax 4), -0.07 (8), +0.02 (12))']
REQUIRED_OBS = {'eval:C06:real:Lsv=-L0vv': 20, 'eval:C06:real:L1vv=0': 20, 'eval:C06:stub:Lsv=-L0vv': 20,
                'eval:C06:0<=Lss<=L0vv': 20, 'multi_wyckoff': 3, 'dim2': 3, 'origin_states_with_spectators': 4}
CASE_TIMEOUT = 900
QUICK = [('fcc', 1), ('bcc', 1), ('hcp', 1), ('square', 1), ('honey', 1), ('omega', 1), ('diamond', 1), ('tria', 1),
         ('lieb', 1), ('dtria', 1), ('rumpled', 1), ('b2', 1), ('fcc', 2), ('honey', 2), ('sc', 1), ('kagome', 1),
         ('tric', 1), ('p4m', 1), ('p2', 1), ('mono2', 1), ('dhcp', 1), ('omega_perm', 1), ('rumpled_spec', 1), ('dtria_spec', 1)]
THOROUGH = QUICK + [('l12', 1), ('tet', 1), ('rect', 1), ('bcc', 2), ('sc', 2), ('hcp', 2), ('tria', 2), ('dtria', 2),
                    ('square', 2), ('lieb', 2), ('diamond', 2)]


def cases(tier, seed):
    pool = QUICK if tier == 'quick' else THOROUGH
    return [{'seed': seed, 'idx': ci * 10 + rep, 'name': n, 'Nthermo': t, 'ninputs': 4 if tier == 'quick' else 12,
             'hashseed': (ci + rep) % 3} for ci, (n, t) in enumerate(pool) for rep in range(1 if tier == 'quick' else 2)]


def tracer_args(rng, diff, sigma):
    nW, n0 = len(diff.sitelist), len(diff.om0_jn)
    kT = float(rng.uniform(0.5, 2.))
    preV, eneV = rng.uniform(0.5, 2, size=nW), rng.normal(size=nW) * sigma
    if np.ptp(eneV) > 12 * kT: eneV = eneV * (12 * kT / np.ptp(eneV))   # site-probability contrast at most e^12 (beyond that double precision decides, not the code)
    preT0 = rng.uniform(0.5, 2, size=n0)
    eT = rng.normal(size=n0) * sigma
    if np.ptp(eT) > 12 * kT: eT = eT * (12 * kT / np.ptp(eT))
    eneT0 = eT + eneV.max() + 1.
    d = {'preV': preV, 'eneV': eneV, 'preT0': preT0, 'eneT0': eneT0}
    d.update(diff.maketracerpreene(**d))
    return kT, d, list(diff.preene2betafree(kT, **d))


def run_case(case):
    mon = Mon()
    rng = gen.rng_for(case['seed'], case['idx'], 6)
    name, nth = case['name'], case['Nthermo']
    diff = work_vac.get_calc(name, nth)
    real = diff.GFcalc
    hist = work_vac.get_calc(name, nth, slot='history')   # never cleared between the inputs of a case (see C01)
    hist.clearcache()
    tor = T.Torus(diff, max(T.Torus.needed_L(diff), 5))
    sample = None
    for k in range(case['ninputs']):
        sigma = float(rng.choice([0.3, 1., 2.]))
        kT, d, args = tracer_args(rng, diff, sigma)
        tags = work_vac.regime_tags(diff, args)
        desc = {'crystal': name, 'Nthermo': nth, 'kT': kT, 'preV': d['preV'], 'eneV': d['eneV'], 'preT0': d['preT0'], 'eneT0': d['eneT0']}
        if sample is None: sample = desc
        mon.sig([name, nth, k])
        for t in ('multi_wyckoff', 'dim2', 'origin_states'): mon.count(t, t in tags)
        mon.count('origin_states_with_spectators', 'origin_states' in tags and diff.crys.N != diff.N)
        try:
            Lr = [np.array(x) for x in hist.Lij(*args)]
            mon.count('inputs_on_uncleared_calculator', k > 0)
            diff.GFcalc = real
            diff.clearcache()
            Lfresh = [np.array(x) for x in diff.Lij(*args)]
            if len(diff.OSindices) >= 2 and len(diff.sitelist) >= 2:
                Ls = Lfresh   # torus stand-in not usable (see C01): its clauses are skipped below
            else:
                diff.GFcalc = T.GFstub(real, tor, exact_eta=True)
                diff.clearcache()
                Ls = [np.array(x) for x in diff.Lij(*args)]
        except Exception as e:
            import traceback
            mon.fail('C06:Lij:raises:' + type(e).__name__, traceback.format_exc()[-800:] + str(desc), tags)
            continue
        finally:
            diff.GFcalc = real
            diff.clearcache()
        sc = max(np.abs(Lr[0]).max(), 1e-300)
        # the calculator that has seen the earlier inputs of this case against one whose caches were just cleared (otherwise a stale
        # entry would pass for integration error: the denser-mesh calculators below are fresh objects)
        for nm, a, b in zip(('L0vv', 'Lss', 'Lsv', 'L1vv'), Lr, Lfresh):
            mon.close(a, b, 1e-9, 'C06:real:same-as-cleared-calculator:' + nm, lambda: 'after %d earlier inputs on the same object: %s vs %s %s' % (k, a.tolist(), b.tolist(), desc),
                      tags, scale=max(np.abs(Lfresh[0]).max(), np.abs(b).max(), 1e-300))
        ev0 = np.linalg.eigvalsh(0.5 * (Lr[0] + Lr[0].T))
        if ev0.min() <= 0 or ev0.max() >= 50 * ev0.min():
            tags = tags + ['L0vv_anisotropy>=50']
        mon.count('L0vv_anisotropy>=50', 'L0vv_anisotropy>=50' in tags)
        # rounding of the linear solves grows with the spread of the rates
        spread = float(np.exp(np.ptp(args[3])))
        dt = lambda: str(desc)
        def ident_err(dd):
            L = dd.Lij(*args)
            return max(np.abs(L[2] + L[0]).max(), np.abs(L[3]).max()) / max(np.abs(L[0]).max(), 1e-300)
        m4 = max(np.abs(Lr[2] + Lr[0]).max(), np.abs(Lr[3]).max()) / sc
        if m4 > 1e-5:
            # the identities hold "to integration accuracy": decide by convergence with the k-point density
            ok, ms = work_vac.resolved_by_denser_mesh(name, nth, ident_err, m4)
            mon.count('identity_checked_by_mesh_convergence')
            mon.check(ok, 'C06:real:identities-converge', lambda: 'tracer identity error %.3e (NGFmax=4) -> %s (8, 12) %s' % (m4, ms, desc), tags)
        mon.close(Lr[2], -Lr[0], max(1e-5, 1.0001 * m4), 'C06:real:Lsv=-L0vv', dt, tags, scale=sc)
        mon.close(Lr[3], 0 * Lr[3], max(1e-5, 1.0001 * m4), 'C06:real:L1vv=0', dt, tags, scale=sc)
        stub_ok = not (len(diff.OSindices) >= 2 and len(diff.sitelist) >= 2)   # see C01: the torus stand-in is not usable there
        mon.count('stub_not_applicable', not stub_ok)
        if stub_ok: mon.close(Ls[2], -Ls[0], 1e-9 * max(1., spread / 100.), 'C06:stub:Lsv=-L0vv', dt, tags, scale=sc)
        if stub_ok: mon.close(Ls[3], 0 * Ls[3], 1e-9 * tor.M if 'origin_states' not in tags else 1e-4, 'C06:stub:L1vv=0', dt, tags, scale=sc)
        lo = np.linalg.eigvalsh(0.5 * (Lr[1] + Lr[1].T)).min()
        hi = np.linalg.eigvalsh(0.5 * ((Lr[0] - Lr[1]) + (Lr[0] - Lr[1]).T)).min()
        mon.note_min('margin_Lss', lo / sc)
        mon.note_min('margin_L0vv-Lss', hi / sc)
        okpsd = lo >= -1e-6 * sc and hi >= -1e-6 * sc
        if not okpsd:
            # same rule as for the identities: a violation of the bounds at the default k-point density is attributed to
            # integration accuracy iff it shrinks on denser meshes
            def psd_err(dd):
                L = [np.array(x) for x in dd.Lij(*args)]
                return max(0., -np.linalg.eigvalsh(0.5 * (L[1] + L[1].T)).min(),
                           -np.linalg.eigvalsh(0.5 * ((L[0] - L[1]) + (L[0] - L[1]).T)).min()) / max(np.abs(L[0]).max(), 1e-300)
            okpsd, ms = work_vac.resolved_by_denser_mesh(name, nth, psd_err, max(-lo, -hi) / sc)
            mon.count('bounds_checked_by_mesh_convergence')
        mon.check(okpsd, 'C06:0<=Lss<=L0vv',
                  lambda: 'lambda_min(Lss)=%.3e lambda_min(L0vv-Lss)=%.3e %s' % (lo, hi, desc), tags)
        # exact chain value of the tracer correlation
        L0c, Lssc, Lsvc, L1c = tor.predict(args)
        if stub_ok: mon.close(Ls[1], Lssc, 1e-9 * max(1., spread / 100.), 'C06:stub:Lss=chain', dt, tags, scale=sc)
        mon.close(Lsvc, -L0c, 1e-9, 'C06:chain-selfcheck', dt, [], scale=sc)
    hist.clearcache()
    return mon.result(sample=sample)
