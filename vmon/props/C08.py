"""C08: the two omega2 algorithms agree and stay finite for extreme rates.

Monitor on pairs Lij(..., large_om2=0) (forced large-exchange-rate algorithm) vs Lij(..., large_om2=inf) (forced standard
algorithm) for omega2 scalings 1e-3..1e6 where the standard one is numerically valid; and on the default selection for
scalings up to 1e16: finite, symmetric tensors whose successive differences shrink towards the large-rate limit.
Branch coverage is recorded with sys.monitoring LINE events on the two branches of Lij.
"""
import sys
import numpy as np
from vmon import gen, work_vac
from vmon.util import Mon

ID = 'C08'
RULE = ('crystal pool x random inputs (all groups randomised, sigma 0.3..1) x omega2 scaling 10^k, k=-3..16 (all omega2 barriers '
        'lowered by k ln10, and - when there are several exchange classes - the first class alone); forced algorithm pairs for k<=6, default selection for all k; at k in {0,5,9,11,13} also with every rate multiplied by 1e-9 and 1e5 (L0vv and Lss must scale exactly); non-trivial = scaling changes Lss by '
        '>1e-9 relative; distinct = (crystal, Nthermo, input, k)')
ASSUMPTIONS = ['agreement tolerance 1e-6 x scale for scalings <= 1e6 (observed 6e-8 FCC, 7e-10 HCP)',
               'smooth approach: for k >= 9 the step |L(10^(k+1)) - L(10^k)| must not exceed max(3 x previous step, 1e-6 x scale), and '
               'every tensor stays finite and symmetric (1e-6 x scale)',
               'the standard algorithm is taken as numerically valid while max|G.om2| < 1e8 (the package default threshold)']
REQUIRED_OBS = {'eval:C08:rate-scale:Lss': 60, 'eval:C08:algorithms-agree:Lss': 40, 'eval:C08:finite': 100, 'eval:C08:smooth-limit': 40,
                'large_branch_lines': 1, 'small_branch_lines': 1}
CASE_TIMEOUT = 900
QUICK = [('fcc', 1), ('bcc', 1), ('hcp', 1), ('square', 1), ('honey', 1), ('omega', 1), ('tria', 1), ('lieb', 1), ('diamond', 1),
         ('sc', 1), ('fcc', 2), ('b2', 1), ('tric', 1), ('mono', 1), ('p4m', 1), ('p2', 1), ('mono2', 1), ('dtria', 1)]
THOROUGH = QUICK + [('rumpled', 1), ('kagome', 1), ('l12', 1), ('tet', 1), ('rect', 1), ('bcc', 2), ('square', 2),
                    ('honey', 2), ('hcp', 2)]


def cases(tier, seed):
    pool = QUICK if tier == 'quick' else THOROUGH
    return [{'seed': seed, 'idx': ci * 10 + rep, 'name': n, 'Nthermo': t, 'ninputs': 2 if tier == 'quick' else 6,
             'hashseed': (ci + rep) % 3} for ci, (n, t) in enumerate(pool) for rep in range(1 if tier == 'quick' else 2)]


from vmon.trace import BranchProbe


def run_case(case):
    mon = Mon()
    rng = gen.rng_for(case['seed'], case['idx'], 8)
    name, nth = case['name'], case['Nthermo']
    diff = work_vac.get_calc(name, nth)
    sample = None
    func = type(diff).Lij
    func = getattr(func, '__wrapped__', func)
    with BranchProbe(func) as probe:
        for k in range(case['ninputs']):
            sigma = float(rng.choice([0.3, 0.7, 1.]))
            base = work_vac.rand_args(rng, diff, 'VSB012', sigma)
            tags0 = work_vac.regime_tags(diff, base)
            desc = {'crystal': name, 'Nthermo': nth, 'args': base}
            if sample is None: sample = desc
            # split: only the first exchange class is scaled, the others keep ordinary rates (two exchange rates that differ by
            # many orders of magnitude inside the large-rate algorithm)
            for split in ((False, True) if len(base[5]) > 1 else (False,)):
                prev, prevstep, L0scale = None, None, None
                for kk in range(-3, 17):
                    args = [x.copy() for x in base]
                    if split: args[5][0] = args[5][0] - kk * np.log(10.)
                    else: args[5] = args[5] - kk * np.log(10.)
                    tags = work_vac.regime_tags(diff, args) + [t for t, k0 in (('om2_scaling>=1e4', 4), ('om2_scaling>=1e6', 6), ('om2_scaling>=1e8', 8), ('om2_scaling>=1e9', 9)) if kk >= k0] + (['om2_split'] if split else [])
                    try:
                        Ld = [np.array(x) for x in diff.Lij(*args)]
                        pair = None
                        if kk <= 6:
                            pair = ([np.array(x) for x in diff.Lij(*args, large_om2=0.)],
                                    [np.array(x) for x in diff.Lij(*args, large_om2=np.inf)])
                    except Exception as e:
                        import traceback
                        mon.fail('C08:Lij:raises:' + type(e).__name__, 'scaling 1e%d %s %s' % (kk, traceback.format_exc()[-500:], desc), tags)
                        continue
                    sc = max(np.abs(Ld[0]).max(), np.abs(Ld[1]).max(), 1e-300) if L0scale is None else L0scale
                    if L0scale is None: L0scale = sc
                    dt = lambda: 'scaling 1e%d%s %s' % (kk, ' (first exchange class only)' if split else '', desc)
                    fin = all(np.all(np.isfinite(x)) for x in Ld)
                    mon.check(fin, 'C08:finite', dt, tags)
                    if not fin: continue
                    for nm, x in zip(('L0vv', 'Lss', 'L1vv'), (Ld[0], Ld[1], Ld[3])):
                        mon.close(x, x.T, 1e-6, 'C08:symmetric:' + nm, dt, tags, scale=max(sc, np.abs(x).max()))
                    if pair is not None:
                        for nm, a, b in zip(('L0vv', 'Lss', 'Lsv', 'L1vv'), pair[0], pair[1]):
                            mon.close(a, b, 1e-6, 'C08:algorithms-agree:' + nm, dt, tags, scale=max(sc, np.abs(b).max()))
                        for nm, a, b in zip(('L0vv', 'Lss', 'Lsv', 'L1vv'), Ld, pair[1]):
                            mon.close(a, b, 1e-6, 'C08:default=standard:' + nm, dt, tags, scale=max(sc, np.abs(b).max()))
                    # the same input with every rate multiplied by a common factor (low-temperature data: rates of 1e-9, or 1e5): the choice
                    # of algorithm and the result must follow the rate RATIOS, so L scales with the factor exactly
                    if kk in (0, 5, 9, 11, 13) and not split and not ('multi_wyckoff' in tags and kk >= 4) \
                            and not ('origin_states' in tags and 'rate_spread>=1e3' in tags):
                        for lnf in (np.log(1e-9), np.log(1e5)):
                            a2 = [x.copy() for x in args]
                            for q in (3, 4, 5): a2[q] = a2[q] - lnf
                            try:
                                Lf = [np.array(x) for x in diff.Lij(*a2)]
                            except Exception as e:
                                mon.fail('C08:rate-scale:raises:' + type(e).__name__, 'rates x %.0e, scaling 1e%d %s' % (np.exp(lnf), kk, desc), tags)
                                continue
                            for nm, a, b in zip(('L0vv', 'Lss'), (Lf[0], Lf[1]), (Ld[0], Ld[1])):
                                mon.close(a * np.exp(-lnf), b, 1e-6, 'C08:rate-scale:' + nm,
                                          lambda: 'all rates x %.0e at exchange scaling 1e%d: %s/factor = %s, unscaled %s %s' % (
                                              np.exp(lnf), kk, nm, (a * np.exp(-lnf)).tolist(), b.tolist(), desc), tags, scale=max(sc, np.abs(b).max()))
                    if prev is not None:
                        steps = [np.abs(a - b).max() for a, b in zip(Ld[1:], prev[1:])]
                        if kk >= 9 and prevstep is not None:
                            for nm, st, pst, x in zip(('Lss', 'Lsv', 'L1vv'), steps, prevstep, Ld[1:]):
                                mon.check(st <= max(3 * pst, 1e-6 * max(sc, np.abs(x).max())), 'C08:smooth-limit:' + nm,
                                          lambda: 'step %.3e after %.3e at scaling 1e%d (scale %.3e) %s=%s %s' % (st, pst, kk, sc, nm, x.tolist(), desc), tags)
                                mon.count('eval:C08:smooth-limit')
                        if max(steps) > 1e-9 * sc: mon.sig([name, nth, k, kk, split])
                        prevstep = steps
                    prev = Ld
    mon.count('large_branch_lines', probe.hits['large'])
    mon.count('small_branch_lines', probe.hits['small'])
    diff.clearcache()
    return mon.result(sample=sample)
