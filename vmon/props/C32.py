"""C32: all cluster-expansion evaluators agree on every configuration.

Monitors: for a ClusterSupercell (mobile + spectator sublattices, with or without a fixed vacancy), a
cluster expansion from cluster.makeclusters (+ makeVacancyClusters) and random values, the four evaluators
of the repository - evalcluster(...).values, the index matrices of expandcluster_matrices, the
interaction lists of clusterevaluator (and the energy part of the lists after jumpnetworkevaluator[_vacancy],
read from the sampler) and MonteCarloSampler.start/E - are compared with the brute-force sum R9
(vmon.ref.clusterE: clusters x lattice translations, every site located by its position in the supercell).
Exhaustive over all occupations of small supercells, random occupations on larger ones.  Besides the roomy
supercells (shortest supercell vector > cut-off) a fixed share of the cases uses thin supercells, in which a
cluster contains a site and its own periodic image and the image of the fixed vacancy lies within the range
of the vacancy clusters.
"""
import itertools
import numpy as np
from vmon import gen
from vmon.util import Mon
from vmon.ref import clusters as rc
from vmon.ref import clusterE

ID = 'C32'
RULE = ('3-D crystal (named or random, 1-3 species, <= 5 atoms) x random spectator species set (possibly empty, at least one '
        'mobile species) x cluster expansion makeclusters(safe cut-off, order 1..4, optionally excluding spectator species, '
        'random sets dropped) x random integer supercell matrix (diagonal or not, either handedness) whose shortest lattice '
        'vector exceeds the cut-off x random spectator occupation x random values (with/without constant term) x optional '
        'vacancy on a random mobile site (+ vacancy clusters) x optional jump network with KRA values and TS clusters; '
        'small mode: n mobile sites <= 10 (quick) / 14 (thorough), ALL 2^n (2^(n-1) with vacancy) occupations; large mode: '
        'n <= 60, random occupations of random filling + empty + full. THIN cases (16 extra on the quick tier, 400 on the thorough '
        'tier; flags spec/vac/jn fixed by the case index, vacancy in 60%): supercells with a lattice vector shorter than the cut-off - '
        'half from a fixed menu (fcc nn clusters in 1x2x3 / 1x1x4 / 2x2x1 / 1x3x3 / 1x5x6 / a non-diagonal thin cell, fcc 2x2x2 with pairs to '
        'the 4th neighbour, hcp 1x1x2 / 2x1x2, B2 1x2x2 / 2x1x3 / 1x4x5 and 2x2x2 with cut-off 2.01, rocksalt, L12, sc, bcc, diamond; spectator '
        'set drawn at random), half random: crystal and cut-off as above (order >= 2, at least two neighbour shells tried) x random '
        'integer supercell matrix with a 1 on the diagonal (diagonal / triangular / full) whose shortest lattice vector is shorter than '
        'the cut-off (brute force); size decides between the exhaustive and the random-occupation mode. non-trivial = expansion has '
        'clusters of order >= 2 with instances on mobile sites; distinct = (kind, spectators, supercell matrix, order, vacancy, '
        'number of sets)')
ASSUMPTIONS = ['R9 is trusted: positions of cluster sites are wrapped into the supercell and matched (1e-6) against '
               'sup.mobilepos / sup.specpos, which define the meaning of the occupation vectors',
               'meaning of the brute-force sum, for every supercell: one instance per (cluster, lattice translation modulo the '
               'supercell) (vacancy clusters: the one translation that seats the cluster on the fixed vacancy), each of its sites '
               'mapped into the supercell by its position, the instance is on iff all mapped sites are occupied; the vacancy site is '
               'never occupied. In thin supercells a site may be hit twice by one instance (it just has to be occupied) and a vacancy '
               'cluster may reach the image of its own vacancy (never on). On the unchanged repository all four evaluators agree with '
               'this reading in every thin cell tried (probe: exhaustive over all occupations, with and without vacancy / spectators)',
               'regular cases: no cluster wraps onto itself - every pair of cluster sites is closer than the cut-off, and the generator '
               'only accepts supercells whose shortest non-zero lattice vector is longer than 1.000001 x cut-off (checked by brute '
               'force, clause selfwrap-bound); thin cases: the shortest supercell vector is shorter than the cut-off (same brute force), '
               'and the census of self-wrapping instances / vacancy images comes from the reference model R9 (positions only); '
               'different translates of one cluster may share their site set in both regimes (handled by all evaluators)',
               'ClusterSupercell is three-dimensional by construction (maketrans enumerates 3-vectors): 2-D crystals are not used',
               'cluster counts are compared exactly; energies with tolerance 1e-9 x (1 + sum_k |value_k| x instances_k)',
               'with a vacancy the mobile occupation handed to evalcluster holds 0 or -1 at the vacancy and the one handed to the '
               'sampler holds -1, as the repository requires',
               'evalcluster is a slow python loop: it is evaluated on every configuration only while configurations x site '
               'look-ups <= 4e5 (quick) / 4e6 (thorough), otherwise on a random subset of at least 24 configurations; the other '
               'three evaluators always see every configuration of the small mode']
REQUIRED_OBS = {'supercells_checked': 20, 'exhaustive_supercells': 8, 'configs_checked': 2000, 'vacancy_supercells': 4,
                'spectator_supercells': 5, 'jumpnetwork_samplers': 4, 'nondiagonal_supercells': 6, 'nontrivial_supercells': 12,
                'eval:C32:evalcluster-counts': 300, 'eval:C32:evalcluster-energy': 300, 'eval:C32:matrices-counts': 20,
                'eval:C32:interaction-list-energy': 20, 'eval:C32:sampler-energy': 300, 'eval:C32:sampler-list-energy': 20,
                'eval:C32:selfwrap-bound': 20,
                # thin (self-wrapping) regime
                'thin_supercells': 10, 'thin_exhaustive_supercells': 5, 'thin_vacancy_supercells': 4, 'thin_spectator_supercells': 2,
                'thin_random_supercells': 3, 'thin_menu_supercells': 3, 'self_wrapping_instances': 60, 'self_wrapping_instances_on': 500,
                'vacancy_image_in_range': 8, 'vacancy_image_rest_occupied': 30, 'thin_jumpnetwork_samplers': 2}
CASE_TIMEOUT = 600
CHUNK = 4
COORD_LIMIT = {1: 10 ** 6, 2: 30, 3: 14, 4: 9}
MULTI3 = ('b2', 'l12', 'rocksalt')
NAMES3 = ('sc', 'fcc', 'bcc', 'diamond', 'hcp', 'omega', 'rumpled', 'b2', 'l12', 'tet', 'rocksalt')
# thin supercells: (crystal, supercell matrix, cut-off, largest order); every one has a supercell vector shorter than the cut-off
THIN_MENU = [('fcc', [1, 2, 3], 0.8, 3), ('fcc', [1, 1, 4], 0.8, 4), ('fcc', [2, 2, 1], 0.8, 3), ('fcc', [1, 3, 3], 0.8, 3),
             ('fcc', [2, 2, 2], 1.5, 2), ('fcc', [[1, 1, 0], [0, 2, 1], [0, 0, 2]], 0.8, 3), ('fcc', [1, 5, 6], 0.8, 3),
             ('hcp', [1, 1, 2], 1.01, 3), ('hcp', [2, 1, 2], 1.01, 3),
             ('b2', [1, 2, 2], 1.01, 3), ('b2', [2, 1, 3], 1.01, 3), ('b2', [2, 2, 2], 2.01, 2), ('b2', [1, 4, 5], 1.01, 3),
             ('b2', [[1, 0, 0], [0, 2, 1], [0, 0, 3]], 1.01, 3), ('rocksalt', [1, 2, 3], 0.75, 3), ('l12', [1, 1, 2], 1.01, 2),
             ('sc', [1, 2, 3], 1.01, 3), ('bcc', [1, 2, 3], 0.87, 3), ('diamond', [1, 2, 2], 0.75, 3)]
THIN_MULTI = [m for m in THIN_MENU if m[0] in MULTI3]


def cases(tier, seed):
    global CHUNK
    n = 40 if tier == 'quick' else 1600
    nthin = 16 if tier == 'quick' else 400
    CHUNK = 4 if tier == 'quick' else 8
    # feature slices are fixed by the case index so that every run sees every regime
    out = [{'seed': seed, 'idx': i, 'hashseed': i % 4 if tier == 'quick' else i % 7, 'tier': tier, 'mode': 'large' if i % 4 == 3 else 'small',
            'spec': i % 3 == 1, 'vac': i % 5 in (0, 3), 'jn': i % 2 == 0} for i in range(n)]
    # thin (self-wrapping) supercells; the regular cases above keep their indices and random streams
    out += [{'seed': seed, 'idx': 100000 + i, 'hashseed': i % 4 if tier == 'quick' else i % 7, 'tier': tier, 'thin': True,
             'mode': 'large' if i % 8 == 7 else 'small', 'menu': i % 2 == 0, 'spec': i % 3 == 1, 'vac': i % 5 in (0, 1, 3), 'jn': i % 4 in (0, 3)}
            for i in range(nthin)]
    return out


def named3(name):
    from onsager import crystal
    if name == 'rocksalt':
        return crystal.Crystal(np.array([[0., .5, .5], [.5, 0., .5], [.5, .5, 0.]]), [[np.zeros(3)], [0.5 * np.ones(3)]])
    return gen.named(name)[0]


def rand_supercell(rng, crys, spectator, cutoff, nmob, nlo, nhi, tries=400, thin=False):
    """integer matrix with nlo <= |det| * nmob <= nhi and shortest supercell vector > cutoff
    (thin: < cutoff, i.e. clusters meet their own periodic image)"""
    from onsager import supercell
    dim = crys.dim
    for t in range(tries):
        r = rng.uniform()
        if r < 0.25 or (thin and r < 0.4):
            S = np.diag(rng.integers(1, 5 if not thin else 7, size=dim))
        elif r < 0.5 or (thin and r < 0.8):  # lower-triangular (Hermite-like) with random off-diagonal entries
            S = np.diag(rng.integers(1, 4 if not thin else 5, size=dim))
            for a in range(dim):
                for b in range(a):
                    S[a, b] = rng.integers(-2, 3)
            if rng.uniform() < 0.5: S = S.T
        else:
            S = rng.integers(-2, 4, size=(dim, dim))
        if thin and r < 0.8:
            S[int(rng.integers(dim)), int(rng.integers(dim))] = 1  # encourage a short period
            d = int(rng.integers(dim))
            if rng.uniform() < 0.7: S[d, d] = 1
        det = int(round(np.linalg.det(S)))
        n = abs(det) * nmob
        if det == 0 or n < nlo or n > nhi: continue
        L = crys.lattice @ S
        # cheap necessary test before the brute-force one
        if not thin and min(np.linalg.norm(L[:, d]) for d in range(dim)) <= cutoff * 1.000001: continue
        try:
            sup = supercell.ClusterSupercell(crys, S.astype(int), spectator=spectator)
        except Exception:
            continue  # supercell construction is not the subject here (C28)
        vmin = clusterE.min_supercell_vector(sup)
        if thin:
            if vmin >= cutoff * 0.999999: continue
        elif vmin <= cutoff * 1.000001: continue
        return S.astype(int), sup
    return None, None


def list_energies(siteinteract, ninteract, values, nenergy, occs):
    """energy of every configuration (rows of occs) from interaction lists: interaction m (< nenergy-1) is on iff
    every site that lists it is occupied; entry nenergy-1 is the constant"""
    members = [[] for _ in range(nenergy)]
    for n, lst in enumerate(siteinteract):
        k = len(lst) if ninteract is None else int(ninteract[n])
        for m in list(lst)[:k]:
            m = int(m)
            if 0 <= m < nenergy: members[m].append(n)
    E = np.zeros(len(occs))
    for m in range(nenergy):
        if members[m]:
            E += float(values[m]) * np.all(occs[:, members[m]] == 1, axis=1)
        else:
            E += float(values[m])  # no mobile site: constant (the last entry; spectator-only terms are folded into it)
    return E, members


def matrices_counts(mats, occs, nsets):
    """counts for every configuration from the index matrices: a row counts iff all its entries are occupied"""
    out = np.zeros((len(occs), nsets), dtype=np.int64)
    for k, lst in enumerate(mats):
        for M in lst:
            M = np.asarray(M)
            if M.ndim == 1:
                if M.size: raise ValueError('index matrix of shape %s' % (M.shape,))
                continue  # no active instance
            if M.shape[1] == 0:
                out[:, k] += M.shape[0]  # spectator-only instances
            else:
                out[:, k] += np.all(occs[:, M.astype(int)] == 1, axis=2).sum(axis=1)
    return out


def run_case(case):
    from onsager import cluster, supercell
    mon = Mon()
    rng = gen.rng_for(case['seed'], case['idx'], 32)
    tier = case.get('tier', 'quick')
    small = case.get('mode') == 'small'
    nexh = 10 if tier == 'quick' else 14
    budget = 4e5 if tier == 'quick' else 4e6
    thin = bool(case.get('thin'))
    frommenu = thin and bool(case.get('menu'))
    # ---------------- crystal, sublattices, clusters ----------------
    for attempt in range(60 if thin else 30):
        wantspec = bool(case.get('spec'))
        if frommenu:
            pool = THIN_MULTI if wantspec else THIN_MENU
            kind, Sm, mcut, mord = pool[int(rng.integers(len(pool)))]
            crys = named3(kind)
        elif rng.uniform() < 0.45:
            names = MULTI3 if wantspec else NAMES3
            kind = names[int(rng.integers(len(names)))]
            crys = named3(kind)
        else:
            crys, spec = gen.rand_crystal(rng, dim=3, nchem=int(rng.integers(2, 4)) if wantspec else int(rng.integers(1, 4)),
                                          norbits=int(rng.integers(2, 4)) if wantspec else None, maxatoms=5 if not small else 4)
            kind = spec['kind']
        if wantspec and crys.Nchem < 2: continue
        nspec = int(rng.integers(1 if wantspec else 0, crys.Nchem))  # at least one mobile species
        spectator = sorted(int(x) for x in rng.choice(crys.Nchem, size=nspec, replace=False))
        mobile = [c for c in range(crys.Nchem) if c not in spectator]
        nmob = sum(len(crys.basis[c]) for c in mobile)
        if small and nmob > nexh // 2 and not frommenu: continue
        exclude = [c for c in spectator if rng.uniform() < 0.25]
        allowed = set(c for c in range(crys.Nchem) if c not in exclude)
        geo = rc.Geometry(crys)
        if frommenu:
            order, cutoff = int(rng.integers(2, mord + 1)), float(mcut)
            S = np.array(Sm, dtype=int)
            if S.ndim == 1: S = np.diag(S)
            if rng.uniform() < 0.25: S[:, int(rng.integers(3))] *= -1  # other handedness, same lattice
            if abs(int(round(np.linalg.det(S)))) * nmob > 60: continue
            sup = supercell.ClusterSupercell(crys, S, spectator=spectator)
            small = sup.Nmobile * sup.size <= nexh
            break
        if thin:
            order = int(rng.choice([2, 2, 3, 3, 3, 4]))
            cutoff = rc.choose_cutoff(geo, allowed, order, rng, COORD_LIMIT, kmin=2)
            S, sup = rand_supercell(rng, crys, spectator, cutoff, nmob, 2, nexh, thin=True) if small else \
                rand_supercell(rng, crys, spectator, cutoff, nmob, nexh + 1, 60, thin=True)
            if sup is not None: break
            continue
        order = int(rng.choice([1, 2, 2, 3, 3, 3, 4]))
        cutoff = rc.choose_cutoff(geo, allowed, order, rng, COORD_LIMIT)
        if small:
            S, sup = rand_supercell(rng, crys, spectator, cutoff, nmob, 4, nexh)
        else:
            S, sup = rand_supercell(rng, crys, spectator, cutoff, nmob, nexh + 1, 60)
        if sup is not None: break
    else:
        return mon.result(sample=None, nontrivial=False, inconclusive=None)
    desc = {'kind': kind, 'lattice': crys.lattice, 'basis': crys.basis, 'spectator': spectator, 'exclude': exclude, 'cutoff': cutoff,
            'order': order, 'superlatt': S, 'hashseed': case.get('hashseed'), 'thin': thin}
    sdesc = str({k: (np.asarray(v).tolist() if k in ('lattice', 'superlatt') else
                     ([[np.asarray(u).tolist() for u in l] for l in v] if k == 'basis' else v)) for k, v in desc.items()})
    minvec = clusterE.min_supercell_vector(sup)
    if thin:
        if not minvec < cutoff:
            return mon.result(sample=None, nontrivial=False, inconclusive='generator: thin supercell has no vector below the cut-off')
    else:
        mon.check(minvec > cutoff, 'C32:selfwrap-bound', 'generator: shortest supercell vector %g <= cutoff %g' % (minvec, cutoff))
    clusterexp = cluster.makeclusters(crys, cutoff, order, exclude=exclude)
    # pair distances of all generated clusters stay below the cut-off (the self-wrap bound relies on it)
    dmax = 0.
    for s in clusterexp:
        cl = next(iter(s))
        xs = [geo.cart(rc.site(cs.ci[0], cs.ci[1], cs.R)) for cs in cl.sites]
        for a, b in itertools.combinations(xs, 2): dmax = max(dmax, float(np.linalg.norm(a - b)))
    if not thin:
        mon.check(dmax < cutoff, 'C32:selfwrap-bound', 'cluster diameter %g >= cutoff %g' % (dmax, cutoff))
    nmobile = sup.Nmobile * sup.size
    # vacancy
    vac = None
    vchem = None
    if case.get('vac', rng.uniform() < 0.4) and nmobile >= 2:
        vac = int(rng.integers(nmobile))
        sup.addvacancy(vac)
        vci = sup.mobileindices[vac % sup.Nmobile]
        vchem = vci[0]
    usejn = bool(case.get('jn', rng.uniform() < 0.45))
    chem = None
    if usejn:
        chem = vchem if vac is not None else mobile[int(rng.integers(len(mobile)))]
    # drop some sets (never the single-site ones: the jump network evaluators index them)
    keep = [s for s in clusterexp if len(next(iter(s)).sites) == 1 or rng.uniform() < 0.85]
    clusterexp = keep
    nplain = len(clusterexp)
    if vac is not None:
        vsrc = vchem if (usejn or rng.uniform() < 0.85) else mobile[int(rng.integers(len(mobile)))]
        with mon.guard('C32:makeVacancyClusters'):
            clusterexp = clusterexp + cluster.makeVacancyClusters(crys, vsrc, clusterexp)
        desc['vacancy'] = vac
        desc['vacancy_cluster_species'] = vsrc
    const = rng.uniform() < 0.5
    values = rng.normal(size=len(clusterexp) + (1 if const else 0))
    if rng.uniform() < 0.2 and len(values) > 2:
        values[int(rng.integers(len(values)))] = 0.
    socc = rng.integers(0, 2, size=sup.Nspec * sup.size)
    if sup.Nspec and rng.uniform() < 0.15: socc[:] = 1
    # ---------------- reference ----------------
    ref = clusterE.BruteEnergy(sup, clusterexp, socc)
    ninst = [len(i) + c for i, c in zip(ref.instances, ref.nconst)]
    scale = 1. + float(np.sum(np.abs(values[:len(clusterexp)]) * np.array(ninst))) + (abs(values[-1]) * sup.size if const else 0.)
    nontrivial = any(len(next(iter(s)).sites) >= 2 and len(ref.instances[k]) > 0 for k, s in enumerate(clusterexp))
    mon.count('supercells_checked')
    mon.count('nontrivial_supercells', nontrivial)
    mon.count('vacancy_supercells', vac is not None)
    mon.count('spectator_supercells', sup.Nspec > 0)
    mon.count('nondiagonal_supercells', bool(np.any(S - np.diag(np.diag(S)))))
    mon.count('lefthanded_supercells', np.linalg.det(S) < 0)
    mon.count('constant_term', const)
    mon.note_max('mobile_sites', nmobile)
    mon.note_max('cluster_sets', len(clusterexp))
    mon.seen('orders', order)
    mon.seen('sizes', int(sup.size))
    nwrap = sum(int(np.sum(f)) for f in ref.selfwrap)
    mon.count('regular_supercells_with_self_wrapping', (not thin) and nwrap > 0)   # must stay 0: the regular generator excludes them
    if thin:
        mon.count('thin_supercells')
        mon.count('thin_menu_supercells', frommenu)
        mon.count('thin_random_supercells', not frommenu)
        mon.count('thin_exhaustive_supercells', small)
        mon.count('thin_vacancy_supercells', vac is not None)
        mon.count('thin_spectator_supercells', sup.Nspec > 0)
        mon.count('thin_nondiagonal_supercells', bool(np.any(S - np.diag(np.diag(S)))))
        mon.count('thin_supercells_with_self_wrapping', nwrap > 0)
        mon.count('self_wrapping_instances', nwrap)
        mon.count('self_wrapping_constant_instances', ref.nselfwrap_const)
        mon.count('vacancy_image_in_range', len(ref.vacimage))
        mon.count('thin_supercells_with_vacancy_image', len(ref.vacimage) > 0)
        mon.seen('thin_cells', '%s %s' % (kind, S.tolist()))
        mon.note_min('thin_minvec_over_cutoff', minvec / cutoff)
    if nontrivial:
        mon.sig([kind, spectator, S.tolist(), order, vac is not None, len(clusterexp)])
    # ---------------- configurations ----------------
    if small:
        occs, counts = ref.all_counts()
        mon.count('exhaustive_supercells')
    else:
        nconf = 24 if tier == 'quick' else 60
        occs = np.zeros((nconf, nmobile), dtype=np.int8)
        for r in range(nconf):
            p = (0., 1.)[r] if r < 2 else rng.uniform(0.3, 0.97)
            occs[r] = rng.uniform(size=nmobile) < p
        if vac is not None: occs[:, vac] = 0
        counts = np.array([ref.counts(o) for o in occs])
    mon.count('configs_checked', len(occs))
    if thin:
        # the self-wrapping instances must actually be switched on / off by the configurations, and the dropped
        # vacancy-image placements must see their remaining sites occupied (where a wrong reading would count them)
        non = 0
        for inst, flags in zip(ref.instances, ref.selfwrap):
            for mob, f in zip(inst, flags):
                if f: non += int(np.all(occs[:, sorted(set(mob))] == 1, axis=1).sum())
        mon.count('self_wrapping_instances_on', non)
        mon.count('vacancy_image_rest_occupied',
                  sum(int(np.all(occs[:, list(rest)] == 1, axis=1).sum()) if rest else len(occs) for _, rest in ref.vacimage))
    vals_full = values if const else np.append(values, 0.)
    Eref = counts @ vals_full
    mon.note_max('energy_scale', scale)
    # (1) index matrices
    mats = None
    with mon.guard('C32:expandcluster_matrices'):
        mats = sup.expandcluster_matrices(socc, clusterexp)
    if mats is not None:
        try:
            mc = matrices_counts(mats, occs, len(clusterexp))
            bad = np.argwhere(mc != counts[:, :-1])
            mon.check(len(bad) == 0, 'C32:matrices-counts',
                      lambda: '%d (configuration, set) counts differ; first: occupation %s set %d matrices %d brute force %d %s'
                              % (len(bad), occs[bad[0][0]].tolist(), bad[0][1], mc[bad[0][0], bad[0][1]], counts[bad[0][0], bad[0][1]], sdesc))
        except Exception as e:
            mon.check(False, 'C32:matrices-counts', 'index matrices unusable: %s %s %s' % (type(e).__name__, e, sdesc))
    # (2) interaction lists
    si = iv = None
    with mon.guard('C32:clusterevaluator'):
        si, iv = sup.clusterevaluator(socc, clusterexp, values)
    if si is not None:
        El, members = list_energies(si, None, iv, len(iv), occs)
        k = int(np.argmax(np.abs(El - Eref)))
        mon.close(El, Eref, 1e-9, 'C32:interaction-list-energy',
                  lambda: 'occupation %s list %r brute force %r %s' % (occs[k].tolist(), El[k], Eref[k], sdesc), scale=scale)
        if vac is not None:
            mon.check(len(si[vac]) == 0, 'C32:vacancy-has-no-interaction', 'site %d lists %s %s' % (vac, si[vac], sdesc))
    # (3) sampler (without and, if drawn, with jump network: the energy part must be the same)
    samplers = []
    with mon.guard('C32:MonteCarloSampler'):
        samplers.append(('plain', cluster.MonteCarloSampler(sup, socc.copy(), clusterexp, values)))
    if usejn:
        jcut = cutoff
        jd = geo.pair_distances({chem}, jcut + 0.1)
        jn = crys.jumpnetwork(chem, jcut) if rc.safe(jd, jcut) else []
        if len(jn) > 0:
            ts = cluster.makeTSclusters(crys, chem, jn, clusterexp[nplain:] if vac is not None else clusterexp)
            with mon.guard('C32:MonteCarloSampler(jumpnetwork)'):
                samplers.append(('jumpnetwork', cluster.MonteCarloSampler(sup, socc.copy(), clusterexp, values, chem, jn,
                                                                          KRAvalues=rng.normal(size=len(jn)), TSclusters=ts,
                                                                          TSvalues=rng.normal(size=len(ts)))))
                mon.count('jumpnetwork_samplers')
                mon.count('thin_jumpnetwork_samplers', thin)
    for name, MC in samplers:
        Es = np.zeros(len(occs))
        ok = True
        for r, o in enumerate(occs):
            occ = o.astype(int)
            if vac is not None: occ[vac] = -1
            with mon.guard('C32:sampler-start-E'):
                MC.start(occ)
                Es[r] = MC.E()
                continue
            ok = False
            break
        if not ok: continue
        k = int(np.argmax(np.abs(Es - Eref)))
        mon.close(Es, Eref, 1e-9, 'C32:sampler-energy',
                  lambda: '%s sampler: occupation %s E() %r brute force %r %s' % (name, occs[k].tolist(), Es[k], Eref[k], sdesc), scale=scale)
        # the same configuration reached through update(): a request that changes nothing (occupy occupied sites, empty empty ones), then
        # a move to the next configuration of the list
        with mon.guard('C32:sampler-update-E'):
            occl = [o.astype(int) for o in occs]
            for r in range(min(len(occl) - 1, 6)):
                a, b = occl[r].copy(), occl[r + 1].copy()
                if vac is not None: a[vac] = -1
                MC.start(a)
                mob = [i for i in range(len(b)) if vac is None or i != vac]
                on = [i for i in mob if occl[r][i] == 1]
                off = [i for i in mob if occl[r][i] == 0]
                MC.update(on[:2], off[:2])   # no-op request
                E0 = MC.E()
                MC.update([i for i in mob if occl[r][i] == 0 and b[i] == 1], [i for i in mob if occl[r][i] == 1 and b[i] == 0])
                E1 = MC.E()
                mon.close(np.array([E0, E1]), np.array([Eref[r], Eref[r + 1]]), 1e-9, 'C32:sampler-energy-after-update',
                          lambda: '%s sampler: E() after a no-op update %r (brute force %r), after moving to the next configuration %r (brute force %r) %s'
                                  % (name, E0, Eref[r], E1, Eref[r + 1], sdesc), scale=scale)
        mon.count('eval:C32:sampler-energy', len(occs) - 1)
        # the lists the sampler holds (after the jump-network evaluator appended to them)
        with mon.guard('C32:sampler-lists'):
            sil = np.asarray(MC.siteinteract)
            if sil.ndim == 2:
                El2, _ = list_energies(sil, MC.Ninteract, MC.interactvalue, MC.Nenergy, occs)
                k2 = int(np.argmax(np.abs(El2 - Eref)))
                mon.close(El2, Eref, 1e-9, 'C32:sampler-list-energy',
                          lambda: '%s sampler lists: occupation %s %r brute force %r %s' % (name, occs[k2].tolist(), El2[k2], Eref[k2], sdesc),
                          scale=scale)
    # (4) evalcluster: python loop per configuration
    lookups = sum(len(s) * len(next(iter(s)).sites) for s in clusterexp) * sup.size
    nall = len(occs)
    if nall * lookups <= budget:
        pick = np.arange(nall)
        mon.count('evalcluster_exhaustive', small)
    else:
        npick = int(max(24, min(nall, budget // max(lookups, 1))))
        pick = np.unique(np.concatenate([[0, nall - 1], rng.choice(nall, size=min(npick, nall), replace=False)]))
    for r in pick:
        mocc = occs[r].astype(int)
        if vac is not None and rng.uniform() < 0.5: mocc[vac] = -1
        cnt = None
        with mon.guard('C32:evalcluster'):
            cnt = np.asarray(sup.evalcluster(mocc, socc, clusterexp))
        if cnt is None: break
        good = mon.check(cnt.shape == counts[r].shape and np.array_equal(cnt, counts[r]), 'C32:evalcluster-counts',
                         lambda: 'occupation %s evalcluster %s brute force %s %s' % (mocc.tolist(), cnt.tolist(), counts[r].tolist(), sdesc))
        if cnt.shape == counts[r].shape:
            mon.close(float(np.dot(vals_full, cnt)), float(Eref[r]), 1e-9, 'C32:evalcluster-energy',
                      lambda: 'occupation %s %s' % (mocc.tolist(), sdesc), scale=scale)
        if not good: break
    return mon.result(sample=desc)
