"""C11: interstitial derivative outputs are true derivatives.

Monitors: (a) the activation-barrier output Db of Interstitial.diffusivity(CalcDeriv=True) against Richardson-extrapolated
central differences of the real diffusivity AND of the reference walk R1 along inverse temperature; (b) the elastodiffusion
tensor against central differences of R1 evaluated on the strained geometry with site/transition energies shifted by
their populated dipoles, for every symmetric strain component; (c) siteDipoles/jumpDipoles against the group-average
of the (arbitrary, non-symmetric) input tensor over the representative's stabiliser carried to each site/jump, using an
independently computed space group.
"""
import numpy as np
from vmon import gen, contracts, work_inter
from vmon.util import Mon
from vmon.ref import walk, geom

ID = 'C11'
RULE = ('random 2-D/3-D crystals (all lattice systems, 1-3 orbits, 1-2 species), random diffusing species, safe random cutoff, '
        'random prefactors/energies (sigma 0.3..3) and arbitrary non-symmetric dipoles N(0,1); non-trivial = network has a jump; '
        'distinct = (kind, sites, Wyckoff sets, jump classes, vector-basis size, pinv branch)')
ASSUMPTIONS = ['finite differences: step 1e-3 (beta) / 1e-4 (strain) with Richardson extrapolation; tolerance 1e-6 x |D0| scale '
               '(x dipole scale for strain)',
               'elastic dipole convention P = -dE/d(strain): energies couple as E -> E - P:eps, jump vectors as dx -> (1+eps) dx',
               'independent space group from vmon.ref.geom.full_group (tolerance 1e-6)']
REQUIRED_OBS = {'eval:C11:Db=-dD/dbeta(R1)': 20, 'eval:C11:elasto=dD/deps(R1)': 20, 'eval:C11:siteDipoles': 20,
                'eval:C11:jumpDipoles': 20, 'with_vector_basis': 3, 'pinv_branch': 1}
PER_CASE = 4


def cases(tier, seed):
    n = 48 if tier == 'quick' else 500
    return [{'seed': seed, 'idx': i, 'hashseed': i % 4} for i in range(n)]


def ref_D(w, lam=1.0, eps=None, sdip=None, jdip=None):
    """R1 on the (optionally strained) network. sdip[i], jdip[J][k] populated dipoles."""
    crys, N = w['crys'], w['N']
    dim = crys.dim
    inv = w['inv']
    bEs = np.array([lam * w['bE'][inv[i]] for i in range(N)])
    lnpre = np.array([np.log(w['pre'][inv[i]]) for i in range(N)])
    if eps is not None:
        bEs = bEs - np.array([np.sum(sdip[i] * eps) for i in range(N)])
    lnp = lnpre - bEs
    lnp -= lnp.max()
    p = np.exp(lnp)
    p /= p.sum()
    jumps = []
    F = np.eye(dim) + (eps if eps is not None else 0)
    for J, jl in enumerate(w['jn']):
        for k, ((i, j), dx) in enumerate(jl):
            bT = lam * w['bET'][J]
            if eps is not None: bT = bT - np.sum(jdip[J][k] * eps)
            rate = w['preT'][J] * np.exp(bEs[i] - bT - lnpre[i])
            jumps.append((i, j, F @ dx, rate, J))
    return walk.walk_D(N, dim, p, jumps)


def run_case(case):
    from onsager import OnsagerCalc
    mon = Mon()
    rng = gen.rng_for(case['seed'], case['idx'], 11)
    sample = None
    for k in range(PER_CASE):
        w = work_inter.draw(rng, maxsites=5, sigmas=(0.3, 1., 2.), noncentro=0.2)
        if w is None:
            mon.count('skipped_empty_or_huge')
            continue
        crys, chem, sl, jn, N = w['crys'], w['chem'], w['sl'], w['jn'], w['N']
        dim = crys.dim
        pre, bE, preT, bET = w['pre'], w['bE'], w['preT'], w['bET']
        if sample is None: sample = w['desc']
        D0ref = ref_D(w)
        p = walk.site_prob(pre, bE, w['inv'])
        _, _, _, D0, _ = walk.walk_D(N, dim, p, walk.jump_table(jn, pre, bE, preT, bET, w['inv']), full=True)
        scale = max(np.abs(D0).max(), 1e-300)
        with mon.guard('C11:interstitial'):
            diff = OnsagerCalc.Interstitial(crys, chem, sl, jn)
            mon.count('with_vector_basis', diff.NV > 0)
            mon.count('pinv_branch', diff.NV > 0 and not diff.omega_invertible)
            mon.sig([w['spec']['kind'], N, len(sl), len(jn), diff.NV, bool(diff.omega_invertible)])
            # (a) activation barrier
            D, Db = diff.diffusivity(pre, bE, preT, bET, CalcDeriv=True)
            h = 1e-3

            def fd(f):
                d1 = (f(1 + h) - f(1 - h)) / (2 * h)
                d2 = (f(1 + h / 2) - f(1 - h / 2)) / h
                return (4 * d2 - d1) / 3
            dref = fd(lambda lam: ref_D(w, lam))
            dreal = fd(lambda lam: diff.diffusivity(pre, lam * bE, preT, lam * bET))
            bscale = scale * max(1., np.abs(bET).max())
            mon.close(Db, -dref, 1e-6, 'C11:Db=-dD/dbeta(R1)', lambda: str(w['desc']), scale=bscale)
            mon.close(Db, -dreal, 1e-6, 'C11:Db=-dD/dbeta(real)', lambda: str(w['desc']), scale=bscale)
            mon.close(D, D0ref, 1e-9, 'C11:D=R1', scale=scale)
            # (c) populated dipoles
            dip = [rng.normal(size=(dim, dim)) for _ in sl]
            dipT = [rng.normal(size=(dim, dim)) for _ in jn]
            sdip = diff.siteDipoles(dip)
            jdip = diff.jumpDipoles(dipT)
            G = geom.full_group(crys.lattice, crys.basis)
            Linv = np.linalg.inv(crys.lattice)
            cart = [(crys.lattice @ M @ Linv, perm[chem]) for (M, t, perm) in G]
            ok = True
            for wi, sites in enumerate(sl):
                sym = 0.5 * (dip[wi] + dip[wi].T)
                for i in sites:
                    ops = [R for (R, pm) in cart if pm[sites[0]] == i]
                    ref = sum(R @ sym @ R.T for R in ops) / len(ops)
                    if np.abs(ref - sdip[i]).max() > 1e-9: ok = False
            mon.check(ok, 'C11:siteDipoles', lambda: 'populated site dipoles differ from the stabiliser average carried by symmetry %s' % w['desc'])
            ok = True
            for J, jl in enumerate(jn):
                sym = 0.5 * (dipT[J] + dipT[J].T)
                (i0, j0), dx0 = jl[0]
                for kk, ((i, j), dx) in enumerate(jl):
                    ops = [R for (R, pm) in cart if (pm[i0] == i and pm[j0] == j and np.allclose(R @ dx0, dx, atol=1e-7)) or
                           (pm[i0] == j and pm[j0] == i and np.allclose(R @ dx0, -dx, atol=1e-7))]
                    if not ops:
                        ok = False
                        continue
                    ref = sum(R @ sym @ R.T for R in ops) / len(ops)
                    if np.abs(ref - jdip[J][kk]).max() > 1e-9: ok = False
            mon.check(ok, 'C11:jumpDipoles', lambda: 'populated jump dipoles differ from the stabiliser average carried by symmetry %s' % w['desc'])
            # (b) elastodiffusion
            Del, dD = diff.elastodiffusion(pre, bE, dip, preT, bET, dipT)
            mon.close(Del, D0ref, 1e-9, 'C11:elasto.D=R1', scale=scale)
            contracts.tensor4_contract(mon, crys, dD, 'elastodiffusion', prefix='C11', scale=scale * 3)
            he = 1e-4
            ref4 = np.zeros((dim,) * 4)
            for c in range(dim):
                for d in range(c, dim):
                    E = np.zeros((dim, dim))
                    E[c, d] += 0.5
                    E[d, c] += 0.5

                    def f(x):
                        return ref_D(w, 1.0, x * E, sdip, jdip)
                    d1 = (f(he) - f(-he)) / (2 * he)
                    d2 = (f(he / 2) - f(-he / 2)) / he
                    der = (4 * d2 - d1) / 3
                    ref4[:, :, c, d] = der
                    ref4[:, :, d, c] = der
            dscale = scale * max(1., max(np.abs(x).max() for x in list(sdip) + [y for z in jdip for y in z]))
            mon.close(dD, ref4, 1e-6, 'C11:elasto=dD/deps(R1)', lambda: str(w['desc']), scale=dscale)
    return mon.result(sample=sample)
