"""C03: transport tensors are symmetric, non-negative and crystal-invariant.

Post-condition contracts (vmon.contracts.tensor2_contract / tensor4_contract) on every tensor returned by
Interstitial.diffusivity, Interstitial.elastodiffusion and VacancyMediated.Lij under a hostile workload: rate ratios up to
1e+-12 between jump classes, site-energy spreads up to 12, omega2 scalings up to 1e16, all point groups of the crystal pool
and of random crystals. Symmetry in Cartesian indices, invariance under every point-group operation, and positive
semidefiniteness of D, L0vv, Lss.
"""
import numpy as np
from vmon import gen, work_vac, work_inter, contracts
from vmon.util import Mon
from vmon.trace import lij_probe

ID = 'C03'
RULE = ('interstitial: random crystals/networks (as C02) with hostile data (jump-class barriers spread over +-14, site energies over '
        '+-6) and random dipoles; vacancy: crystal pool x Nthermo {1,2} x sigma in {0.7, 3} x omega2 scalings {1, 1e4, 1e8, 1e12, 1e16}; '
        'non-trivial = every returned tensor; distinct = (system, input index, scaling)')
ASSUMPTIONS = ['tolerance 1e-9 x scale, scale = larger of |tensor| and the uncorrelated magnitude (0.5 sum p w dx dx); 1e-5 for the hostile '
               'vacancy inputs (sigma 3) and when the large-omega2 algorithm is active (observed asymmetry up to 9e-7 on low-symmetry crystals)', 'energies |beta F| <= ~30',
               'an indefinite Lss obtained with the default k-mesh is attributed to Brillouin-zone integration accuracy only if the negative '
               'eigenvalue shrinks on denser meshes (NGFmax 8: not larger, 12: at most half); seen on the 2-D displaced triangular lattice with '
               'bare rates spanning e^6 and binding e^7.6 (-425/-24/-5/-1 at NGFmax 4/8/12/16)']
REQUIRED_OBS = {'eval:C03:symmetric:D': 40, 'eval:C03:invariant:D': 40, 'eval:C03:psd:D': 40, 'eval:C03:invariant:elastodiffusion': 20,
                'eval:C03:psd:Lss': 40, 'eval:C03:invariant:Lsv': 40, 'eval:C03:invariant:L1vv': 40, 'eval:C03:psd:L0vv': 40}
CASE_TIMEOUT = 900
QUICK = [('fcc', 1), ('bcc', 1), ('hcp', 1), ('square', 1), ('honey', 1), ('omega', 1), ('lieb', 1), ('diamond', 1), ('dtria', 1),
         ('tria', 1), ('rumpled', 1), ('fcc', 2), ('tric', 1), ('mono', 1), ('p4m', 1), ('p2', 1), ('mono2', 1), ('p2two', 1)]
THOROUGH = QUICK + [('sc', 1), ('b2', 1), ('kagome', 1), ('l12', 1), ('tet', 1), ('rect', 1), ('bcc', 2), ('square', 2), ('honey', 2),
                    ('hcp', 2), ('tria', 2)]


def cases(tier, seed):
    pool = QUICK if tier == 'quick' else THOROUGH
    out = [{'kind': 'vac', 'seed': seed, 'idx': ci * 10 + rep, 'name': n, 'Nthermo': t, 'ninputs': 3 if tier == 'quick' else 8,
            'hashseed': (ci + rep) % 3} for ci, (n, t) in enumerate(pool) for rep in range(1 if tier == 'quick' else 2)]
    out += [{'kind': 'inter', 'seed': seed, 'idx': 1000 + i, 'hashseed': i % 4} for i in range(24 if tier == 'quick' else 300)]
    return out


def run_inter(case, mon):
    from onsager import OnsagerCalc
    rng = gen.rng_for(case['seed'], case['idx'], 3)
    sample = None
    for k in range(5):
        w = work_inter.draw(rng, maxsites=6, hostile=(k % 2 == 0), noncentro=0.25)
        if w is None: continue
        crys, chem, sl, jn, N = w['crys'], w['chem'], w['sl'], w['jn'], w['N']
        if sample is None: sample = w['desc']
        with mon.guard('C03:interstitial'):
            diff = OnsagerCalc.Interstitial(crys, chem, sl, jn)
            rates = diff.ratelist(w['pre'], w['bE'], w['preT'], w['bET'])
            rho = diff.siteprob(w['pre'], w['bE'])
            sc0 = max(max(rho[i] * r * np.dot(dx, dx) for jl, rl in zip(jn, rates) for ((i, j), dx), r in zip(jl, rl)), 1e-300)
            D = diff.diffusivity(w['pre'], w['bE'], w['preT'], w['bET'])
            tolI = 1e-7 if k % 2 == 0 else 1e-9   # hostile draws (rate ratios up to 1e12): cancellation of the bare and the correlated part
            contracts.tensor2_contract(mon, crys, D, 'D', psd=True, scale=max(sc0, np.abs(D).max()), tol=tolI)
            dip = [rng.normal(size=(crys.dim,) * 2) for _ in sl]
            dipT = [rng.normal(size=(crys.dim,) * 2) for _ in jn]
            D2, dD = diff.elastodiffusion(w['pre'], w['bE'], dip, w['preT'], w['bET'], dipT)
            contracts.tensor2_contract(mon, crys, D2, 'D(elasto)', psd=True, scale=max(sc0, np.abs(D2).max()), tol=tolI)
            contracts.tensor4_contract(mon, crys, dD, 'elastodiffusion', scale=max(sc0 * 10, np.abs(dD).max()))
            mon.sig(['inter', w['spec']['kind'], N, len(jn), case['idx'], k])
    return sample


def run_vac(case, mon):
    rng = gen.rng_for(case['seed'], case['idx'], 3)
    name, nth = case['name'], case['Nthermo']
    diff = work_vac.get_calc(name, nth)
    sample = None
    for k in range(case['ninputs']):
        sigma = float(rng.choice([0.7, 3.]))
        if k == case['ninputs'] - 1 and len(diff.OSindices) > 0:
            sigma = 0.3   # crystals with origin states: one input with a small rate spread, outside the regime of finding F22
            mon.count('origin_state_inputs_small_spread')
        base = work_vac.rand_args(rng, diff, 'VSB012', sigma)
        for kk in (0, 4, 8, 12, 16):
            args = [x.copy() for x in base]
            if k % 2 == 1 and len(args[5]) > 1: args[5][0] = args[5][0] - kk * np.log(10.)  # one exchange class only
            else: args[5] = args[5] - kk * np.log(10.)
            tags = work_vac.regime_tags(diff, args)
            if kk >= 8: tags += ['om2_scaling>=1e8', 'large_om2_algorithm']
            desc = {'crystal': name, 'Nthermo': nth, 'sigma': sigma, 'om2_scaling': '1e%d' % kk, 'args': args}
            if sample is None: sample = desc
            try:
                with lij_probe(diff) as probe:
                    L = [np.array(x) for x in diff.Lij(*args)]
                if probe.hits['large'] > 0 and 'large_om2_algorithm' not in tags: tags.append('large_om2_algorithm')
                mon.count('large_branch_calls', probe.hits['large'] > 0)
            except Exception as e:
                import traceback
                tb = traceback.format_exc()[-500:]
                try:   # anisotropy of the bare vacancy diffusivity (finding F24: the k-mesh ignores it)
                    ev0 = np.linalg.eigvalsh(np.array(diff.GFcalc.D))
                    if ev0.min() <= 0 or ev0.max() >= 50 * ev0.min(): tags = tags + ['L0vv_anisotropy>=50']
                except Exception:
                    pass
                mon.fail('C03:Lij:raises:' + type(e).__name__, tb + str(desc), tags)
                continue
            sc = max(np.abs(L[0]).max(), np.abs(L[1]).max(), 1e-300)
            ev0 = np.linalg.eigvalsh(0.5 * (L[0] + L[0].T))
            if ev0.min() <= 0 or ev0.max() >= 50 * ev0.min(): tags = tags + ['L0vv_anisotropy>=50']
            # hostile inputs (sigma 3: rates spanning e^+-9) on low-symmetry crystals reach the tensor symmetry only numerically
            tol = 1e-5 if (kk >= 8 or sigma >= 1 or 'large_om2_algorithm' in tags) else (1e-7 if kk >= 4 else 1e-9)
            for nm, x, psd in (('L0vv', L[0], True), ('Lss', L[1], True), ('Lsv', L[2], False), ('L1vv', L[3], False)):
                m2 = Mon(tags)
                contracts.tensor2_contract(m2, diff.crys, x, nm, psd=psd, scale=max(sc, np.abs(x).max() if np.all(np.isfinite(x)) else sc), tol=tol)
                if m2.viol and all(v['clause'].startswith('C03:psd') for v in m2.viol):
                    def meas(dd, args=args, q=('L0vv', 'Lss', 'Lsv', 'L1vv').index(nm)):
                        y = np.array(dd.Lij(*args)[q])
                        return max(0., -np.linalg.eigvalsh(0.5 * (y + y.T)).min()) / max(sc, np.abs(y).max())
                    lam = np.linalg.eigvalsh(0.5 * (x + x.T)).min()
                    ok, ms = work_vac.resolved_by_denser_mesh(name, nth, meas, -lam / max(sc, np.abs(x).max()))
                    mon.count('checked_by_mesh_convergence')
                    if ok: m2.viol = []
                    else:
                        for v in m2.viol: v['detail'] += ' denser meshes: %s' % ms
                for v in m2.viol:
                    v['detail'] += ' ' + str(desc)
                    mon.viol.append(v)
                for key, val in m2.obs.items():
                    if key.startswith('eval:') or key == 'tensors_checked': mon.count(key, val)
                    elif key.startswith('min_'): mon.note_min(key[4:], val)
                    elif key.startswith('max_'): mon.note_max(key[4:], val)
                mon.evals += m2.evals
            mon.sig(['vac', name, nth, k, kk])
    diff.clearcache()
    return sample


def run_case(case):
    mon = Mon()
    sample = run_inter(case, mon) if case['kind'] == 'inter' else run_vac(case, mon)
    return mon.result(sample=sample)
