"""C20: site symmetry analysis gives exact orbits and invariant bases.

Monitors on the real Crystal (pointG, Wyckoff, Wyckoffpos, VectorBasis, SymmTensorBasis, FullVectorBasis,
addbasis) against an independent brute-force space group (vmon.ref.geom.full_group) and group-average
projectors (R6), over random crystals of every lattice system (2-D/3-D, random orientation); plus the
exhaustive family: every subgroup of O_h, D_6h (3-D) and D_4, D_6 (2-D) fed as GroupOp lists to
reduce(CombineVectorBasis / CombineTensorBasis, ...) exactly as Crystal.VectorBasis / SymmTensorBasis do,
in several operation orders and lattice orientations; and the same subgroups as ACTUAL site symmetries:
crystals with one species at the origin and a second species on the H-orbit of a general point.
"""
from functools import reduce
import numpy as np
from vmon import gen
from vmon.util import Mon
from vmon.ref import geom, pointgroups as pg

ID = 'C20'
RULE = ('(a) random crystals: Bravais type from all 3-D (11) and 2-D (5) systems, 1-3 orbits of special/general points, 1-3 species, '
        'half of them in a random rigid orientation; every site is examined; Wyckoffpos/addbasis for special (site, '
        'high-symmetry fractions, diagonal) and general u; (b) exhaustive: all 98 subgroups of O_h, 54 of D_6h, 10 of D_4, 16 of '
        'D_6 (closure from <=3 generators) x standard + random orientations x 4 random operation orders; (c) decorated: for every '
        'such subgroup H of order <=12 (quick) / <=24 (thorough) a crystal whose origin site has point group H (all monitors of '
        '(a) run on it). Non-trivial = crystal with >1 atom or >1 operation / subgroup of order >1; distinct = (kind, rotated, '
        'atoms per species, |G|) or (holohedry, subgroup, orientation)')
ASSUMPTIONS = ['positions compared modulo the lattice with tolerance 1e-6 (the class threshold is 1e-8); generated test points whose '
               'images lie between 1e-9 and 1e-3 of each other are skipped as threshold-degenerate; so are crystals whose independent group '
               'changes when its tolerance goes from 1e-6 to 1e-9 (atoms symmetric only to within that window)',
               'projectors, orthonormality and equivariance compared to 1e-9 (algebraic identities on unit-scale objects)',
               'the reference space group is a brute-force search over integer matrices with entries |m|<=2 (the repository '
               'searches |m|<=1) and all atom-to-atom translations']
REQUIRED_OBS = {'crystals_checked': 40, 'eval:C20:group-complete': 40, 'eval:C20:pointG-fixes-site': 100,
                'eval:C20:wyckoff-sets': 40, 'eval:C20:wyckoffpos-orbit': 100, 'eval:C20:vector-projector': 100,
                'eval:C20:tensor-projector': 100, 'eval:C20:fullvb-equivariant': 40, 'eval:C20:addbasis-group': 30,
                'subgroups_Oh': 98, 'subgroups_D6h': 54, 'subgroups_D4': 10, 'subgroups_D6': 16,
                'eval:C20:subgroup-vector-projector': 500, 'eval:C20:subgroup-tensor-projector': 500,
                'mirror2d_offaxis': 5, 'sites_dim1': 5, 'sites_dim2': 5, 'decorated_crystals': 120,
                'decorated_site_group_is_H': 100, 'regime:pg3d-S4': 3, 'regime:pg2d-C2-no-higher-axis': 10}
CASE_TIMEOUT = 600
TOL = 1e-9


def cases(tier, seed):
    nrand = 44 if tier == 'quick' else 500
    nori = 3 if tier == 'quick' else 12
    out = [{'seed': seed, 'idx': i, 'hashseed': i % 5, 'mode': 'random', 'ncrys': 4 if tier == 'quick' else 6}
           for i in range(nrand)]
    k = nrand
    for holo in ('Oh', 'D6h', 'D4', 'D6'):
        for o in range(nori):
            out.append({'seed': seed, 'idx': k, 'hashseed': o % 5, 'mode': 'subgroups', 'holo': holo, 'orient': o})
            k += 1
    maxorder = 12 if tier == 'quick' else 24
    for holo, nsub in (('Oh', 98), ('D6h', 54), ('D4', 10), ('D6', 16)):
        for rep in range(1 if tier == 'quick' else 3):
            for lo in range(0, nsub, 6):
                out.append({'seed': seed, 'idx': k, 'hashseed': k % 5, 'mode': 'decorated', 'holo': holo, 'lo': lo, 'hi': lo + 6,
                            'maxorder': maxorder})
                k += 1
    return out


# ---------------------------------------------------------------------------------------------
def vb_projector(vb, dim):
    """Projector encoded by the repository's (dim, vect) convention."""
    n, v = vb[0], np.asarray(vb[1], dtype=float)
    if n == 0: return np.zeros((dim, dim))
    if n == dim: return np.eye(dim)
    if n == 1: return np.outer(v, v)
    return np.eye(dim) - np.outer(v, v)  # n == 2 in 3-D: plane with normal v


def tb_projector(tb, dim):
    P = np.zeros((dim * dim, dim * dim))
    for b in tb:
        f = np.asarray(b, dtype=float).reshape(-1)
        P += np.outer(f, f)
    return P


def regime_tags(rots):
    """Mechanism tags of a point group (used to key known findings): 2-D groups whose only rotation is C2;
    the 3-D group S4 = {E, -4, 2, -4^3}."""
    dim = rots[0].shape[0]
    tags = []
    if dim == 2:
        prop = [R for R in rots if np.linalg.det(R) > 0]
        if any(abs(np.trace(R) + 2) < 1e-6 for R in prop) and all(abs(abs(np.trace(R)) - 2) < 1e-6 for R in prop):
            tags.append('pg2d-C2-no-higher-axis')
    elif len(rots) == 4 and any(np.linalg.det(R) < 0 and abs(np.trace(R) + 1) < 1e-6 for R in rots):
        tags.append('pg3d-S4')
    return tags


def check_bases(mon, crystal, vb, tb, rots, dim, prefix, detail):
    """vb, tb: repository output; rots: Cartesian matrices of the (independent) point group."""
    tags = regime_tags(rots)
    for t in tags: mon.count('regime:' + t)
    Pv = geom.vector_projector(rots)
    Pt = geom.tensor_projector(rots)
    nv = int(round(np.trace(Pv)))
    ok = isinstance(vb, tuple) and len(vb) == 2 and vb[0] in range(dim + 1) and np.shape(vb[1]) == (dim,)
    mon.check(ok, prefix + 'vector-format', detail, tags=tags)
    if ok:
        mon.check(vb[0] == nv, prefix + 'vector-dimension', lambda: 'dim %s vs trace %s %s' % (vb[0], nv, detail()), tags=tags)
        if 0 < vb[0] < dim:
            mon.close(np.dot(vb[1], vb[1]), 1., TOL, prefix + 'vector-normalised', detail, tags=tags)
        mon.close(vb_projector(vb, dim), Pv, TOL, prefix + 'vector-projector', detail, tags=tags)
        with mon.guard(prefix + 'vectlist', tags=tags):
            vl = crystal.Crystal.vectlist(vb)
            mon.check(len(vl) == nv, prefix + 'vectlist-length', detail, tags=tags)
            if len(vl):
                A = np.array(vl)
                mon.close(A @ A.T, np.eye(len(vl)), TOL, prefix + 'vectlist-orthonormal', detail, tags=tags)
                mon.close(A.T @ A, Pv, TOL, prefix + 'vectlist-projector', detail, tags=tags)
    nt = int(round(np.trace(Pt)))
    ok = isinstance(tb, list) and all(np.shape(b) == (dim, dim) for b in tb)
    mon.check(ok, prefix + 'tensor-format', detail, tags=tags)
    if ok:
        mon.check(len(tb) == nt, prefix + 'tensor-dimension', lambda: 'len %d vs trace %d %s' % (len(tb), nt, detail()), tags=tags)
        if len(tb):
            F = np.array([np.asarray(b).reshape(-1) for b in tb])
            mon.close(F @ F.T, np.eye(len(tb)), TOL, prefix + 'tensor-orthonormal', detail, tags=tags)
            mon.close(np.array([b - b.T for b in tb]), np.zeros((len(tb), dim, dim)), TOL, prefix + 'tensor-symmetric', detail, tags=tags)
        mon.close(tb_projector(tb, dim), Pt, TOL, prefix + 'tensor-projector', detail, tags=tags)
    return nv, nt


# ---------------------------------------------------------------------------------------------
def run_subgroups(case, mon):
    from onsager import crystal
    holo, orient = case['holo'], case['orient']
    rng = gen.rng_for(case['seed'], case['idx'], 20, 1)
    latt, ops = pg.holohedry(holo)
    dim = latt.shape[0]
    subs = pg.all_subgroups(ops)
    mon.check(len(subs) == pg.HOLO[holo][2], 'C20:subgroup-enumeration', '%s: %d subgroups' % (holo, len(subs)))
    Q = np.eye(dim) if orient == 0 else pg.random_rotation(rng, dim)
    L = Q @ latt
    Linv = np.linalg.inv(L)
    gops = [crystal.GroupOp(rot=M.astype(int), trans=np.zeros(dim), cartrot=L @ M @ Linv, indexmap=((0,),)) for M in ops]
    if orient == 0:
        mon.count('subgroups_' + holo, len(subs))
    sample = None
    for H in subs:
        idx = sorted(H)
        rots = [gops[a].cartrot for a in idx]
        if len(idx) > 1:
            mon.sig([holo, idx, orient])
        if dim == 2 and len(idx) == 2:
            g = gops[idx[1]] if np.array_equal(gops[idx[0]].rot, np.eye(2, dtype=int)) else gops[idx[0]]
            if np.linalg.det(g.rot) < 0:
                # angle of the mirror line
                w, v = np.linalg.eigh(0.5 * (g.cartrot + g.cartrot.T))
                ang = np.degrees(np.arctan2(v[1, 1], v[0, 1])) % 90
                if min(ang, 90 - ang) > 1:
                    mon.count('mirror2d_offaxis')
        for rep in range(4):
            order = list(idx) if rep == 0 else [idx[p] for p in rng.permutation(len(idx))]
            detail = lambda: '%s subgroup %s order %s orientation %s' % (holo, idx, order, Q.tolist())
            vb = tb = None
            with mon.guard('C20:subgroup-bases'):
                vb = reduce(crystal.CombineVectorBasis, [crystal.VectorBasis(*gops[a].eigen()) for a in order])
                tb = reduce(crystal.CombineTensorBasis, [crystal.SymmTensorBasis(*gops[a].eigen()) for a in order])
            if vb is None or tb is None: continue
            nv, nt = check_bases(mon, crystal, vb, tb, rots, dim, 'C20:subgroup-', detail)
            mon.seen('subgroup_dims_%dd' % dim, [nv, nt])
        if sample is None and len(idx) > 2:
            sample = {'holohedry': holo, 'subgroup_rots': [ops[a].tolist() for a in idx], 'orientation': Q}
    return mon.result(sample=sample)


# ---------------------------------------------------------------------------------------------
def images(refG, u):
    """Distinct images of u (mod lattice) under the reference group; None if threshold-degenerate."""
    pts = []
    for (M, t, _) in refG:
        v = M @ u + t
        d = [np.max(np.abs(geom.wrap_half(v - w))) for w in pts]
        if any(1e-9 < x < 1e-3 for x in d): return None
        if not any(x <= 1e-9 for x in d): pts.append(v)
    return pts


def check_crystal(mon, crystal, crys, rng, desc, sigkey):
    """All site-symmetry monitors on one constructed crystal; returns the independent group."""
    dim = crys.dim
    L, Linv = crys.lattice, np.linalg.inv(crys.lattice)
    refG, degenerate = pg.reference_group(L, crys.basis, len(crys.G))
    if degenerate:
        mon.count('threshold_degenerate_crystal_skipped')
        return refG
    mon.count('crystals_checked')
    mon.seen('group_orders', len(refG))
    if crys.N > 1 or len(refG) > 1:
        mon.sig(sigkey + [[len(l) for l in crys.basis], len(refG)])

    # --- the group itself is complete (makes "Wyckoff sets are exactly the orbits" observable)
    def ingroup(M, t):
        return any(np.array_equal(g.rot, M) and geom.same_pos(g.trans, t) for g in crys.G)
    missing = [(M.tolist(), t.tolist()) for (M, t, _) in refG if not ingroup(M, t)]
    mon.check(len(crys.G) == len(refG) and not missing, 'C20:group-complete',
              lambda: '|G|=%d independent=%d missing=%s %s' % (len(crys.G), len(refG), missing[:2], desc))

    # --- site point groups
    natoms = [len(l) for l in crys.basis]
    ok_shape = len(crys.pointG) == len(crys.basis) and all(len(a) == n for a, n in zip(crys.pointG, natoms))
    mon.check(ok_shape, 'C20:pointG-shape', desc)
    if not ok_shape: return refG
    for c, lst in enumerate(crys.basis):
        for i, u in enumerate(lst):
            x = L @ u
            stab = [(M, t) for (M, t, _) in refG if geom.same_pos(M @ u + t, u)]
            rots = [L @ M @ Linv for (M, t) in stab]
            pG = list(crys.pointG[c][i])
            fixes = all(np.allclose(g.rot @ u + g.trans, u, atol=1e-6) and np.allclose(g.cartrot @ x + L @ g.trans, x, atol=1e-6)
                        and g.indexmap[c][i] == i for g in pG)
            mon.check(fixes, 'C20:pointG-fixes-site', lambda: 'site (%d,%d) %s' % (c, i, desc))
            same = len(pG) == len(stab) and all(any(np.array_equal(g.rot, M) for g in pG) for (M, t) in stab)
            mon.check(same, 'C20:pointG-complete', lambda: 'site (%d,%d): %d ops, stabiliser has %d %s' % (c, i, len(pG), len(stab), desc))
            detail = lambda: 'site (%d,%d) |stab|=%d %s' % (c, i, len(stab), desc)
            vb = tb = None
            with mon.guard('C20:site-bases'):
                vb = crys.VectorBasis((c, i))
                tb = crys.SymmTensorBasis((c, i))
            if vb is None or tb is None: continue
            nv, nt = check_bases(mon, crystal, vb, tb, rots, dim, 'C20:', detail)
            mon.count('sites_dim%d' % nv)
            mon.seen('site_dims_%dd' % dim, [nv, nt])
            if dim == 2 and len(stab) == 2 and nv == 1:
                ang = np.degrees(np.arctan2(vb[1][1], vb[1][0])) % 90
                if min(ang, 90 - ang) > 1: mon.count('mirror2d_offaxis')

    # --- Wyckoff sets = orbits
    reforb = geom.orbits_from_perms([p for (_, _, p) in refG], natoms)
    wy = None
    with mon.guard('C20:wyckoff'):
        wy = frozenset(frozenset((int(c), int(i)) for (c, i) in s) for s in crys.Wyckoff)
    mon.check(wy == reforb, 'C20:wyckoff-sets', lambda: '%s vs orbits %s %s' % (sorted(map(sorted, wy or [])), sorted(map(sorted, reforb)), desc))
    mon.seen('norbits', len(reforb))

    # --- full vector basis: orthonormal, invariant (equivariant), complete
    for form in ('each', 'all'):
        res = None
        with mon.guard('C20:fullvb'):
            if form == 'all':
                VBl, VVl = crys.FullVectorBasis()
                res = [(c, VBl[c], VVl[c]) for c in range(len(crys.basis))]
            else:
                res = [(c,) + tuple(crys.FullVectorBasis(c)) for c in range(len(crys.basis))]
        if res is None: continue
        for c, VB, VV in res:
            n_c = len(crys.basis[c])
            expect = 0
            ftags = []
            for orb in reforb:
                cc, ii = sorted(orb)[0]
                if cc != c: continue
                srots = geom.stabilizer_cart(L, refG, crys.basis[c][ii])
                expect += int(round(np.trace(geom.vector_projector(srots))))
                ftags += [t for t in regime_tags(srots) if t not in ftags]
            VB = np.asarray(VB)
            det = lambda: 'chem %d form %s NV=%s expected %d %s' % (c, form, VB.shape, expect, desc)
            if expect == 0:
                mon.check(VB.size == 0, 'C20:fullvb-count', det, tags=ftags)
                continue
            if not mon.check(VB.shape == (expect, n_c, dim), 'C20:fullvb-count', det, tags=ftags): continue
            flat = VB.reshape(expect, -1)
            mon.close(flat @ flat.T, np.eye(expect), TOL, 'C20:fullvb-orthonormal', det, tags=ftags)
            err = 0.
            for (M, t, perm) in refG:
                R = L @ M @ Linv
                moved = np.zeros_like(VB)
                for i in range(n_c):
                    moved[:, perm[c][i], :] = VB[:, i, :] @ R.T
                err = max(err, np.max(np.abs(moved - VB)))
            mon.close(err, 0., TOL, 'C20:fullvb-equivariant', det, tags=ftags)
            VVref = np.einsum('asi,bsj->ijab', VB, VB)
            mon.close(np.asarray(VV), VVref, TOL, 'C20:fullvb-outer', det, tags=ftags)

    # --- Wyckoffpos: complete orbit, no duplicates; addbasis keeps the group
    ulist = []
    cc = int(rng.integers(len(crys.basis)))
    ulist.append(('site', crys.basis[cc][int(rng.integers(len(crys.basis[cc])))].copy()))
    ch = [0., 0.5, 0.25, 0.75, 1 / 3, 2 / 3]
    ulist.append(('special', np.array([ch[int(rng.integers(len(ch)))] for _ in range(dim)])))
    u = rng.uniform(size=dim)
    u[1] = u[0]
    ulist.append(('diagonal', u))
    u = rng.uniform(size=dim)
    u[int(rng.integers(dim))] = ch[int(rng.integers(len(ch)))]
    ulist.append(('plane', u))
    ulist.append(('general', rng.uniform(size=dim)))
    ulist.append(('outside-cell', rng.uniform(-2, 2, size=dim)))
    added = 0
    for label, u in ulist:
        ref = images(refG, u)
        if ref is None:
            mon.count('degenerate_u_skipped')
            continue
        wp = None
        with mon.guard('C20:wyckoffpos'):
            wp = crys.Wyckoffpos(u)
        if wp is None: continue
        det = lambda: 'u=%s (%s): %d positions, orbit has %d %s' % (u.tolist(), label, len(wp), len(ref), desc)
        nodup = all(not geom.same_pos(wp[a], wp[b]) for a in range(len(wp)) for b in range(a))
        inorb = all(any(geom.same_pos(w, r) for r in ref) for w in wp)
        covers = all(any(geom.same_pos(w, r) for w in wp) for r in ref)
        mon.check(nodup, 'C20:wyckoffpos-no-duplicates', det)
        mon.check(inorb and covers and len(wp) == len(ref), 'C20:wyckoffpos-orbit', det)
        mon.seen('wyckoffpos_kinds', label)
        mon.seen('orbit_sizes', len(ref))
        if len(ref) < len(refG): mon.count('wyckoffpos_special')
        else: mon.count('wyckoffpos_general')
        # addbasis: only for decorations that stay clear of the existing atoms and of each other
        if label == 'site' or added >= 1 or crys.N + len(ref) > 14: continue
        allpos = [w for lst in crys.basis for w in lst]
        if gen.mindist(L, allpos + ref) < 0.08: continue
        new = None
        with mon.guard('C20:addbasis'):
            new = crys.addbasis(wp)
        if new is None: continue
        added += 1
        det = lambda: 'addbasis(Wyckoffpos(%s)): |G| %d -> %d %s' % (u.tolist(), len(crys.G), len(new.G), desc)
        mon.check(len(new.G) == len(crys.G) and len(new.G) == len(refG), 'C20:addbasis-group', det)
        mon.check(new.Nchem == crys.Nchem + 1 and [len(l) for l in new.basis] == natoms + [len(ref)], 'C20:addbasis-sites', det)
        mon.close(new.volume, crys.volume, 1e-9, 'C20:addbasis-volume', det, scale=crys.volume)
        neworb = [s for s in new.Wyckoff if any(c == crys.Nchem for c, i in s)]
        mon.check(len(neworb) == 1 and len(neworb[0]) == len(ref), 'C20:addbasis-one-orbit', det)
        mon.check(len(new.Wyckoff) == len(reforb) + 1, 'C20:addbasis-orbits-kept', det)
    return refG


def run_random(case, mon):
    from onsager import crystal
    rng = gen.rng_for(case['seed'], case['idx'], 20)
    sample = None
    for k in range(case['ncrys']):
        spec = gen.rand_crystal_spec(rng, nchem=int(rng.integers(1, 4)))
        dim = spec['dim']
        rotated = bool(rng.uniform() < 0.5)
        Q = pg.random_rotation(rng, dim) if rotated else np.eye(dim)
        latt = Q @ np.array(spec['latt'])
        basis = [[np.array(u) for u in lst] for lst in spec['basis']]
        crys = None
        with mon.guard('C20:construct'):
            crys = crystal.Crystal(latt, basis)
        if crys is None: continue
        desc = {'kind': spec['kind'], 'lattice': latt, 'basis': spec['basis'], 'hashseed': case.get('hashseed')}
        if sample is None: sample = desc
        check_crystal(mon, crystal, crys, rng, desc, [spec['kind'], rotated])
    return mon.result(sample=sample)


def run_decorated(case, mon):
    """Every subgroup H of a holohedry as an actual site symmetry: species 0 at the origin, species 1 on the
    H-orbit of a general point (symmorphic crystal with point group H unless the decoration is accidentally
    more symmetric -- the oracle is the independent group either way)."""
    from onsager import crystal
    holo = case['holo']
    rng = gen.rng_for(case['seed'], case['idx'], 20, 2)
    latt, ops = pg.holohedry(holo)
    dim = latt.shape[0]
    subs = [H for H in pg.all_subgroups(ops) if len(H) <= case['maxorder']][case['lo']:case['hi']]
    sample = None
    for H in subs:
        idx = sorted(H)
        for attempt in range(50):
            u = rng.uniform(0.07, 0.43, size=dim)
            orb = []
            for a in idx:
                v = ops[a] @ u
                if not any(geom.same_pos(v, w, 1e-3) for w in orb): orb.append(v)
            if len(orb) == len(idx) and gen.mindist(latt, [np.zeros(dim)] + orb) > 0.12: break
        else:
            mon.count('decorated_generator_gave_up')
            continue
        rotated = bool(rng.uniform() < 0.5)
        Q = pg.random_rotation(rng, dim) if rotated else np.eye(dim)
        crys = None
        with mon.guard('C20:construct'):
            crys = crystal.Crystal(Q @ latt, [[np.zeros(dim)], [v - np.floor(v) for v in orb]])
        if crys is None: continue
        desc = {'kind': 'decorated ' + holo, 'subgroup': [ops[a].tolist() for a in idx], 'lattice': Q @ latt, 'u': u,
                'hashseed': case.get('hashseed')}
        if sample is None and len(idx) > 1: sample = desc
        refG = check_crystal(mon, crystal, crys, rng, desc, ['decorated', holo, idx, rotated])
        mon.count('decorated_crystals')
        mon.count('decorated_site_group_is_H', len(refG) == len(idx))
        mon.seen('decorated_orders_' + holo, len(idx))
    return mon.result(sample=sample)


def run_case(case):
    mon = Mon()
    if case['mode'] == 'subgroups':
        return run_subgroups(case, mon)
    if case['mode'] == 'decorated':
        return run_decorated(case, mon)
    return run_random(case, mon)
