"""C17: Taylor-expansion change of variables (rotate/irotate) and inversion (inv) are exact.

Monitor: (a) rotatedirections(M) for random invertible non-orthogonal M: every row of the returned table is compared
exhaustively with the polynomial |Mp|^(n-d) (Mp)^pow it has to represent, and rotate()/irotate() of random
parity-consistent expansions must satisfy T_rot(p) = T(Mp) (independent evaluator and __call__), also after
reduce() and for compositions; (b) inv(Nmax) of random expansions with an invertible isotropic leading term:
order by order the angular factors of inv.T and T.inv (independent evaluator, random unit vectors) and the
coefficients of the class's own product after truncate+reduce equal the identity through order Nmax+n0.
"""
import numpy as np
from vmon import gen
from vmon.util import Mon
from vmon.ref import taylor as ref

ID = 'C17'
RULE = ('worker processes with class tables for Lmax in 2..6 (default 4 most often). "rot-table": random invertible matrices '
        '(general/shear/diagonal/orthogonal, singular values in 0.25..2.5), every (n, power) row of rotatedirections checked; '
        '"ops": rotate trials = random parity-consistent expansion (radial orders 0..Lmax, l<=n, n-l even, scalar/vector/matrix '
        'coefficients) x random matrix x points 0.5<=|p|<=1.1; inverse trials = leading order n0 in 0..3 with random invertible '
        'leading scalar/matrix (singular values 0.6..1.8), 0-3 higher terms whose products stay within Lmax through the '
        'requested order, Nmax in -n0..Lmax-n0; non-trivial = non-orthogonal M / at least one higher term; '
        'distinct = (dim, Lmax, matrix kind or Nmax, (n,l) list, shape)')
ASSUMPTIONS = ['radial functions f_n(x) = x**n',
               'rotation tolerance 1e-10 x sum_terms |c| (|M||p|)^n (|M| entrywise absolute value): no cancellation scale',
               'inverse: tolerance 1e-9 x natural scale; per order = 1 + sum of |inv_j(u)||T_k(u)| over the products that must cancel; '
               'coefficient-wise = 1 + (sum of |coefficients| of inv) x (sum of |coefficients| of T) x matrix size',
               'higher-order coefficients of the inverted expansions have modulus 0.09..0.66 (series well conditioned)',
               'matrices with condition number above 10 and leading terms with singular values outside 0.6..1.8 are not generated']
REQUIRED_OBS = {'eval:C17:rot-table': 400, 'rot_table_rows': 3000, 'eval:C17:rotate': 400, 'eval:C17:rotate-call': 600,
                'eval:C17:irotate': 200, 'eval:C17:rotate-compose': 250, 'eval:C17:rotate-reduce': 120,
                'nonorthogonal_rotations': 100, 'rotate_padded_terms': 40, 'rotate_lower_degree_rows': 300,
                'reduced_rotated_lowered_l': 5,
                'eval:C17:inv-identity': 1500, 'eval:C17:inv-coeff': 250, 'eval:C17:inv-orders': 200, 'eval:C17:inv-call': 100,
                'inv_trials_3d': 60, 'inv_trials_2d': 60, 'rot_trials_3d': 60, 'rot_trials_2d': 60,
                'inv_series_terms_ge2': 30, 'inv_matrix_lead': 60, 'inv_product_reduced_to_identity': 200}
CASE_TIMEOUT = 300
LIMITS = ('expansions that are not parity consistent or contain negative radial orders are outside the domain of rotate; '
          'inverses whose intermediate products exceed Lmax within the requested order are not generated')
TOL = 1e-10
ENVKEY = 'VMON_TAYLOR_LMAX'
LMAXES = (2, 3, 4, 5, 6)


def cases(tier, seed):
    cs = []

    def add(kind, L, **kw):
        d = {'seed': seed, 'idx': len(cs), 'kind': kind, 'Lmax': L, 'hashseed': 0, 'env': {ENVKEY: str(L)}}
        d.update(kw)
        cs.append(d)

    for L in LMAXES:
        for dim in (3, 2):
            add('rot-table', L, dim=dim, nmat=(3 if tier == 'quick' else 20))
    nops = 40 if tier == 'quick' else 3000
    for i in range(nops):
        L = 4 if i % 2 == 0 else (2, 3, 5, 6)[(i // 2) % 4]
        add('ops', L, trials=(6 if tier == 'quick' else 16))
    return cs


class Ctx:
    def __init__(self, mon, T, dim, L, rng):
        self.mon, self.T, self.dim, self.L, self.rng = mon, T, dim, L, rng
        self.I2P = [tuple(int(x) for x in t) for t in T.ind2pow]
        self.PLR = [int(x) for x in T.powlrange]
        self.deg = [sum(t) for t in self.I2P]
        self.desc = ''

    def A(self, raw, u, shape):
        return ref.evaluate(raw, u, self.I2P, self.PLR, shape=shape)


def class_call(t, u):
    fnu = {(n, l): (lambda x, n=n: x ** n) for (n, l, c) in t.coefflist}
    return np.asarray(t(np.array(u, dtype=float), fnu), dtype=complex)


def unchanged(t, raw):
    cl = t.coefflist
    return len(cl) == len(raw) and all(a[0] == b[0] and a[1] == b[1] and a[2].shape == b[2].shape and
                                       np.array_equal(a[2], b[2]) for a, b in zip(cl, raw))


def rot_scale(ctx, raw, M, p):
    Q = float(np.linalg.norm(np.abs(M) @ np.abs(p)))
    return max(1e-3, sum(float(np.sum([np.max(np.abs(c[i])) for i in range(c.shape[0])])) * max(Q, 1e-300) ** n for n, l, c in raw))


# ------------------------------------------------------------------------------------------ rotation table

def check_rot_table(ctx, nmat):
    mon, T, dim, L, rng = ctx.mon, ctx.T, ctx.dim, ctx.L, ctx.rng
    I2P, PLR, deg = ctx.I2P, ctx.PLR, ctx.deg
    N = len(I2P)
    kinds = ['general', 'shear', 'orth', 'diag', 'general', 'general', 'shear', 'general']
    for im in range(nmat):
        M, kind = ref.rand_matrix(rng, dim, kinds[im % len(kinds)])
        tag = '%dD Lmax=%d %s M=%s' % (dim, L, kind, M.tolist())
        mon.seen('matrix_kinds', kind)
        mon.sig(['rot-table', dim, L, kind, im])
        with mon.guard('C17:rotatedirections'):
            npt = np.asarray(T.rotatedirections(M.copy()))
            if not mon.check(npt.shape == (L + 1, N, N), 'C17:rot-table', '%s shape %s' % (tag, npt.shape)):
                continue
            pts = [ref.rand_unit(rng, dim) * rng.uniform(0.6, 1.2) for _ in range(3)]
            for p in pts:
                r = float(np.linalg.norm(p))
                monp = ref.monomials(p / r, I2P)
                q = M @ p
                monq = ref.monomials(q, I2P)
                rq = float(np.linalg.norm(q))
                Q = float(np.linalg.norm(np.abs(M) @ np.abs(p)))
                for n in range(L + 1):
                    got = r ** n * (npt[n][:PLR[n], :PLR[n]] @ monp[:PLR[n]])
                    exp = np.array([rq ** (n - deg[o]) * monq[o] for o in range(PLR[n])])
                    rows = [o for o in range(PLR[n]) if (n - deg[o]) % 2 == 0]
                    mon.close(got[rows], exp[rows], TOL, 'C17:rot-table',
                              lambda: '%s n=%d p=%s worst rows %s' % (tag, n, p.tolist(), [I2P[rows[i]] for i in np.argsort(-np.abs(got[rows] - exp[rows]))[:3]]),
                              scale=max(1., Q) ** n)
                    mon.count('rot_table_rows', len(rows))
                    mon.count('rotate_lower_degree_rows', sum(1 for o in rows if deg[o] < n))


# ------------------------------------------------------------------------------------------ rotate / irotate

def trial_rotate(ctx):
    mon, T, dim, L, rng = ctx.mon, ctx.T, ctx.dim, ctx.L, ctx.rng
    I2P, PLR = ctx.I2P, ctx.PLR
    mon.count('rot_trials_%dd' % dim)
    M, kind = ref.rand_matrix(rng, dim)
    M2, kind2 = ref.rand_matrix(rng, dim)
    if rng.uniform() < 0.25:
        M2, kind2 = np.linalg.inv(M), 'inverse'
    k, m = (int(x) for x in rng.integers(1, 4, size=2))
    shape = [(), (k,), (k, m)][int(rng.integers(3))]
    raw = ref.parity_consistent(rng, I2P, PLR, L, shape)
    nl = [(n, l) for n, l, c in raw]
    ctx.desc = '%dD Lmax=%d %s M=%s terms=%s shape=%s' % (dim, L, kind, np.round(M, 6).tolist(), nl, shape)
    mon.sig([dim, L, kind, nl, list(shape)])
    mon.seen('matrix_kinds', kind)
    if kind != 'orth': mon.count('nonorthogonal_rotations')
    if any(l < n for n, l in nl): mon.count('rotate_padded_terms')
    if any(np.max(np.abs(c[:PLR[l - 1]])) > 0 for n, l, c in raw if l >= 2): mon.count('rotate_lower_degree_rows')
    t = T(raw)
    pts = [ref.rand_unit(rng, dim) * rng.uniform(0.5, 1.1) for _ in range(3)]
    ev = lambda rw, u: ctx.A(rw, u, shape)

    def cmp(clause, tt, Mtot, npts=3):
        cl = tt.coefflist
        prob = ref.check_layout(cl, PLR)
        if not mon.check(prob is None, 'C17:layout', lambda: '%s %s: %s' % (ctx.desc, clause, prob)):
            return
        for p in pts[:npts]:
            exp = ev(raw, Mtot @ p)
            sc = rot_scale(ctx, raw, np.abs(Mtot), p) if Mtot is M else rot_scale(ctx, raw, np.abs(M) @ np.abs(M2), p)
            det = lambda: '%s p=%s' % (ctx.desc, p.tolist())
            mon.close(ev(cl, p), exp, TOL, 'C17:' + clause, det, scale=sc)
            with mon.guard('C17:rotate-call'):
                mon.close(class_call(tt, p), exp, TOL, 'C17:rotate-call', lambda: clause + ' ' + det(), scale=sc)

    with mon.guard('C17:rotate'):
        Mc = M.copy()
        npt = T.rotatedirections(Mc)
        mon.check(np.array_equal(Mc, M), 'C17:rotate', 'rotatedirections modified its argument')
        tr = t.rotate(npt)
        mon.check(unchanged(t, raw), 'C17:rotate', ctx.desc + ' rotate modified its operand')
        mon.check(all(l == n for n, l, c in tr.coefflist) and [n for n, l, c in tr.coefflist] == [n for n, l in nl], 'C17:rotate',
                  lambda: '%s rotated terms %s' % (ctx.desc, [x[:2] for x in tr.coefflist]))
        cmp('rotate', tr, M)
    with mon.guard('C17:irotate'):
        t2 = t.copy()
        r2 = t2.irotate(npt)
        mon.check(r2 is t2, 'C17:irotate', 'irotate does not return self')
        same = len(t2.coefflist) == len(tr.coefflist) and all(x[:2] == y[:2] and x[2].shape == y[2].shape and np.array_equal(x[2], y[2])
                                                              for x, y in zip(t2.coefflist, tr.coefflist))
        mon.check(same, 'C17:irotate', ctx.desc + ' irotate differs from rotate')
        cmp('irotate', t2, M, 1)
    with mon.guard('C17:rotate-reduce'):
        trr = tr.copy().reduce()
        cmp('rotate-reduce', trr, M, 2)
        if any(l < n for n, l, c in trr.coefflist): mon.count('reduced_rotated_lowered_l')
    with mon.guard('C17:rotate-compose'):
        npt2 = T.rotatedirections(M2.copy())
        for src in (tr, trr):
            t3 = src.rotate(npt2)
            cmp('rotate-compose', t3, M @ M2, 2)
        mon.seen('second_matrix_kinds', kind2)
    return ctx.desc


# ------------------------------------------------------------------------------------------ inverse

def rand_lead(rng, shape):
    if shape == ():
        return np.asarray(rng.uniform(0.6, 1.8) * np.exp(2j * np.pi * rng.uniform()))
    k = shape[0]
    q1, _ = np.linalg.qr(rng.normal(size=(k, k)) + 1j * rng.normal(size=(k, k)))
    q2, _ = np.linalg.qr(rng.normal(size=(k, k)) + 1j * rng.normal(size=(k, k)))
    return q1 @ np.diag(rng.uniform(0.6, 1.8, size=k)) @ q2


def mul(A, B):
    return A * B if (np.ndim(A) == 0 or np.ndim(B) == 0) else A @ B


def trial_inv(ctx):
    mon, T, dim, L, rng = ctx.mon, ctx.T, ctx.dim, ctx.L, ctx.rng
    I2P, PLR = ctx.I2P, ctx.PLR
    mon.count('inv_trials_%dd' % dim)
    n0 = int(rng.integers(0, 4))
    J = int(rng.integers(0, L + 1))
    if rng.uniform() < 0.3: J = L
    Nmax = J - n0
    k = int(rng.integers(1, 4))
    shape = () if rng.uniform() < 0.3 else (k, k)
    # higher terms (order n0+kk, angular order l): every product of them of total order <= J stays within Lmax
    tail = []
    for attempt in range(60):
        nt = int(rng.integers(0, 4)) if attempt < 59 else 0
        ks = sorted(rng.choice(np.arange(1, max(J, 1) + 2), size=min(nt, max(J, 1) + 1), replace=False).tolist())
        if ks and attempt < 30 and rng.uniform() < 0.5:
            ks = sorted(set([1] + ks[1:]))  # a first-order term: the series reaches its higher powers
        style = rng.uniform()
        cand = []
        for kk in ks:
            if style < 0.4: l = int(rng.integers(0, min(kk, L) + 1))       # l <= order
            elif style < 0.7: l = min(L, kk + n0) if (kk + n0) <= L else int(rng.integers(0, L + 1))  # as in the GF: l = n
            else: l = int(rng.integers(0, L + 1))
            cand.append((int(kk), l))
        if max(ref.max_l_by_order(cand, J)) <= L:
            tail = cand
            break
    A = rand_lead(rng, shape)
    raw = [(n0, 0, np.asarray(A, dtype=complex).reshape((1,) + shape))]
    raw += [(n0 + kk, l, 0.3 * ref.rand_array(rng, (PLR[l],) + shape)) for kk, l in tail]
    order = list(range(len(raw)))
    if rng.uniform() < 0.3: order = [int(x) for x in rng.permutation(len(raw))]
    stored = [raw[i] for i in order]
    nl = [(n, l) for n, l, c in raw]
    ctx.desc = '%dD Lmax=%d inv(Nmax=%d) terms=%s shape=%s stored order %s' % (dim, L, Nmax, nl, shape, order)
    mon.sig([dim, L, Nmax, nl, list(shape)])
    mon.seen('inv_Nmax', Nmax)
    mon.seen('inv_lead_order', n0)
    if shape != (): mon.count('inv_matrix_lead')
    kmin = min([kk for kk, l in tail] + [10 ** 6])
    if tail and J // kmin >= 2: mon.count('inv_series_terms_ge2')
    if tail and J // kmin >= 1: mon.count('inv_series_terms_ge1')
    t = T(stored)
    ti = None
    with mon.guard('C17:inv'):
        ti = t.inv(Nmax)
    if ti is None:
        return ctx.desc
    mon.check(unchanged(t, stored), 'C17:inv-orders', ctx.desc + ' inv modified its operand')
    prob = ref.check_layout(ti.coefflist, PLR)
    if not mon.check(prob is None, 'C17:layout', lambda: '%s inverse: %s' % (ctx.desc, prob)):
        return ctx.desc
    ns = [n for n, l, c in ti.coefflist]
    mon.check(len(ns) > 0 and min(ns) == -n0 and max(ns) <= Nmax, 'C17:inv-orders',
              lambda: '%s inverse has orders %s' % (ctx.desc, [x[:2] for x in ti.coefflist]))
    one = np.asarray(1. + 0j) if shape == () else np.eye(shape[0], dtype=complex)
    Ainv = 1. / A if shape == () else np.linalg.inv(A)
    nA, nAi = float(np.linalg.norm(A, 2) if shape != () else abs(A)), float(np.linalg.norm(Ainv, 2) if shape != () else abs(Ainv))
    units = [ref.rand_unit(rng, dim) for _ in range(4)]
    Tas = [ref.angular(raw, uh, I2P, PLR, shape=shape) for uh in units]
    rowsum = lambda cl: sum(float(np.sum([np.max(np.abs(c[i])) for i in range(c.shape[0])])) for n, l, c in cl)
    # natural scale of the coefficient-wise comparison: no-cancellation bound on the coefficients of the product
    cscale = 1. + rowsum(ti.coefflist) * rowsum(raw) * (shape[0] if shape else 1)
    mon.note_max('inv_coeff_scale', cscale)
    # (1) independent: angular factors order by order at random unit vectors, both products
    for uh, Ta in zip(units, Tas):
        Ia = ref.angular(ti.coefflist, uh, I2P, PLR, shape=shape)
        for mm in range(J + 1):
            left = np.zeros(shape, dtype=complex)
            right = np.zeros(shape, dtype=complex)
            for nI, vI in Ia.items():
                nT = mm - nI
                if nT in Ta:
                    left = left + mul(vI, Ta[nT])
                    right = right + mul(Ta[nT], vI)
            exp = one if mm == 0 else np.zeros(shape, dtype=complex)
            # natural scale of this order: sum of the norms of the products that have to cancel
            scale = 1. + sum(float(np.linalg.norm(vI)) * float(np.linalg.norm(Ta[mm - nI])) for nI, vI in Ia.items() if (mm - nI) in Ta)
            mon.note_max('inv_identity_scale', scale)
            det = lambda: '%s order %d of the product at unit vector %s' % (ctx.desc, mm, uh.tolist())
            mon.close(left, exp, 1e-9, 'C17:inv-identity', lambda: 'inv*T ' + det(), scale=scale)
            mon.close(right, exp, 1e-9, 'C17:inv-identity', lambda: 'T*inv ' + det(), scale=scale)
    # (2) the class's own product, truncated at the guaranteed order and reduced: coefficient-wise the identity
    with mon.guard('C17:inv-coeff'):
        for name, prod in (('inv*T', ti * t), ('T*inv', t * ti)):
            pr = prod.truncate(J)
            pr.reduce()
            found = False
            for n, l, c in pr.coefflist:
                exp = np.zeros(c.shape, dtype=complex)
                if n == 0:
                    exp[0] = one
                    found = True
                mon.close(c, exp, 1e-9, 'C17:inv-coeff', lambda: '%s %s after truncate(%d).reduce(): entry (%d,%d)' % (ctx.desc, name, J, n, l), scale=cscale)
            mon.check(found, 'C17:inv-coeff', lambda: '%s %s has no order-0 term: %s' % (ctx.desc, name, [x[:2] for x in pr.coefflist]))
            if len(pr.coefflist) == 1 and pr.coefflist[0][:2] == (0, 0): mon.count('inv_product_reduced_to_identity')
    # (3) the class evaluates the inverse (negative radial orders) like the reference
    with mon.guard('C17:inv-call'):
        u = ref.rand_unit(rng, dim) * rng.uniform(0.5, 1.1)
        vref = ctx.A(ti.coefflist, u, shape)
        mon.close(class_call(ti, u), vref, TOL, 'C17:inv-call', ctx.desc, scale=rowsum(ti.coefflist) * 2. ** n0)
    return ctx.desc


def run_case(case):
    from onsager import PowerExpansion as PE
    mon = Mon()
    L = int(case['Lmax'])
    rng = gen.rng_for(case['seed'], case['idx'], 17)
    PE.Taylor3D(Lmax=L)
    PE.Taylor2D(Lmax=L)
    if PE.Taylor3D.Lmax != L or PE.Taylor2D.Lmax != L:
        return mon.result(inconclusive='worker already initialised with Lmax=%s, case needs %s' % (PE.Taylor3D.Lmax, L))
    sample = None
    if case['kind'] == 'rot-table':
        T = PE.Taylor3D if case['dim'] == 3 else PE.Taylor2D
        ctx = Ctx(mon, T, case['dim'], L, rng)
        check_rot_table(ctx, int(case.get('nmat', 3)))
        sample = {'kind': 'rot-table', 'dim': case['dim'], 'Lmax': L}
    else:
        for k in range(int(case.get('trials', 6))):
            dim = 3 if (k + case['idx']) % 2 == 0 else 2
            T = PE.Taylor3D if dim == 3 else PE.Taylor2D
            ctx = Ctx(mon, T, dim, L, rng)
            d1 = trial_rotate(ctx)
            d2 = trial_inv(ctx)
            if sample is None: sample = {'kind': 'ops', 'rotate': d1, 'inverse': d2}
    return mon.result(sample=sample)
