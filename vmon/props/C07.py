"""C07: results do not depend on the thermodynamic range beyond the interactions.

Monitor: two calculators A(Nthermo=N) and B(N+1) of the same crystal/network receive the SAME tag dictionary - random
(prefactor, energy) for every tag class of A, supplied under a randomly chosen member tag - through tags2preene (missing
classes back-filled by the package default) and preene2betafree; all four Lij tensors must coincide.
"""
import numpy as np
from vmon import gen, work_vac
from vmon.util import Mon

ID = 'C07'
RULE = ('crystal pool (1- and 2-site bases, with and without origin states, 2-D/3-D) x (N,N+1) in {(1,2),(2,3)} x random tag '
        'data (prefactors [0.5,2], energies N(0,sigma)) for every class of the smaller calculator under a random member tag; '
        'non-trivial = every case (interactions and rates are non-uniform); distinct = (crystal, N, input index)')
ASSUMPTIONS = ['both calculators evaluate the same Green function at more points: tolerance 1e-7 x scale (round-off plus cache '
               'interpolation; observed <= 1e-12)', 'every tag of A is a tag of B (checked: clause C07:tags-carry-over)']
REQUIRED_OBS = {'eval:C07:Lss': 12, 'eval:C07:L1vv': 12, 'eval:C07:tags-carry-over': 6, 'pairs_23': 1}
CASE_TIMEOUT = 1500
QUICK = [('fcc', 1), ('sc', 1), ('square', 1), ('honey', 1), ('hcp', 1), ('dtria', 1), ('square', 2), ('bcc', 1), ('omega', 1)]
THOROUGH = QUICK + [('tria', 1), ('lieb', 1), ('diamond', 1), ('fcc', 2), ('sc', 2), ('honey', 2), ('tria', 2), ('bcc', 2),
                    ('rect', 1), ('b2', 1), ('rumpled', 1), ('kagome', 1)]


def cases(tier, seed):
    pool = QUICK if tier == 'quick' else THOROUGH
    return [{'seed': seed, 'idx': ci, 'name': n, 'N': t, 'ninputs': 3 if tier == 'quick' else 10, 'hashseed': ci % 3}
            for ci, (n, t) in enumerate(pool)]


def run_case(case):
    mon = Mon()
    rng = gen.rng_for(case['seed'], case['idx'], 7)
    name, N = case['name'], case['N']
    A = work_vac.get_calc(name, N)
    B = work_vac.get_calc(name, N + 1)
    mon.count('pairs_23', N == 2)
    sample = None
    allB = set(t for lst in B.tags.values() for cl in lst for t in cl)
    missing = [t for lst in A.tags.values() for cl in lst for t in cl if t not in allB]
    mon.check(not missing, 'C07:tags-carry-over', 'tags of the smaller calculator unknown to the larger: %s' % missing[:5])
    for k in range(case['ninputs']):
        sigma = float(rng.choice([0.3, 0.7, 1.2]))
        tagdict = {}
        for ttype, lst in A.tags.items():
            for cl in lst:
                member = cl[int(rng.integers(len(cl)))]
                e0 = 3. if ttype.startswith('omega') else 0.
                tagdict[member] = (float(rng.uniform(0.5, 2)), float(rng.normal() * sigma + e0))
        kT = float(rng.uniform(0.6, 1.5))
        desc = {'crystal': name, 'N': N, 'kT': kT, 'tagdict': tagdict}
        if sample is None: sample = desc
        mon.sig([name, N, k])
        try:
            dA = A.tags2preene(tagdict)
            dB = B.tags2preene(tagdict)
            LA = [np.array(x) for x in A.Lij(*A.preene2betafree(kT, **dA))]
            LB = [np.array(x) for x in B.Lij(*B.preene2betafree(kT, **dB))]
        except Exception as e:
            import traceback
            mon.fail('C07:raises:' + type(e).__name__, traceback.format_exc()[-600:] + str(desc))
            continue
        tags = work_vac.regime_tags(A, list(A.preene2betafree(kT, **dA)))
        sc = max(np.abs(LA[0]).max(), np.abs(LA[1]).max(), 1e-300)
        for nm, a, b in zip(('L0vv', 'Lss', 'Lsv', 'L1vv'), LA, LB):
            mon.close(a, b, 1e-7, 'C07:' + nm, lambda: 'A=%s B=%s %s' % (a.tolist(), b.tolist(), desc), tags, scale=max(sc, np.abs(a).max()))
    A.clearcache()
    B.clearcache()
    return mon.result(sample=sample)
