"""C22: k-point mesh reduction integrates symmetric functions exactly.

Contract on the real Crystal.fullkptmesh / reducekptmesh: every k lies in the first Brillouin zone (tested
against an independently generated, larger set of reciprocal lattice vectors), the mesh is the complete
uniform mesh modulo the reciprocal lattice, the reduced weights are positive and sum to one, and the reduced
weighted average of random invariant periodic functions  f(k) = sum_{R in point-group orbit} exp(i k.R)
(real and imaginary part) equals the full-mesh average.  The point group comes from the independent
brute-force space group (vmon.ref.geom.full_group).

Directed family 'bzfold' (cheap clauses only: in-first-BZ, mesh count/completeness, termination): strongly anisotropic
face-/body-centred orthorhombic and triclinic 3-D lattices (14-face zones, where folding a point across one zone plane
pushes it across planes that were already passed) x batches of anisotropic meshes, a few thousand (lattice, mesh)
pairs per quick run; the number of mesh points that need three or more folding sweeps is counted.
"""
import itertools, signal
import numpy as np
from vmon import gen
from vmon.util import Mon
from vmon.ref import geom, pointgroups as pg

ID = 'C22'
RULE = ('random crystals (all 11 3-D and 5 2-D lattice systems, 1-3 orbits, 1-2 species, 40% in a random rigid orientation, plus '
        'skewed strained FCC/BCC/hexagonal cells, and 30% symmetric lattices with a generic low-symmetry decoration; 30% re-described in a singly sheared non-reduced cell with noreduce=True; reduction clauses only when the repository still finds the complete group there) x random meshes (each division 1..7 (3-D) / 1..12 (2-D); isotropic even, isotropic '
        'odd, anisotropic mixed) x 6 random lattice-vector shells per mesh; non-trivial = mesh with more than one point; '
        'distinct = (kind, |G|, mesh). Directed family bzfold (cases with family=bzfold; in-first-BZ / count / completeness / '
        'termination only): one-atom crystals on face-centred and body-centred orthorhombic lattices with axes a,b,c '
        '1 : r1 : r2 (r1 log-uniform in 1.15..2.4, r2/r1 in 1.1..3.5: three different axes, ratios up to 8.4; random axis '
        'permutation, overall scale 0.6..1.6) and triclinic lattices (60% 1 + 0.3 x normal, 20% fully normal, 20% '
        'diag(0.4..2.5) x (1 + 0.3 x normal); |det| >= 0.05, condition number < 40), 40% in a random rigid orientation, each with a '
        'batch of meshes, every division 1..8 independently (three quarters of the batch 3..8), > 1 and <= 600 points; distinct = '
        '(kind, rounded lattice, mesh)')
ASSUMPTIONS = ['a fullkptmesh call that has not returned after 60 s (normal: < 1 s) is reported as non-terminating',
               'Brillouin-zone membership |k|^2 <= |k-G|^2 + 1e-9 |G|^2 over all reciprocal vectors with indices |m| <= 5 (<= 8 for sheared cells; the '
               'repository builds its zone from |m| <= 3); in the directed family only the vectors with |G| <= 2 max|k| of the returned mesh are '
               'evaluated (no other vector can be violated or touched by a point of that mesh)',
               'averages compared to 1e-12 x (number of terms in the shell); mesh points compared in reduced coordinates to 1e-9',
               'coverage counters points/pairs_needing_3_sweeps (not oracles): the returned points are wrapped back to the raw mesh '
               '(reduced coordinates in (-1/2, 1/2]) and the documented folding (sweep over the zone-face vectors in the order of '
               'the attribute Crystal.BZG, fold where k.G > G.G, repeat until nothing moves) is replayed on them; a point counts '
               'when the third sweep still folds it. The in-first-BZ oracle itself never uses Crystal.BZG']
REQUIRED_OBS = {'meshes_checked': 100, 'eval:C22:in-first-BZ': 100, 'eval:C22:full-mesh-complete': 100, 'eval:C22:weights-sum': 100,
                'eval:C22:invariant-average': 500, 'mesh:even': 10, 'mesh:odd': 10, 'mesh:anisotropic': 20, 'dim2_meshes': 20,
                'dim3_meshes': 20, 'reduced_smaller': 50, 'folded_points': 100, 'boundary_points': 20, 'nonzero_averages': 100, 'sheared_cells': 8, 'low_symmetry_on_symmetric_lattice': 10,
                'directed_pairs': 2000, 'directed_lattices': 100, 'directed:orthoF-aniso': 500, 'directed:orthoI-aniso': 500,
                'directed:tric-aniso': 500, 'directed:tric-unreduced': 400, 'directed_mesh:anisotropic': 1500, 'directed_folded_points': 1000, 'pairs_needing_2_sweeps': 100, 'pairs_needing_3_sweeps': 10, 'points_needing_3_sweeps': 10}
CASE_TIMEOUT = 600
EXTRA_KINDS = ('strainF', 'strainI', 'strainH3', 'strainH2')
LOWSYM_KINDS = ('cubicP', 'cubicF', 'cubicI', 'tetP', 'ortho', 'hex', 'square', 'rect', 'hex2', 'crect')


MESH_DEADLINE = 60


class MeshTimeout(BaseException):
    pass


class deadline:
    """SIGALRM-based time limit for one repository call (the worker runs cases in its main thread)."""
    def __init__(self, seconds): self.seconds = seconds

    def __enter__(self):
        def handler(signum, frame): raise MeshTimeout()
        self.old = signal.signal(signal.SIGALRM, handler)
        signal.alarm(self.seconds)

    def __exit__(self, *exc):
        signal.alarm(0)
        signal.signal(signal.SIGALRM, self.old)
        return False


def cases(tier, seed):
    n = 48 if tier == 'quick' else 1000
    main = [{'seed': seed, 'idx': i, 'hashseed': i % (5 if tier == 'quick' else 7), 'ncrys': 2 if tier == 'quick' else 3, 'nmesh': 3,
             'maxpts': 400 if tier == 'quick' else 1500} for i in range(n)]
    nd = 12 if tier == 'quick' else 150
    directed = [{'seed': seed, 'idx': 100000 + i, 'hashseed': i % (5 if tier == 'quick' else 7), 'family': 'bzfold', 'nlatt': 12,
                 'nmesh': 20, 'maxpts': 600} for i in range(nd)]
    # directed cases first in the quick tier: they are the longer ones
    return directed + main


def make_crystal(rng, crystal):
    if rng.uniform() < 0.2:
        kind = str(rng.choice(EXTRA_KINDS))
        base = {'strainF': 'cubicF', 'strainI': 'cubicI', 'strainH3': 'hex', 'strainH2': 'hex2'}[kind]
        L = gen.lattice(base, rng)
        e = rng.normal(size=L.shape) * 0.05
        L = (np.eye(L.shape[0]) + 0.5 * (e + e.T)) @ L
        dim = L.shape[0]
        basis = [[np.zeros(dim)]] if rng.uniform() < 0.5 else [[np.zeros(dim), rng.uniform(0.3, 0.7, size=dim)]]
        return crystal.Crystal(L, basis), kind, False
    if rng.uniform() < 0.3:
        # symmetric lattice, generic decoration: the mesh has more symmetry than the crystal, so merging points that
        # are related by a lattice symmetry only would be visible
        kind = str(rng.choice(LOWSYM_KINDS))
        L = gen.lattice(kind, rng)
        dim = L.shape[0]
        for attempt in range(50):
            pos = [rng.uniform(size=dim) for _ in range(int(rng.integers(2, 4)))]
            if gen.mindist(L, pos) > 0.2: break
        if rng.uniform() < 0.4:      # keep the inversion centre only
            pos = [pos[0], -pos[0] + 1.] + ([np.zeros(dim)] if gen.mindist(L, [pos[0], -pos[0] + 1., np.zeros(dim)]) > 0.2 else [])
            return crystal.Crystal(L, [[np.array(u) for u in pos[:2]]] + ([[pos[2]]] if len(pos) > 2 else [])), kind + '+inv', False
        return crystal.Crystal(L, [[np.array(u) for u in pos[:-1]], [np.array(pos[-1])]]), kind + '+generic', False
    spec = gen.rand_crystal_spec(rng, nchem=int(rng.integers(1, 3)), maxatoms=6)
    dim = spec['dim']
    rotated = bool(rng.uniform() < 0.4)
    Q = pg.random_rotation(rng, dim) if rotated else np.eye(dim)
    return crystal.Crystal(Q @ np.array(spec['latt']), [[np.array(u) for u in lst] for lst in spec['basis']]), spec['kind'], rotated


def rand_mesh(rng, dim, maxpts):
    hi = 8 if dim == 3 else 13
    for t in range(100):
        mode = int(rng.integers(4))
        if mode == 0:
            N = [2 * int(rng.integers(1, hi // 2 + 1))] * dim
        elif mode == 1:
            N = [2 * int(rng.integers(0, hi // 2)) + 1] * dim
        else:
            N = [int(rng.integers(1, hi)) for _ in range(dim)]
        if 1 < int(np.prod(N)) <= maxpts: return N
    return [2] * dim


DIRECTED_KINDS = ('orthoF-aniso', 'orthoI-aniso', 'tric-aniso', 'tric-unreduced')


def aniso_lattice(rng, kind):
    """Strongly anisotropic centred-orthorhombic / triclinic lattice (columns = lattice vectors)."""
    for attempt in range(200):
        if kind in ('orthoF-aniso', 'orthoI-aniso'):
            # three different axes 1 : r1 : r2 (a lattice with two equal axes is tetragonal: another family)
            r1 = np.exp(rng.uniform(np.log(1.15), np.log(2.4)))
            r2 = r1 * np.exp(rng.uniform(np.log(1.1), np.log(3.5)))
            a, b, c = (np.array([1., r1, r2]) * np.exp(rng.uniform(np.log(0.6), np.log(1.6))))[rng.permutation(3)]
            if kind == 'orthoF-aniso':
                L = np.array([[0., b / 2, c / 2], [a / 2, 0., c / 2], [a / 2, b / 2, 0.]]).T
            else:
                L = np.array([[-a / 2, b / 2, c / 2], [a / 2, -b / 2, c / 2], [a / 2, b / 2, -c / 2]]).T
        else:
            mode = int(rng.choice([0, 0, 0, 1, 2]))
            if mode == 0: L = np.eye(3) + 0.3 * rng.normal(size=(3, 3))
            elif mode == 1: L = rng.normal(size=(3, 3))
            else: L = np.diag(np.exp(rng.uniform(np.log(0.4), np.log(2.5), size=3))) @ (np.eye(3) + 0.3 * rng.normal(size=(3, 3)))
        if abs(np.linalg.det(L)) >= 0.05 and np.linalg.cond(L) < 40: return L
    return np.array([[1., 0.21, 0.17], [0., 0.93, 0.26], [0., 0., 1.08]])


def sweeps_needed(kraw, BZG, maxsweeps=12):
    """Replay of the documented folding on the raw mesh points (coverage counter only): number of sweeps over the
    zone-face vectors, in the given order, in which a point is still folded (0 = the raw point is inside)."""
    k = np.array(kraw, dtype=float)
    Gs = [np.asarray(G, dtype=float) for G in BZG]
    G2 = [float(G @ G) * (1 + 1e-12) for G in Gs]
    nsw = np.zeros(len(k), dtype=int)
    for sweep in range(maxsweeps):
        moved = np.zeros(len(k), dtype=bool)
        for G, g2 in zip(Gs, G2):
            m = k @ G > g2
            if m.any():
                k[m] -= 2. * G
                moved |= m
        if not moved.any(): break
        nsw[moved] += 1
    return nsw


def run_directed(case, mon, rng, crystal):
    """Cheap clauses on many (anisotropic low-symmetry 3-D lattice, mesh) pairs."""
    sample = None
    big = 7
    Gidx = np.array([m for m in itertools.product(range(-big, big + 1), repeat=3) if any(m)])
    for kl in range(case['nlatt']):
        kind = DIRECTED_KINDS[(kl + case['idx']) % len(DIRECTED_KINDS)]
        L0 = aniso_lattice(rng, 'tric-aniso' if kind == 'tric-unreduced' else kind)
        if rng.uniform() < 0.4: L0 = pg.random_rotation(rng, 3) @ L0
        crys = None
        with mon.guard('C22:construct'):
            crys = crystal.Crystal(L0, [[np.zeros(3)]])
            if kind == 'tric-unreduced':
                # the reduced cell with one or two elementary shears, taken as given (noreduce=True, the default of fromdict / YAML input):
                # the shortest reciprocal vector is then a combination of the reciprocal basis vectors
                M = np.eye(3, dtype=int)
                for _ in range(int(rng.integers(1, 3))):
                    a, b = rng.choice(3, size=2, replace=False)
                    E = np.eye(3, dtype=int); E[a, b] = int(rng.choice([-1, 1]))
                    M = M @ E
                crys = crystal.Crystal(np.array(crys.lattice) @ M, [[np.zeros(3)]], noreduce=True)
        if crys is None: continue
        L = np.array(crys.lattice, dtype=float)
        B = 2 * np.pi * np.linalg.inv(L).T
        Gv = Gidx @ B.T
        G2 = np.einsum('ij,ij->i', Gv, Gv)
        mon.count('directed_lattices')
        BZG = None
        try:
            BZG = [np.array(G, dtype=float) for G in crys.BZG]
            mon.seen('directed_zone_faces', len(BZG))
        except Exception:
            mon.count('directed_no_BZG_attribute')
        lens = np.sort(np.linalg.norm(L, axis=0))
        mon.note_max('directed_axis_ratio', float(lens[2] / lens[0]))
        for km in range(case['nmesh']):
            lo = 3 if km % 4 else 1
            for t in range(100):
                N = [int(rng.integers(lo, 9)) for _ in range(3)]
                if 1 < int(np.prod(N)) <= case['maxpts']: break
            else:
                N = [2, 3, 4]
            nk = int(np.prod(N))
            mtags = ['directed-anisotropic', kind, 'anisotropic-mesh' if len(set(N)) > 1 else 'isotropic-mesh']
            desc = {'kind': kind, 'lattice': L, 'basis': crys.basis, 'Nmesh': N, 'hashseed': case.get('hashseed')}
            if sample is None: sample = desc
            kpts = None
            try:
                with mon.guard('C22:fullkptmesh'), deadline(MESH_DEADLINE):
                    kpts = crys.fullkptmesh(N)
            except MeshTimeout:
                mon.check(False, 'C22:fullkptmesh-terminates', lambda: 'no result within %d s %s' % (MESH_DEADLINE, desc), tags=mtags)
                return sample
            mon.check(True, 'C22:fullkptmesh-terminates')
            if kpts is None:
                mon.check(False, 'C22:fullkptmesh-returns-mesh', lambda: str(desc))
                continue
            kpts = np.asarray(kpts, dtype=float)
            mon.count('directed_pairs')
            mon.count('directed:' + kind)
            if len(set(N)) > 1: mon.count('directed_mesh:anisotropic')
            elif N[0] % 2 == 0: mon.count('directed_mesh:even')
            else: mon.count('directed_mesh:odd')
            mon.sig([kind, np.round(L, 3).tolist(), N])
            if not mon.check(kpts.shape == (nk, 3), 'C22:full-mesh-count', lambda: 'shape %s for %s' % (kpts.shape, desc)):
                continue
            # 2 k.G > G.G needs |G| < 2 |k|: only those reciprocal vectors can be violated by (or touch) a point of this mesh
            kmax2 = float(np.max(np.einsum('ij,ij->i', kpts, kpts)))
            near = G2 <= 4 * kmax2 * (1 + 1e-6)
            if near.any():
                rel = (2 * kpts @ Gv[near].T - G2[near][None, :]) / G2[near][None, :]
                worst = float(np.max(rel))
                nout = int(np.sum(np.any(rel > 1e-9, axis=1)))
                nbound = int(np.sum(np.any(np.abs(rel) <= 1e-9, axis=1)))
            else:
                worst, nout, nbound = -1., 0, 0
            mon.check(worst <= 1e-9, 'C22:in-first-BZ', lambda: '%d of %d points outside, max (2k.G-G.G)/G.G = %.3e %s' % (
                nout, nk, worst, desc), tags=mtags)
            mon.count('directed_boundary_points', nbound)
            frac = kpts @ L / (2 * np.pi)
            scaled = frac * np.array(N)[None, :]
            rel = scaled - scaled[0][None, :]
            onmesh = float(np.max(np.abs(rel - np.round(rel))))
            idx = np.mod(np.round(rel).astype(int), np.array(N)[None, :])
            cells = {tuple(r) for r in idx.tolist()}
            mon.check(onmesh < 1e-9 and len(cells) == nk, 'C22:full-mesh-complete',
                      lambda: 'off-mesh %.2e, %d distinct points of %d %s' % (onmesh, len(cells), nk, desc), tags=mtags)
            mon.count('directed_folded_points', int(np.sum(np.any(np.abs(frac) > 0.5 + 1e-9, axis=1))))
            # coverage: how many sweeps over the zone planes does the raw mesh need?
            if BZG is not None:
                f = frac - np.round(frac)
                f[f < -0.5 + 1e-9] += 1.
                nsw = sweeps_needed(f @ B.T, BZG)
                for thr in (2, 3, 4):
                    c = int(np.sum(nsw >= thr))
                    mon.count('points_needing_%d_sweeps' % thr, c)
                    mon.count('pairs_needing_%d_sweeps' % thr, c > 0)
                    if thr == 3 and c > 0: mon.count('pairs_needing_3_sweeps:' + kind)
                mon.note_max('max_sweeps', int(nsw.max()))
    return sample


def run_case(case):
    from onsager import crystal
    mon = Mon()
    rng = gen.rng_for(case['seed'], case['idx'], 22)
    if case.get('family') == 'bzfold':
        sample = run_directed(case, mon, rng, crystal)
        return mon.result(sample=sample)
    sample = None
    for kc in range(case['ncrys']):
        crys, kind, rotated = make_crystal(rng, crystal)
        dim = crys.dim
        L = crys.lattice
        B = 2 * np.pi * np.linalg.inv(L).T            # reciprocal lattice, columns (independent of crys.reciplatt)
        refG = geom.full_group(L, crys.basis)
        Linv = np.linalg.inv(L)
        rots = []
        for (M, t, _) in refG:
            R = L @ M @ Linv
            if not any(np.allclose(R, R2, atol=1e-9) for R2 in rots): rots.append(R)
        mon.seen('point_group_orders', len(rots))
        if '+generic' in kind or '+inv' in kind: mon.count('low_symmetry_on_symmetric_lattice')
        ctags = []
        reduction_ok = True
        if rng.uniform() < case.get('psheared', 0.3):
            # the same crystal described in a sheared (non-reduced) cell, taken as is (noreduce=True): the zone needs
            # reciprocal vectors with larger indices; the point group (Cartesian) is the one found on the reduced cell
            M = np.eye(dim, dtype=int)
            a, b = rng.choice(dim, size=2, replace=False)
            M[a, b] += int(rng.choice([-2, -1, 1, 2]))      # one shear a_b -> a_b + m a_a: zone needs indices up to 1+|m| <= 3
            if abs(round(np.linalg.det(M))) == 1 and np.max(np.abs(np.linalg.inv(M))) < 3.5 and np.max(np.abs(M)) <= 2:
                Minv = np.linalg.inv(M)
                sheared = None
                with mon.guard('C22:construct-noreduce'):
                    sheared = crystal.Crystal(L @ M, [[Minv @ u for u in lst] for lst in crys.basis], noreduce=True)
                if sheared is not None and np.allclose(sheared.lattice, L @ M):
                    crys, L = sheared, sheared.lattice
                    Linv = np.linalg.inv(L)
                    B = 2 * np.pi * Linv.T
                    kind = kind + '+sheared'
                    ctags = ['noreduce-sheared-cell']
                    mon.count('sheared_cells')
                    # with noreduce=True the repository searches its operations in the given (sheared) basis and may find
                    # an incomplete, non-closed set (domain of C18); the reduction clauses need a group
                    reduction_ok = len(sheared.G) == len(refG)
                    mon.count('sheared_cells_with_complete_group', reduction_ok)
        big = 8 if ctags else 5
        Gidx = np.array([m for m in itertools.product(range(-big, big + 1), repeat=dim) if any(m)])
        Gv = Gidx @ B.T
        G2 = np.einsum('ij,ij->i', Gv, Gv)
        for km in range(case['nmesh']):
            N = rand_mesh(rng, dim, case['maxpts'])
            nk = int(np.prod(N))
            mtags = ctags + (['anisotropic-mesh'] if len(set(N)) > 1 else ['isotropic-mesh'])
            desc = {'kind': kind, 'lattice': L, 'basis': crys.basis, 'Nmesh': N, 'hashseed': case.get('hashseed')}
            if sample is None: sample = desc
            detail = lambda: str(desc)
            kpts = None
            try:
                with mon.guard('C22:fullkptmesh'), deadline(MESH_DEADLINE):
                    kpts = crys.fullkptmesh(N)
            except MeshTimeout:
                # a mesh of <= 1500 points normally takes well under a second
                mon.check(False, 'C22:fullkptmesh-terminates', lambda: 'no result within %d s %s' % (MESH_DEADLINE, desc),
                          tags=mtags)
                return mon.result(sample=sample)   # one witness per case is enough; do not wait for more
            mon.check(True, 'C22:fullkptmesh-terminates')
            if kpts is None:
                mon.check(False, 'C22:fullkptmesh-returns-mesh', detail)
                continue
            kpts = np.asarray(kpts, dtype=float)
            mon.count('meshes_checked')
            mon.count('dim%d_meshes' % dim)
            if len(set(N)) > 1: mon.count('mesh:anisotropic')
            elif N[0] % 2 == 0: mon.count('mesh:even')
            else: mon.count('mesh:odd')
            mon.sig([kind, len(refG), N])
            if not mon.check(kpts.shape == (nk, dim), 'C22:full-mesh-count', lambda: 'shape %s for %s' % (kpts.shape, desc)):
                continue
            # --- first Brillouin zone:  2 k.G <= G.G for every reciprocal lattice vector
            viol = 2 * kpts @ Gv.T - G2[None, :]
            worst = float(np.max(viol / G2[None, :]))
            mon.check(worst <= 1e-9, 'C22:in-first-BZ', lambda: 'max (2k.G-G.G)/G.G = %.3e %s' % (worst, desc),
                      tags=mtags)
            mon.count('boundary_points', int(np.sum(np.any(np.abs(viol) <= 1e-9 * G2[None, :], axis=1))))
            # --- complete uniform mesh modulo the reciprocal lattice
            frac = kpts @ L / (2 * np.pi)               # k = B f  =>  f = L^T k / 2 pi
            scaled = frac * np.array(N)[None, :]
            rel = scaled - scaled[0][None, :]             # uniform mesh, possibly shifted (odd N: half a step)
            onmesh = float(np.max(np.abs(rel - np.round(rel))))
            idx = np.mod(np.round(rel).astype(int), np.array(N)[None, :])
            cells = {tuple(r) for r in idx.tolist()}
            mon.check(onmesh < 1e-9 and len(cells) == nk, 'C22:full-mesh-complete',
                      lambda: 'off-mesh %.2e, %d distinct points of %d %s' % (onmesh, len(cells), nk, desc), tags=mtags)
            off = np.abs(scaled[0] - np.round(scaled[0]))
            mon.count('mesh_gamma_centred' if np.all(off < 1e-9) else 'mesh_shifted')
            mon.count('folded_points', int(np.sum(np.any(np.abs(frac) > 0.5 + 1e-9, axis=1))))
            # --- reduction
            if not reduction_ok:
                mon.count('reduction_skipped_incomplete_group')
                continue
            red = None
            with mon.guard('C22:reducekptmesh'):
                red = crys.reducekptmesh(kpts.copy())
            if red is None: continue
            ok = isinstance(red, tuple) and len(red) == 2
            if ok:
                ksym, w = np.asarray(red[0], dtype=float), np.asarray(red[1], dtype=float)
                ok = ksym.ndim == 2 and ksym.shape[1] == dim and w.shape == (ksym.shape[0],)
            if not mon.check(ok, 'C22:reduced-format', detail): continue
            mon.check(bool(np.all(w > 0)), 'C22:weights-positive', lambda: 'min weight %s %s' % (w.min(), desc))
            mon.close(w.sum(), 1., 1e-12, 'C22:weights-sum', detail)
            mon.check(len(w) <= nk, 'C22:reduced-not-larger', lambda: '%d reduced vs %d %s' % (len(w), nk, desc))
            if len(w) < nk: mon.count('reduced_smaller')
            mon.note_min('reduction_ratio', len(w) / nk)
            # reduced points are mesh points; weights are multiples of 1/Nk
            d2 = ((ksym[:, None, :] - kpts[None, :, :]) ** 2).sum(axis=2)
            mon.check(bool(np.all(d2.min(axis=1) < 1e-18 * max(1., float(G2.max())))), 'C22:reduced-points-from-mesh', detail)
            mon.close(w * nk, np.round(w * nk), 1e-9, 'C22:weights-are-point-counts', detail)
            # --- invariant periodic functions
            for sh in range(6):
                rmax = 1 + sh // 2
                n = rng.integers(-rmax - 1, rmax + 2, size=dim)
                if sh % 2 == 1:   # lattice vectors commensurate with the mesh: the only ones with a non-zero average
                    n = np.array(N) * rng.integers(-1, 2, size=dim)
                if not np.any(n): n[int(rng.integers(dim))] = N[0] if sh % 2 == 1 else 1
                R0 = L @ n
                shell = []
                for R in rots:
                    v = R @ R0
                    if not any(np.allclose(v, s, atol=1e-9) for s in shell): shell.append(v)
                shell = np.array(shell)
                # sanity of the oracle: shell vectors are lattice vectors
                c = shell @ Linv.T
                assert np.allclose(c, np.round(c), atol=1e-7)
                ffull = np.exp(1j * kpts @ shell.T).sum(axis=1)
                fred = np.exp(1j * ksym @ shell.T).sum(axis=1)
                full_avg = ffull.mean()
                red_avg = (w * fred).sum()
                mon.close(np.array([red_avg.real, red_avg.imag]), np.array([full_avg.real, full_avg.imag]), 1e-12,
                          'C22:invariant-average', lambda: 'shell of %s (%d vectors): reduced %s full %s %s' % (n.tolist(), len(shell), red_avg, full_avg, desc),
                          scale=len(shell), tags=mtags)
                mon.seen('shell_sizes', len(shell))
                if abs(full_avg) > 1e-6: mon.count('nonzero_averages')
    return mon.result(sample=sample)
