"""C36: value types obey equality, hashing and arithmetic laws.

Monitor: the real `==`, `!=`, `hash()` of crystal.GroupOp, crystalStars.PairState, cluster.ClusterSite,
cluster.Cluster and OnsagerCalc.vacancyThermoKinetics are evaluated on generated pools of instances
(for every base value: an exact copy, a copy whose floating-point fields are perturbed by ~1e-13, i.e.
far below the comparison tolerance, and clearly different values).  On the whole pool: reflexive,
symmetric, transitive (the pool contains no chain of merely-close values), `(a != b) == not (a == b)`,
`a == b => hash(a) == hash(b)`, and equality agrees with how the pool was constructed (copies equal,
clearly different values unequal).  PairState arithmetic: the identities documented in the docstrings
(`(a-b)+b == a`, `(b-a)+a == b`, `b+(a^b) == a`, `a+(b^a) == b`, `a+(-a)` and `(-a)+a` are zero states,
`-(-a) == a`, ArithmeticError when the end points do not match) including the Cartesian `dx`, and
commutation of `+ - neg ^` with the symmetry operations `g`.
"""
import copy
import numpy as np
from vmon import gen
from vmon.util import Mon

ID = 'C36'
RULE = ('per case one random 2-D and one random 3-D crystal (all lattice systems, 1-3 orbits, 1-2 species); pools: '
        'GroupOp = up to 5 operations of G, products and lattice-translated versions, and versions of one operation whose index map has '
        'a species appended / dropped / two images swapped, each with an exact copy and a 1e-13 perturbed copy; PairState/ClusterSite = random (i,j,R) / (ci,R) with copies, dx-perturbed copies and neighbours in '
        'index space; Cluster = random plain / transition / vacancy / vacancy-transition clusters with permuted and '
        'translated copies, plus collinear triples / parallelograms with the transition or vacancy on every (parallel) pair; '
        'vacancyThermoKinetics = random keys with copies, last-bit / -0.0 / 1e-13 perturbed copies and '
        'clearly different keys; non-trivial = every pool has >= 2 equality classes and >= 1 class with >= 2 members; '
        'distinct = (type, lattice kind, atoms, |G|)')
ASSUMPTIONS = ['perturbations are <= 1e-12 (comparison tolerances of the classes are 1e-8 absolute / 1e-5 relative); clearly '
               'different floating-point fields differ by >= 0.05',
               'transitivity is asserted only inside pools built as {base, copies, tiny perturbations, far values}; never '
               'along chains of values each within tolerance of the next',
               'PairState dx identities are compared to 1e-9 x (1 + |dx|) (algebraic identity on floats)',
               'integer fields are generated with the dtypes the library itself produces (platform int); mixed integer '
               'dtypes are not explored']
REQUIRED_OBS = {'eval:C36:GroupOp:eq-implies-hash': 200, 'eval:C36:PairState:eq-implies-hash': 200,
                'eval:C36:ClusterSite:eq-implies-hash': 200, 'eval:C36:Cluster:eq-implies-hash': 200,
                'eval:C36:vTK:eq-implies-hash': 500, 'eval:C36:vTK:ne-negates-eq': 1000,
                'eval:C36:GroupOp:transitive': 200, 'eval:C36:vTK:transitive': 100,
                'eval:C36:PairState:sub-add': 40, 'eval:C36:PairState:xor-add': 40, 'eval:C36:PairState:neg-zero': 40,
                'eval:C36:PairState:mismatch-raises': 20, 'eval:C36:PairState:g-add': 40, 'eval:C36:PairState:g-neg': 40,
                'equal_pairs_seen': 4000, 'unequal_pairs_seen': 50000, 'cluster_kinds': 40, 'structured_cluster_sets': 20}
CHUNK = 4
MIXED_DIM = False    # optional sub-workload: compare 2-D with 3-D instances (== must answer False, not raise); off: outside the quantifier
MIXED_SHAPE = False  # optional sub-workload: vacancyThermoKinetics keys with different array lengths; off: outside the quantifier
LIMITS = ['not explored (switchable with MIXED_DIM / MIXED_SHAPE): == between a 2-D and a 3-D GroupOp/PairState/ClusterSite and between '
          'vacancyThermoKinetics keys of different array lengths (both raise ValueError from numpy broadcasting on numpy >= 1.25)',
          'integer fields with mixed dtypes (e.g. an int32 rot) and list-valued indexmap/ci are not generated']
TINY = 1e-13


def cases(tier, seed):
    n = 32 if tier == 'quick' else 600
    return [{'seed': seed, 'idx': i, 'hashseed': i % 5} for i in range(n)]


class Batch:
    """Per-pool aggregation: every evaluation is counted, but a clause that fails many times on one pool is
    reported once (first witness + count), so that one mechanism cannot crowd out the others."""

    def __init__(self, mon):
        self.mon, self.d = mon, {}

    def check(self, cond, clause, detail='', tags=()):
        r = self.d.setdefault(clause, [0, 0, None, tuple(tags)])
        r[0] += 1
        if not cond:
            r[1] += 1
            if r[2] is None:
                r[2] = detail() if callable(detail) else detail
        return bool(cond)

    def flush(self):
        for clause, (n, bad, first, tags) in self.d.items():
            self.mon.count('eval:' + clause, n)
            self.mon.evals += n
            if bad:
                self.mon.fail(clause, '%d of %d evaluations failed on this pool; first: %s' % (bad, n, first), tags)
        self.d = {}


# ------------------------------------------------------------------------------------------
# generic laws on a pool: list of (object, class id); equal class id <=> built as equal values
# ------------------------------------------------------------------------------------------
def show(x):
    if type(x).__name__ == 'Cluster':
        return 'Cluster(transition=%s, vacancy=%s, sites=[%s])' % (x.__transition__, x.__vacancy__, ', '.join(str(cs) for cs in x.sites))
    return repr(x)


def laws(mon, T, pool, desc, tags_hash=()):
    pre = 'C36:%s:' % T
    n = len(pool)
    real_mon, mon = mon, Batch(mon)
    E = np.zeros((n, n), dtype=bool)
    ok_matrix = True
    for a in range(n):
        for b in range(n):
            x, y = pool[a][0], pool[b][0]
            try:
                e = x == y
            except Exception as ex:
                mon.check(False, pre + 'eq-total', '== raises %s: %s | a=%s b=%s %s' % (type(ex).__name__, ex, show(x), show(y), desc))
                ok_matrix = False
                continue
            mon.check(isinstance(e, (bool, np.bool_)), pre + 'eq-returns-bool', lambda: 'type %s a=%s b=%s' % (type(e), show(x), show(y)))
            E[a, b] = bool(e)
            try:
                ne = x != y
                mon.check(bool(ne) == (not bool(e)), pre + 'ne-negates-eq', lambda: '== gives %s, != gives %s | a=%s b=%s %s' % (e, ne, show(x), show(y), desc))
            except Exception as ex:
                mon.check(False, pre + 'ne-negates-eq:raises:' + type(ex).__name__, '!= raises %s | a=%s b=%s %s' % (ex, show(x), show(y), desc))
    if not ok_matrix:
        mon.flush()
        return
    hs = []
    for x, _ in pool:
        try:
            hs.append(hash(x))
        except Exception as ex:
            mon.check(False, pre + 'hashable', 'hash raises %s: %s | %r' % (type(ex).__name__, ex, x))
            mon.flush()
            return
    for a in range(n):
        mon.check(E[a, a], pre + 'reflexive', lambda: 'a=%s %s' % (show(pool[a][0]), desc))
        mon.check(hash(pool[a][0]) == hs[a], pre + 'hash-stable', lambda: 'a=%s' % show(pool[a][0]))
        for b in range(a + 1, n):
            mon.check(E[a, b] == E[b, a], pre + 'symmetric',
                      lambda: 'a==b %s, b==a %s | a=%s b=%s %s' % (E[a, b], E[b, a], show(pool[a][0]), show(pool[b][0]), desc))
            expect = pool[a][1] == pool[b][1]
            mon.check(E[a, b] == expect, pre + 'eq-value-semantics',
                      lambda: 'built %s, == gives %s | a=%s b=%s %s' % ('equal' if expect else 'different', E[a, b], show(pool[a][0]), show(pool[b][0]), desc))
            real_mon.count('equal_pairs_seen' if expect else 'unequal_pairs_seen')
            if E[a, b] or E[b, a]:
                mon.check(hs[a] == hs[b], pre + 'eq-implies-hash',
                          lambda: 'a == b but hash %d != %d | a=%s b=%s %s' % (hs[a], hs[b], show(pool[a][0]), show(pool[b][0]), desc),
                          tags=tags_hash)
    # transitivity on the pool (from the observed relation)
    for a in range(n):
        for b in range(n):
            if not E[a, b] or a == b: continue
            for c in range(n):
                if c == b or c == a or not E[b, c]: continue
                mon.check(E[a, c], pre + 'transitive',
                          lambda: 'a==b, b==c, not a==c | a=%s b=%s c=%s %s' % (show(pool[a][0]), show(pool[b][0]), show(pool[c][0]), desc))
    # foreign objects
    x = pool[0][0]
    for other in (None, 0, 'x', (1, 2)):
        try:
            e, ne = (x == other), (x != other)
            mon.check((not e) and ne, pre + 'foreign-unequal', lambda: '%r == %r gives %s, != gives %s' % (x, other, e, ne))
        except Exception as ex:
            mon.check(False, pre + 'foreign-unequal', 'comparison with %r raises %s: %s' % (other, type(ex).__name__, ex))
    mon.flush()


def mixed_dim(mon, T, x2, x3):
    """2-D against 3-D instance: clearly different values; == must say so."""
    if not MIXED_DIM: return
    pre = 'C36:%s:' % T
    for a, b in ((x2, x3), (x3, x2)):
        try:
            e = a == b
            ne = a != b
            mon.check((not bool(e)) and bool(ne), pre + 'eq-mixed-dim', lambda: '== %s != %s a=%r b=%r' % (e, ne, a, b), tags=['mixed-dim'])
        except Exception as ex:
            mon.check(False, pre + 'eq-mixed-dim', 'comparison raises %s: %s | a=%r b=%r' % (type(ex).__name__, ex, a, b), tags=['mixed-dim'])


# ------------------------------------------------------------------------------------------
# pools
# ------------------------------------------------------------------------------------------
def groupop_pool(rng, crys, crystal):
    G = sorted(crys.G, key=lambda g: (g.rot.tolist(), np.round(g.trans, 6).tolist()))
    pick = [G[k] for k in rng.permutation(len(G))[:5]]
    pool = []
    cid = 0
    dim = crys.dim

    def add(g):
        nonlocal cid
        pool.append((g, cid))
        pool.append((crystal.GroupOp(g.rot.copy(), g.trans.copy(), g.cartrot.copy(), tuple(tuple(m) for m in g.indexmap)), cid))
        pool.append((crystal.GroupOp(g.rot.copy(), g.trans + TINY * rng.normal(size=dim),
                                     g.cartrot + TINY * rng.normal(size=(dim, dim)), copy.deepcopy(g.indexmap)), cid))
        cid += 1

    seen = []

    def known(g):
        # same class as something already added? decided independently of GroupOp.__eq__
        for h in seen:
            if np.array_equal(h.rot, g.rot) and np.max(np.abs(h.trans - g.trans)) < 1e-6 and h.indexmap == g.indexmap:
                return True
        return False

    for g in pick:
        if not known(g):
            seen.append(g)
            add(g)
    # lattice translated version: same rot and indexmap (same hash), different trans
    g = pick[0]
    t = np.zeros(dim, dtype=int)
    t[int(rng.integers(dim))] = int(rng.choice([-1, 1, 2]))
    gt = g + t
    if not known(gt):
        seen.append(gt)
        add(gt)
    # same rotation / translation, different site permutation data: an extra species appended (the shorter map is a prefix of the
    # longer one - operations of two crystals on one lattice, e.g. fcc and rock salt), the last species dropped, two images swapped
    im = tuple(tuple(m) for m in g.indexmap)
    variants = [im + ((0,),)]
    if len(im) > 1:
        variants.append(im[:-1])
    for c, m in enumerate(im):
        if len(m) > 1:
            mm = list(m)
            mm[0], mm[1] = mm[1], mm[0]
            variants.append(im[:c] + (tuple(mm),) + im[c + 1:])
            break
    for v in variants:
        gv = crystal.GroupOp(g.rot.copy(), g.trans.copy(), g.cartrot.copy(), v)
        if not known(gv):
            seen.append(gv)
            add(gv)
    if len(pick) > 1:
        p = pick[0] * pick[1]
        # products are compared only when clearly distinct from / identical in construction to the others
        dup = any(np.array_equal(h.rot, p.rot) and h.indexmap == p.indexmap and 1e-9 < np.max(np.abs(h.trans - p.trans)) < 1e-3
                  for h in seen)
        if not dup and not known(p):
            seen.append(p)
            add(p)
    return pool


def pairstate_pool(rng, crys, chem, stars):
    N = len(crys.basis[chem])
    dim = crys.dim
    PS = stars.PairState
    pool, keys = [], {}

    def make(i, j, R, noise=0.):
        dx = crys.lattice @ (np.array(R) + crys.basis[chem][j] - crys.basis[chem][i])
        return PS(i=i, j=j, R=np.array(R, dtype=int), dx=dx + noise * rng.normal(size=dim))

    def add(i, j, R):
        k = (i, j) + tuple(int(r) for r in R)
        fresh = k not in keys
        cid = keys.setdefault(k, len(keys))
        pool.append((make(i, j, R), cid))
        if fresh:
            pool.append((make(i, j, R), cid))
            pool.append((make(i, j, R, TINY), cid))
            # numpy integer indices as produced by array2PSlist (HDF5 reload)
            pool.append((PS(i=np.int64(i), j=np.int64(j), R=np.array(R, dtype=int), dx=make(i, j, R).dx), cid))

    for _ in range(4):
        i, j = int(rng.integers(N)), int(rng.integers(N))
        R = rng.integers(-2, 3, size=dim)
        add(i, j, R)
        add(j, i, -R)  # negative
        R2 = R.copy()
        R2[int(rng.integers(dim))] += int(rng.choice([-1, 1]))
        add(i, j, R2)
        if N > 1:
            add((i + 1) % N, j, R)
    add(0, 0, np.zeros(dim, dtype=int))
    return pool, make


def clustersite_pool(rng, crys, cluster):
    dim = crys.dim
    CS = cluster.ClusterSite
    pool, keys = [], {}

    def add(ci, R):
        k = tuple(ci) + tuple(int(r) for r in R)
        fresh = k not in keys
        cid = keys.setdefault(k, len(keys))
        pool.append((CS(ci=tuple(ci), R=np.array(R, dtype=int)), cid))
        if fresh:
            pool.append((CS(ci=(int(ci[0]), int(ci[1])), R=np.array(R, dtype=int).copy()), cid))
            pool.append((CS(ci=tuple(ci), R=np.array(R, dtype=int)) + np.zeros(dim, dtype=int), cid))

    atoms = crys.atomindices
    for _ in range(5):
        ci = atoms[int(rng.integers(len(atoms)))]
        R = rng.integers(-2, 3, size=dim)
        add(ci, R)
        add(ci, -R)
        R2 = R.copy()
        R2[int(rng.integers(dim))] += 1
        add(ci, R2)
        ci2 = atoms[int(rng.integers(len(atoms)))]
        add(ci2, R)
    return pool


def canon_cluster(sites, transition, vacancy):
    """Independent canonical form of a cluster: translation-invariant multiset with the roles of the
    special leading sites (documented semantics of cluster.Cluster)."""
    nsp = (2 if transition else 0) if not vacancy else (2 if transition else 1)
    lab = []
    for n, (ci, R) in enumerate(sites):
        role = 'c'
        if n < nsp:
            if vacancy: role = 'v%d' % n          # vacancy (and final state of its jump) keep their order
            else: role = 't'                        # initial/final of a transition are interchangeable
        lab.append((role, tuple(ci), tuple(int(r) for r in R)))
    # translate so that the lexicographically smallest (over all choices of origin) representation is taken
    best = None
    for _, _, R0 in lab:
        rep = tuple(sorted((role, ci, tuple(r - r0 for r, r0 in zip(R, R0))) for role, ci, R in lab))
        if best is None or rep < best: best = rep
    return (bool(transition), bool(vacancy), best)


def cluster_pool(rng, crys, cluster, mon):
    dim = crys.dim
    CS, CL = cluster.ClusterSite, cluster.Cluster
    atoms = crys.atomindices
    pool, keys = [], {}

    def rand_sites(n):
        out, seen = [], set()
        for t in range(50):
            if len(out) == n: break
            ci = atoms[int(rng.integers(len(atoms)))]
            R = tuple(int(r) for r in rng.integers(-1, 2, size=dim))
            if (ci, R) in seen: continue
            seen.add((ci, R))
            out.append((ci, R))
        return out

    def build(sites, tr, vac, shift=None, perm=None):
        nsp = (2 if tr else 0) if not vac else (2 if tr else 1)
        lead, rest = list(sites[:nsp]), list(sites[nsp:])
        if perm is not None:
            rest = [rest[k] for k in perm]
        sh = np.zeros(dim, dtype=int) if shift is None else shift
        return CL([CS(ci=ci, R=np.array(R, dtype=int) + sh) for ci, R in lead + rest], transition=tr, vacancy=vac)

    def add(sites, tr, vac):
        nsp = (2 if tr else 0) if not vac else (2 if tr else 1)
        if len(sites) < max(nsp, 1): return
        key = canon_cluster(sites, tr, vac)
        fresh = key not in keys
        cid = keys.setdefault(key, len(keys))
        pool.append((build(sites, tr, vac), cid))
        mon.seen('cluster_kind_list', '%s%s' % ('T' if tr else '', 'V' if vac else '') or 'plain')
        if fresh:
            nrest = len(sites) - nsp
            pool.append((build(sites, tr, vac, shift=rng.integers(-2, 3, size=dim), perm=rng.permutation(nrest)), cid))
            if tr and not vac:
                pool.append((build([sites[1], sites[0]] + list(sites[2:]), tr, vac, shift=rng.integers(-2, 3, size=dim)), cid))

    for _ in range(3):
        n = int(rng.integers(1, 5))
        s = rand_sites(n)
        add(s, False, False)
        if n >= 2:
            add(s, True, False)     # same sites, first two are a transition: differs from the plain one
            add(s, False, True)     # first is the vacancy
            add(s, True, True)
            # change one site
            ci, R = s[-1]
            R2 = list(R)
            R2[0] += 2
            s2 = s[:-1] + [(ci, tuple(R2))]
            add(s2, False, False)
            add(s2, True, False)
            add(s2, False, True)
            # vacancy on another site of the cluster: different cluster
            add([s[1], s[0]] + s[2:], False, True)
            add([s[1], s[0]] + s[2:], True, True)
    # structured site sets: equally spaced collinear triple and parallelogram on one sublattice; the same site
    # set with the transition (or vacancy) on different, parallel pairs are different clusters
    ci = atoms[int(rng.integers(len(atoms)))]
    R0 = rng.integers(-1, 2, size=dim)
    while True:
        v, w = rng.integers(-1, 2, size=dim), rng.integers(-1, 2, size=dim)
        if np.any(v) and np.any(w) and np.any(v - w) and np.any(v + w): break
    tri = [(ci, tuple(int(x) for x in R0 + k * v)) for k in range(3)]
    par = [(ci, tuple(int(x) for x in R0 + a * v + b * w)) for a, b in ((0, 0), (1, 0), (0, 1), (1, 1))]
    for lead in ((0, 1), (1, 2), (0, 2), (1, 0)):
        rest = [k for k in range(3) if k not in lead]
        for vac in (False, True):
            add([tri[k] for k in lead] + [tri[k] for k in rest], True, vac)
    for lead in ((0, 1), (2, 3), (0, 2), (1, 3), (0, 3), (3, 2)):
        rest = [k for k in range(4) if k not in lead]
        for vac in (False, True):
            add([par[k] for k in lead] + [par[k] for k in rest], True, vac)
    add(tri, False, False)
    add(par, False, False)
    for k in range(3):
        add([tri[k]] + [tri[m] for m in range(3) if m != k], False, True)
    mon.count('structured_cluster_sets', 2)
    return pool


def vtk_pool(rng, nsite, njump, vTK):
    pool = []

    def base():
        pre = rng.uniform(0.5, 2., size=nsite)
        be = rng.normal(size=nsite)
        be -= be.min()  # as used by the calculator: relative to the minimum, contains an exact 0.0
        preT = rng.uniform(0.5, 2., size=njump)
        beT = rng.normal(size=njump) + 2.
        return [pre, be, preT, beT]

    variants = []
    for cid in range(3):
        f = base()
        if cid == 1:
            f[0], f[2] = np.ones(nsite), np.ones(njump)  # keys as formed by Lij
        pool.append((vTK(*[x.copy() for x in f]), cid, 'base'))
        pool.append((vTK(*[x.copy() for x in f]), cid, 'copy'))
        # one field differs in the last bit
        k = int(rng.integers(4))
        g = [x.copy() for x in f]
        m = int(rng.integers(len(g[k])))
        g[k][m] = np.nextafter(g[k][m], 10.)
        pool.append((vTK(*g), cid, 'ulp'))
        g = [x + TINY * rng.normal(size=x.shape) for x in f]
        pool.append((vTK(*g), cid, '1e-13'))
        g = [x.copy() for x in f]
        g[1][g[1] == 0.] = -0.0
        pool.append((vTK(*g), cid, 'negzero'))
    # clearly different from class 0: one entry moved by 0.3 .. 1
    f = [x.copy() for x in pool[0][0]]
    k = int(rng.integers(4))
    f[k][int(rng.integers(len(f[k])))] += rng.uniform(0.3, 1.)
    pool.append((vTK(*f), 3, 'far'))
    pool.append((vTK(*[x.copy() for x in f]), 3, 'far-copy'))
    return pool


def run_case(case):
    from onsager import crystal, cluster, OnsagerCalc
    from onsager import crystalStars as stars
    mon = Mon()
    rng = gen.rng_for(case['seed'], case['idx'], 36)
    vTK = OnsagerCalc.vacancyThermoKinetics
    sample = None
    firsts = {}
    for dim in (2, 3):
        crys, spec = gen.rand_crystal(rng, dim=dim, nchem=int(rng.integers(1, 3)), maxatoms=6)
        desc = {'kind': spec['kind'], 'lattice': crys.lattice.tolist(), 'basis': [[u.tolist() for u in l] for l in crys.basis]}
        dstr = '| crystal %s' % desc
        chem = int(rng.integers(crys.Nchem))
        base_sig = [spec['kind'], [len(l) for l in crys.basis], len(crys.G)]

        pool = groupop_pool(rng, crys, crystal)
        laws(mon, 'GroupOp', pool, dstr)
        firsts.setdefault('GroupOp', {})[dim] = pool[0][0]
        mon.sig(['GroupOp'] + base_sig)

        pool, make = pairstate_pool(rng, crys, chem, stars)
        laws(mon, 'PairState', pool, dstr)
        firsts.setdefault('PairState', {})[dim] = pool[0][0]
        pairstate_arith(mon, rng, crys, chem, stars, make, dstr)
        mon.sig(['PairState'] + base_sig)

        pool = clustersite_pool(rng, crys, cluster)
        laws(mon, 'ClusterSite', pool, dstr)
        firsts.setdefault('ClusterSite', {})[dim] = pool[0][0]

        pool = cluster_pool(rng, crys, cluster, mon)
        laws(mon, 'Cluster', pool, dstr)
        firsts.setdefault('Cluster', {})[dim] = pool[0][0]
        mon.sig(['Cluster'] + base_sig)

        nsite, njump = int(rng.integers(1, 4)), int(rng.integers(1, 5))
        p3 = vtk_pool(rng, nsite, njump, vTK)
        laws(mon, 'vTK', [(x, c) for x, c, _ in p3], '| variants %s' % [v for _, _, v in p3], tags_hash=['vTK-allclose-eq-bytes-hash'])
        mon.sig(['vTK', nsite, njump])
        # keys of a differently shaped problem are different keys
        a = p3[0][0]
        m1, m2 = nsite + 1, njump + 2
        b = vTK(np.ones(m1), np.zeros(m1), np.ones(m2), np.zeros(m2) + 2.)
        for x, y in (((a, b), (b, a)) if MIXED_SHAPE else ()):
            try:
                e = x == y
                mon.check(not e, 'C36:vTK:eq-shape', lambda: 'keys with %s and %s entries compare equal' % ([len(f) for f in x], [len(f) for f in y]),
                          tags=['vTK-allclose-shape-blind'])
            except Exception as ex:
                mon.check(False, 'C36:vTK:eq-shape', 'comparing keys with %s and %s entries raises %s: %s' % (
                    [len(f) for f in x], [len(f) for f in y], type(ex).__name__, ex), tags=['vTK-allclose-shape-blind'])
        if sample is None:
            sample = dict(desc, chem=chem, hashseed=case.get('hashseed'))
    for T, d in firsts.items():
        mixed_dim(mon, T, d[2], d[3])
    mon.obs['cluster_kinds'] = len(mon.obs.get('cluster_kind_list', []))
    return mon.result(sample=sample)


# ------------------------------------------------------------------------------------------
# PairState arithmetic
# ------------------------------------------------------------------------------------------
def same(a, b, tol=1e-9):
    """full structural comparison incl. dx (PairState.__eq__ ignores dx by design)"""
    return (int(a.i) == int(b.i) and int(a.j) == int(b.j) and np.array_equal(np.asarray(a.R), np.asarray(b.R))
            and np.max(np.abs(a.dx - b.dx)) <= tol * (1. + np.max(np.abs(b.dx))))


def pairstate_arith(mon, rng, crys, chem, stars, make, dstr):
    PS = stars.PairState
    N = len(crys.basis[chem])
    dim = crys.dim
    G = list(crys.G)
    P = 'C36:PairState:'

    def rnd(i=None, j=None):
        i = int(rng.integers(N)) if i is None else i
        j = int(rng.integers(N)) if j is None else j
        return make(i, j, rng.integers(-2, 3, size=dim))

    def d(*xs):
        return lambda: ' ; '.join(str(x) for x in xs) + ' ' + dstr

    for rep in range(6):
        g = G[int(rng.integers(len(G)))]
        a = rnd()
        with mon.guard(P + 'neg'):
            na = -a
            mon.check(same(-na, a) and (-na) == a, P + 'neg-neg', d(a, -na))
            mon.check(int(na.i) == a.j and int(na.j) == a.i and np.array_equal(na.R, -a.R) and np.allclose(na.dx, -a.dx, atol=1e-12),
                      P + 'neg-swaps', d(a, na))
            z1, z2 = a + na, na + a
            zi, zj = PS.zero(a.i, dim), PS.zero(a.j, dim)
            mon.check(z1.iszero() and z2.iszero() and z1 == zi and z2 == zj and same(z1, zi) and same(z2, zj), P + 'neg-zero', d(a, z1, z2))
            mon.check(same(a + zj, a) and same(zi + a, a) and (a + zj) == a, P + 'zero-neutral', d(a, a + zj, zi + a))
            # the universal zero of the docstring (index -1)
            zu = PS.zero(-1, dim)
            mon.check(same(zu + a, a) and same(a + zu, a), P + 'zero-neutral', d(a, zu + a))
        # a - b: same final site j
        b = rnd(j=a.j)
        with mon.guard(P + 'sub'):
            amb = a - b
            mon.check(int(amb.i) == a.i and int(amb.j) == b.i and np.array_equal(amb.R, a.R - b.R), P + 'sub-def', d(a, b, amb))
            mon.check((amb + b) == a and same(amb + b, a), P + 'sub-add', d(a, b, amb, amb + b))
            bma = b - a
            mon.check((bma + a) == b and same(bma + a, b), P + 'sub-add', d(a, b, bma, bma + a))
            mon.check(same(amb, a + (-b)) and same(-amb, bma), P + 'sub-is-add-neg', d(a, b, amb, bma))
        # a ^ b: same initial site i
        c = rnd(i=a.i)
        with mon.guard(P + 'xor'):
            axc = a ^ c
            mon.check(int(axc.i) == c.j and int(axc.j) == a.j and np.array_equal(axc.R, a.R - c.R), P + 'xor-def', d(a, c, axc))
            mon.check((c + axc) == a and same(c + axc, a), P + 'xor-add', d(a, c, axc, c + axc))
            cxa = c ^ a
            mon.check((a + cxa) == c and same(a + cxa, c), P + 'xor-add', d(a, c, cxa, a + cxa))
            mon.check(same(-axc, cxa), P + 'xor-antisym', d(a, c, axc, cxa))
        # a + e: chained
        e = rnd(i=a.j)
        f = rnd(i=e.j)
        with mon.guard(P + 'add'):
            s = a + e
            mon.check(int(s.i) == a.i and int(s.j) == e.j and np.array_equal(s.R, a.R + e.R), P + 'add-def', d(a, e, s))
            mon.check(same((a + e) + f, a + (e + f)), P + 'add-assoc', d(a, e, f))
            mon.check(same(-(a + e), (-e) + (-a)), P + 'neg-add', d(a, e))
        # mismatching end points must raise ArithmeticError (documented)
        if N > 1:
            w = rnd(i=(a.j + 1) % N)
            for name, op in (('+', lambda: a + w), ('-', lambda: a - rnd(j=(a.j + 1) % N)), ('^', lambda: a ^ rnd(i=(a.i + 1) % N))):
                try:
                    r = op()
                    mon.check(False, P + 'mismatch-raises', d('no exception for', name, a, w, r))
                except ArithmeticError:
                    mon.check(True, P + 'mismatch-raises')
                except Exception as ex:
                    mon.check(False, P + 'mismatch-raises', d('%s instead of ArithmeticError' % type(ex).__name__, name, a))
        else:
            mon.count('single_site_no_mismatch')
        # commutation with symmetry operations
        with mon.guard(P + 'g'):
            ga, ge, gb, gc = (x.g(crys, chem, g) for x in (a, e, b, c))
            mon.check(same((a + e).g(crys, chem, g), ga + ge), P + 'g-add', d(a, e, g))
            mon.check(same((-a).g(crys, chem, g), -ga), P + 'g-neg', d(a, g))
            mon.check(same((a - b).g(crys, chem, g), ga - gb), P + 'g-sub', d(a, b, g))
            mon.check(same((a ^ c).g(crys, chem, g), ga ^ gc), P + 'g-xor', d(a, c, g))
            mon.check(PS.zero(a.i, dim).g(crys, chem, g).iszero() and int(PS.zero(a.i, dim).g(crys, chem, g).i) == int(ga.i), P + 'g-zero', d(a, g))
            # g acts as the claimed isometry: dx rotates, end points are the images
            mon.check(np.max(np.abs(ga.dx - g.cartrot @ a.dx)) < 1e-9 * (1 + np.max(np.abs(a.dx))) and
                      np.max(np.abs(ga.dx - crys.lattice @ (ga.R + crys.basis[chem][ga.j] - crys.basis[chem][ga.i]))) < 1e-6,
                      P + 'g-consistent', d(a, ga, g))
