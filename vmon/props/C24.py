"""C24: star sets are complete symmetry orbits of reachable pair states.

Monitor: every StarSet the workload builds (constructor, generate() again on the same object, S1+S2, +=,
copy, diffgenerate) is compared with an independent model (vmon.ref.pairs): breadth-first search over integer
pair keys (i, j, R) with the jump list, orbits by applying every operation of the brute-force space group
(vmon.ref.geom.full_group) to both end points; plus exact consistency of index/indexdict/stateindex/starindex.
Workload: named and random crystals (2-D/3-D, 1-3 sites of the jumping species, 1-2 species), cut-off after the
1st..3rd neighbour shell, N = 1..3 (state count capped), origin states on/off, dx and lattice-vector network form.
"""
import numpy as np
from vmon import gen
from vmon.util import Mon
from vmon.ref import pairs

ID = 'C24'
RULE = ('crystal: 30% named (17 structures) else random Bravais type (16 systems) with 1-3 orbits, 1-2 species, <=3 sites of the '
        'jumping species; cut-off inside a gap after neighbour shell 1..3; N in 1..3 limited to <= 700 states (1200 in the thorough tier); origin states '
        'on/off; jump network in dx or lattice form; non-trivial = more than one star or more than one site; '
        'distinct = (structure kind, sites, |G|, jumps, N, origin)')
ASSUMPTIONS = ['reference space group = vmon.ref.geom.full_group (brute force, tolerance 1e-6); cases where its order differs '
               'from len(crys.G) are not decided here (counted as group_mismatch; C18 owns that)',
               'cut-offs are at least 5e-4 away from every neighbour distance',
               'Cartesian separations compared to 1e-9 (lattice constants are O(1))',
               'S1+S2 is compared with generate(N1+N2) for operands with the same originstates flag']
REQUIRED_OBS = {'starsets_checked': 150, 'eval:C24:states=bfs': 150, 'eval:C24:stars=orbits': 150, 'eval:C24:index': 150,
                'eval:C24:lookup': 150, 'eval:C24:sum-states': 30, 'eval:C24:sum-partition': 30,
                'eval:C24:diff-contains': 20, 'origin_starsets': 20, 'multisite_starsets': 20, 'dim2_starsets': 20,
                'nonmember_lookups': 100}
CASE_TIMEOUT = 300
PER_CASE = 3


def cases(tier, seed):
    if tier == 'quick':
        return [{'seed': seed, 'idx': i, 'hashseed': i % 5} for i in range(40)]
    return [{'seed': seed, 'idx': i, 'hashseed': i % 7, 'big': True} for i in range(600)]


def fresh(stars, pg, key):
    """a new PairState object for a key (not one of the star set's own objects)"""
    return stars.PairState(i=key[0], j=key[1], R=np.array(key[2], dtype=int), dx=pg.dx(key))


def check_starset(mon, stars, pg, ss, expect, what, desc, contains_only=False, nonmembers=()):
    """contract of one StarSet against the independent model; expect = set of keys."""
    mon.count('starsets_checked')
    det = lambda: '%s %s' % (what, desc)
    try:
        keys = [pairs.key_of(s) for s in ss.states]
    except Exception as e:
        mon.check(False, 'C24:states=bfs', 'unreadable states: %r %s' % (e, det()))
        return False
    kset = set(keys)
    mon.check(len(kset) == len(keys) and ss.Nstates == len(keys), 'C24:states-distinct',
              lambda: '%d states, %d distinct, Nstates=%s %s' % (len(keys), len(kset), ss.Nstates, det()))
    if contains_only:
        ok = mon.check(expect <= kset, 'C24:diff-contains',
                       lambda: 'missing %s of %d %s' % (sorted(expect - kset)[:4], len(expect), det()))
    else:
        ok = mon.check(kset == expect, 'C24:states=bfs',
                       lambda: 'missing %s extra %s (|model|=%d |starset|=%d) %s' % (
                           sorted(expect - kset)[:4], sorted(kset - expect)[:4], len(expect), len(kset), det()))
    # Cartesian separation of every state
    if keys:
        err = max(float(np.max(np.abs(np.asarray(s.dx, dtype=float) - pg.dx(k)))) for s, k in zip(ss.states, keys))
        mon.check(err < 1e-9, 'C24:dx', lambda: 'max |dx - L(u_j+R-u_i)| = %.3e %s' % (err, det()))
    # stars: partition of the state indices into complete orbits
    flat = sorted(int(x) for st in ss.stars for x in st)
    part_ok = flat == list(range(len(keys))) and ss.Nstars == len(ss.stars) and all(len(st) > 0 for st in ss.stars)
    mon.check(part_ok, 'C24:stars-partition', lambda: 'Nstars=%s len(stars)=%d indices %s... %s' % (
        ss.Nstars, len(ss.stars), flat[:10], det()))
    if part_ok:
        model = pg.partition(keys)
        bad = None
        for si, st in enumerate(ss.stars):
            mine = frozenset(keys[x] for x in st)
            if mine != model[keys[st[0]]]:
                bad = (si, sorted(mine)[:3], len(mine), len(model[keys[st[0]]]))
                break
        mon.check(bad is None, 'C24:stars=orbits',
                  lambda: 'star %s has %d states, the orbit of its first state %d: %s %s' % (bad[0], bad[2], bad[3], bad[1], det()))
        mon.note_max('stars', len(ss.stars))
        # index / indexdict
        idx_ok = len(ss.index) == len(keys) and len(ss.indexdict) == len(keys)
        if idx_ok:
            for si, st in enumerate(ss.stars):
                for xi in st:
                    if int(ss.index[xi]) != si or tuple(ss.indexdict.get(ss.states[xi], (None, None))) != (xi, si):
                        idx_ok = False
                        break
                if not idx_ok: break
        mon.check(idx_ok, 'C24:index', lambda: 'index/indexdict disagree with stars %s' % det())
        # look-ups with fresh objects
        look_ok = True
        step = max(1, len(keys) // 60)
        for xi in range(0, len(keys), step):
            ps = fresh(stars, pg, keys[xi])
            if ss.stateindex(ps) != xi or ss.starindex(ps) != int(ss.index[xi]) or not (ps in ss):
                look_ok = (xi, keys[xi], ss.stateindex(ps), ss.starindex(ps))
                break
        mon.check(look_ok is True, 'C24:lookup', lambda: 'state index, key, stateindex(), starindex() = %s %s' % (look_ok, det()))
    # states that are not members
    for k in nonmembers:
        if k in kset: continue
        ps = fresh(stars, pg, k)
        mon.count('nonmember_lookups')
        mon.check(ss.stateindex(ps) is None and ss.starindex(ps) is None and not (ps in ss), 'C24:lookup-nonmember',
                  lambda: 'key %s: stateindex %s starindex %s %s' % (k, ss.stateindex(ps), ss.starindex(ps), det()))
    return ok


def partition_of(ss):
    keys = [pairs.key_of(s) for s in ss.states]
    return frozenset(frozenset(keys[x] for x in st) for st in ss.stars)


def run_case(case):
    from onsager import crystalStars as stars
    mon = Mon()
    rng = gen.rng_for(case['seed'], case['idx'], 24)
    sample = None
    MAXSTATES = 1200 if case.get('big') else 700
    for rep in range(PER_CASE):
        crys, chem, jn, desc, kind = pairs.rand_network(rng, gen)
        pg = pairs.PairGeom(crys.lattice, crys.basis, chem, jn)
        if len(pg.group) != len(crys.G):
            mon.count('group_mismatch')
            continue
        desc['hashseed'] = case.get('hashseed')
        # largest admissible N
        sizes = {}
        for N in (1, 2, 3, 4):
            r = pg.reachable(N, cap=MAXSTATES)
            if r is None: break
            sizes[N] = r
        if not sizes:
            mon.count("too_large")
            continue
        Nmax = min(3, max(sizes))
        N = int(rng.integers(1, Nmax + 1))
        origin = bool(rng.uniform() < 0.5)
        latt_form = bool(rng.uniform() < 0.3)
        desc.update({'N': N, 'origin': origin, 'lattice_form': latt_form})
        if sample is None: sample = dict(desc)
        mon.seen('kinds', kind)
        mon.seen('N_used', N)
        mon.count('origin_starsets', origin)
        mon.count('multisite_starsets', pg.N > 1)
        mon.count('dim2_starsets', pg.dim == 2)
        mon.count('lattice_form', latt_form)
        if latt_form:
            network = [[((i, j), np.array(R, dtype=int)) for (jt2, i, j, R, dx) in pg.jumps if jt2 == jt] for jt in range(len(jn))]
        else:
            network = jn
        zeros = set(pg.zero(i) for i in range(pg.N))

        def model(n, org):
            st = set(sizes[n]) if n > 0 else set()
            return st | zeros if org else st

        nextshell = pg.reachable(N + 1, cap=4 * MAXSTATES)
        outside = [] if nextshell is None else sorted(nextshell - sizes[N])
        if len(outside) > 6:
            outside = [outside[int(k)] for k in rng.choice(len(outside), 6, replace=False)]
        nonmem = list(outside) + ([] if origin else sorted(zeros))

        # 1. constructor
        ss = None
        with mon.guard('C24:construct'):
            ss = stars.StarSet(network, crys, chem, Nshells=N, originstates=origin, lattice=latt_form)
        if ss is None: continue
        check_starset(mon, stars, pg, ss, model(N, origin), 'StarSet(N=%d, origin=%s)' % (N, origin), desc, nonmembers=nonmem)
        if len(ss.stars) > 1 or pg.N > 1:
            mon.sig([kind, pg.N, len(pg.group), len(pg.jumps), N, origin])
        mon.note_max('states', len(ss.states))

        # 2. generate() again on the same object with another range
        N2 = int(rng.integers(1, Nmax + 1))
        org2 = bool(rng.uniform() < 0.5)
        if N2 != N:
            with mon.guard('C24:regenerate'):
                ss.generate(N2, originstates=org2)
                mon.count('regenerated')
                check_starset(mon, stars, pg, ss, model(N2, org2), 'generate(%d, origin=%s) after N=%d' % (N2, org2, N), desc)
        else:
            # same range requested with the other origin-state flag
            with mon.guard('C24:regenerate'):
                ss.generate(N, originstates=not origin)
                mon.count('regenerated_flag_only')
                have = set(pairs.key_of(s) for s in ss.states)
                mon.check(have == model(N, not origin), 'C24:regenerate-origin-flag',
                          'generate(%d, originstates=%s) on a star set built with originstates=%s: origin states present: %s %s' % (
                              N, not origin, origin, bool(have & zeros), desc), tags=['same-N-other-origin-flag'])

        # 3. sums
        tot = int(rng.integers(2, max(sizes) + 1)) if max(sizes) >= 2 else None
        if tot is not None:
            Na = int(rng.integers(1, tot))
            Nb = tot - Na
            org = bool(rng.uniform() < 0.5)
            mode = int(rng.integers(3))
            # regime tag: the sum reaches no state beyond the operand that is extended
            kept = Na if mode == 2 else max(Na, Nb)
            stags = ['sum-adds-nothing'] if sizes[tot] == sizes[kept] else []
            mon.count('sums_adding_nothing', bool(stags))
            with mon.guard('C24:sum', tags=stags):
                A = stars.StarSet(jn, crys, chem, Nshells=Na, originstates=org)
                B = stars.StarSet(jn, crys, chem, Nshells=Nb, originstates=org)
                ref = stars.StarSet(jn, crys, chem, Nshells=tot, originstates=org)
                if mode == 0:
                    S = A + B
                elif mode == 1:
                    S = B + A
                else:
                    S = A.copy()
                    S += B
                mon.seen('sum_modes', [mode, Na, Nb])
                what = 'S(%d)+S(%d) mode %d origin=%s' % (Na, Nb, mode, org)
                sk = set(pairs.key_of(s) for s in S.states)
                rk = set(pairs.key_of(s) for s in ref.states)
                mon.check(sk == rk and sk == model(tot, org), 'C24:sum-states',
                          lambda: '%s: missing %s extra %s %s' % (what, sorted(rk - sk)[:4], sorted(sk - rk)[:4], desc))
                mon.check(partition_of(S) == partition_of(ref), 'C24:sum-partition', lambda: '%s %s' % (what, desc))
                mon.check(S.Nshells == tot, 'C24:sum-range', lambda: '%s Nshells=%s' % (what, S.Nshells))
                check_starset(mon, stars, pg, S, model(tot, org), what, desc)
                # the operands are still star sets of their own range
                check_starset(mon, stars, pg, A, model(Na, org), 'operand A after ' + what, desc)
                check_starset(mon, stars, pg, B, model(Nb, org), 'operand B after ' + what, desc)
            # empty operand
            with mon.guard('C24:sum'):
                E = stars.StarSet(jn, crys, chem)
                T = (E + A) if rng.uniform() < 0.5 else (A + E)
                mon.check(set(pairs.key_of(s) for s in T.states) == model(Na, org) and partition_of(T) == partition_of(A),
                          'C24:sum-empty', lambda: 'S(0)+S(%d) %s' % (Na, desc))

        # 4. difference set
        Nd1 = int(rng.integers(1, min(2, Nmax) + 1))
        Nd2 = int(rng.integers(1, min(2, Nmax) + 1))
        if len(sizes[Nd1]) * len(sizes[Nd2]) <= 60000:
            o1, o2 = bool(rng.uniform() < 0.5), bool(rng.uniform() < 0.5)
            with mon.guard('C24:diffgenerate'):
                S1 = stars.StarSet(jn, crys, chem, Nshells=Nd1, originstates=o1)
                S2 = S1 if (Nd1 == Nd2 and rng.uniform() < 0.5) else stars.StarSet(jn, crys, chem, Nshells=Nd2, originstates=o2)
                D = S1.copy(empty=True)
                D.diffgenerate(S1, S2)
                k1 = [pairs.key_of(s) for s in S1.states]
                k2 = [pairs.key_of(s) for s in S2.states]
                want = set((a[1], b[1], tuple(y - x for x, y in zip(a[2], b[2]))) for a in k1 for b in k2 if a[0] == b[0])
                mon.note_max('diff_states', len(want))
                check_starset(mon, stars, pg, D, want, 'diffgenerate(S(%d,%s), S(%d,%s))' % (Nd1, o1, Nd2, o2), desc,
                              contains_only=True)
    return mon.result(sample=sample)
