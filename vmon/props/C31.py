"""C31: cluster enumeration is complete and cluster identity is geometric.

Monitors on the real cluster.makeclusters / makeVacancyClusters / makeTSclusters and on
Cluster.__eq__/__hash__, against the brute-force model vmon.ref.clusters (R5): sites are plain
(c, i, R) tuples, clusters are site sets modulo a common lattice translation, symmetry operations are
the Cartesian isometries of the independent brute-force space group (vmon.ref.geom.full_group) applied
to the Cartesian position of every site.  Workload: random crystals (2-D/3-D, 1-3 species), named
crystals, safe cut-offs, orders 1..4, species exclusions, jump networks from crys.jumpnetwork, plus a
slice of long cut-offs on skewed cells with atoms close to opposite cell faces.
"""
import itertools
import numpy as np
from vmon import gen
from vmon.util import Mon
from vmon.ref import clusters as rc

ID = 'C31'
RULE = ('case slices fixed by the case index (i mod 8): std (5 of 8) = random crystal (all Bravais systems, 2-D/3-D, 1-3 orbits, '
        '1-3 species) or named crystal x random species exclusion x order 1..4 x cut-off drawn inside a random gap between '
        'neighbour shells (no pair distance within 1e-4, coordination below an order-dependent limit) x one non-excluded '
        'species with its crys.jumpnetwork (same or a second safe cut-off); multi = as std but 2-3 species and a forced '
        'exclusion; long = 2 general-position atoms hugging opposite faces of a skewed cell, order 2, cut-off 2.6..4.0 '
        'shortest lattice vectors, drawn until a neighbour lies beyond the image range round(cutoff/|a|)+1; dense = simple '
        'named crystal (alternately 2-D with >= 3 shells and 3-D with >= 2 shells), order 3-4: clusters with parallel equal '
        'pairs.  thorough: more cases, up to 8 atoms, higher coordination limits.  non-trivial = expansion contains clusters '
        'of order >= 2; distinct = (kind or name, atoms per species, exclusion, order, number of reference clusters)')
ASSUMPTIONS = ['cut-offs are at least 1e-4 away from every pair distance (no threshold ties)',
               'reference symmetry operations: independent brute-force space group (lattice automorphisms with entries |n|<=2 x '
               'atom-to-atom translations, tolerance 1e-6); if its order differs from len(crys.G) the operations reported by the '
               'crystal are applied geometrically instead (counted as group_order_mismatch)',
               'reference neighbour search uses the rigorous image range cutoff*|b_d| + 3 cells',
               'expected transition-state / vacancy sets are derived from the documented construction: a vacancy cluster = a '
               'cluster with one site of the vacancy species declared vacant; a TS cluster = a cluster containing both end '
               'points of a jump of the network, the pair unordered; a vacancy TS cluster = a vacancy cluster whose vacancy hops '
               'onto one of its sites, pair ordered, without and with the end point kept as occupied site; reversal of a vacancy '
               'TS cluster lies in the same set',
               'equality oracle: A == B iff the canonical geometric forms coincide; equal clusters must have equal hashes '
               '(unequal hashes of different clusters are not required)']
REQUIRED_OBS = {'expansions_checked': 20, 'nontrivial_expansions': 15, 'eval:C31:complete:missing': 20, 'eval:C31:complete:extra': 20,
                'eval:C31:orbit:closed': 100, 'eval:C31:orbit:single': 100, 'eval:C31:disjoint': 20,
                'eval:C31:ts:complete:missing': 8, 'eval:C31:ts:orbit:closed': 20,
                'eval:C31:vac:complete:missing': 8, 'eval:C31:vac:orbit:closed': 20,
                'eval:C31:tsvac:complete:missing': 8, 'eval:C31:tsvac:orbit:closed': 20,
                'eval:C31:eq:translation-permutation': 200, 'eval:C31:eq:distinguishes': 400, 'eq_unequal_pairs': 200,
                'eval:C31:eq:ts-pair-order': 20, 'exclusion_cases': 3, 'dim2_cases': 3, 'multispecies_cases': 5,
                'order4_cases': 2, 'beyond_nmax_cases': 1, 'ts_parallel_pair_cases': 1, 'eq_ts_parallel_pairs': 1}
CASE_TIMEOUT = 300
CHUNK = 5   # importing onsager.cluster (numba) costs seconds per worker: few, longer-lived workers
COORD_LIMIT = {1: 10 ** 6, 2: 40, 3: 18, 4: 12}
COORD_LIMIT_THOROUGH = {1: 10 ** 6, 2: 60, 3: 24, 4: 14}
SKEWED = ('cubicF', 'cubicF', 'cubicI', 'cubicI', 'rhomb', 'rhomb', 'hex', 'tric', 'tric', 'hex2', 'oblique', 'oblique', 'crect', 'tetI')


def cases(tier, seed):
    global CHUNK
    n = 48 if tier == 'quick' else 4800
    CHUNK = 5 if tier == 'quick' else 20
    return [{'seed': seed, 'idx': i, 'hashseed': i % 5 if tier == 'quick' else i % 7, 'tier': tier, 'mode': 'long' if i % 8 == 3 else ('dense' if i % 8 == 6 else ('multi' if i % 8 == 1 else 'std'))} for i in range(n)]


# ---------------------------------------------------------------------------------------------
# generators
# ---------------------------------------------------------------------------------------------
safe = rc.safe


def choose_cutoff(geo, allowed, order, rng, kmin=1, thorough=False):
    return rc.choose_cutoff(geo, allowed, order, rng, COORD_LIMIT_THOROUGH if thorough else COORD_LIMIT, kmin=kmin)


def beyond_nmax(geo, cutoff, allowed):
    """independent predicate: some neighbour within the cut-off lies in a cell |n_d| > round(cutoff/|a_d|)+1"""
    nn = geo.neighbours(cutoff, allowed)
    alen = np.linalg.norm(geo.latt, axis=0)
    lim = [int(np.round(cutoff / alen[d])) + 1 for d in range(geo.dim)]
    return any(abs(s[2][d]) > lim[d] for v in nn.values() for s in v for d in range(geo.dim))


def long_setup(rng):
    """two general-position atoms close to opposite faces of a skewed cell, long cut-off, pairs only"""
    from onsager import crystal
    last = None
    for t in range(15):
        kind = SKEWED[int(rng.integers(len(SKEWED)))]
        latt = gen.lattice(kind, rng)
        if abs(np.linalg.det(latt)) < 0.2: continue
        dim = latt.shape[0]
        u0 = rng.uniform(0.02, 0.2, size=dim)
        u1 = rng.uniform(0.3, 0.7, size=dim)
        ax = int(rng.integers(dim))
        u0[ax] = rng.uniform(0.95, 0.985)
        u1[ax] = rng.uniform(0.015, 0.05)
        two = rng.uniform() < 0.6
        basis = [[u0], [u1]] if two else [[u0, u1]]
        if gen.mindist(latt, [u0, u1]) < 0.25: continue
        crys = crystal.Crystal(latt, basis)
        geo = rc.Geometry(crys)
        allowed = set(range(crys.Nchem))
        amin = float(np.min(np.linalg.norm(crys.lattice, axis=0)))
        dists = geo.pair_distances(allowed, 4.0 * amin + 0.1)
        cands = [c for c in (float(rng.uniform(2.6, 4.0)) * amin for _ in range(8)) if safe(dists, c)]
        if not cands: continue
        for c in cands:
            desc = {'kind': kind + ':facehug', 'lattice': crys.lattice, 'basis': crys.basis, 'cutoff': c, 'order': 2, 'exclude': []}
            last = (crys, geo, c, desc)
            if beyond_nmax(geo, c, allowed):
                return last
    return last


DENSE2 = ('square', 'tria', 'rect')           # third shell, order 3-4: collinear triples / parallelograms
DENSE3 = ('sc', 'bcc', 'tet', 'fcc', 'honey', 'hcp', 'b2', 'kagome', 'lieb')


def std_setup(rng, dense=False, multi=False, thorough=False):
    r = rng.uniform()
    if (r < 0.2 and not multi) or dense:
        names = (DENSE2 if dense == 2 else DENSE3) if dense else gen.NAMED
        name = names[int(rng.integers(len(names)))]
        crys, _, _ = gen.named(name)
        kind = name
    else:
        for t in range(20):
            nchem = int(rng.integers(2, 4)) if multi else int(rng.integers(1, 4))
            crys, spec = gen.rand_crystal(rng, nchem=nchem, maxatoms=8 if thorough else 6, norbits=int(rng.integers(2, 4)) if multi else None)
            if crys.Nchem > 1 or not multi: break
        kind = spec['kind']
    geo = rc.Geometry(crys)
    exclude = []
    if crys.Nchem > 1 and (multi or rng.uniform() < 0.4):
        k = int(rng.integers(1, crys.Nchem))
        exclude = sorted(int(x) for x in rng.choice(crys.Nchem, size=k, replace=False))
    allowed = set(c for c in range(crys.Nchem) if c not in exclude)
    order = int(rng.choice([3, 3, 4])) if dense else int(rng.choice([1, 2, 2, 3, 3, 3, 4, 4]))
    cutoff = choose_cutoff(geo, allowed, order, rng, kmin=(3 if dense == 2 else 2) if dense else 1, thorough=thorough)
    desc = {'kind': kind, 'lattice': crys.lattice, 'basis': crys.basis, 'cutoff': cutoff, 'order': order, 'exclude': exclude}
    return crys, geo, cutoff, desc


# ---------------------------------------------------------------------------------------------
# monitors
# ---------------------------------------------------------------------------------------------
def check_expansion(mon, geo, ops, sets, ref, name, desc, reversal=False, tags=()):
    """sets: list of sets of repository clusters; ref: set of canonical reference clusters."""
    p = 'C31:' + (name + ':' if name else '')
    canons = [[rc.canon_of_repo_cluster(cl) for cl in s] for s in sets]
    union = set()
    total = 0
    ident = True
    for s, cs in zip(sets, canons):
        d = set(cs)
        if len(d) != len(cs): ident = False
        total += len(d)
        union |= d
    mon.check(ident, p + 'identity', lambda: 'a set holds two members that are the same geometric cluster %s' % desc, tags)
    mon.check(total == len(union), p + 'disjoint', lambda: 'sets overlap: %d members, %d distinct %s' % (total, len(union), desc), tags)
    for cs in canons:
        if not cs:
            mon.check(False, p + 'nonempty', 'empty cluster set %s' % desc, tags)
            continue
        d = set(cs)
        orb = rc.orbit(geo, ops, cs[0], reversal=reversal)
        mon.check(orb <= d, p + 'orbit:closed',
                  lambda: '%d symmetry images missing from a set of %d, e.g. %s %s' % (len(orb - d), len(d), next(iter(orb - d)), desc), tags)
        mon.check(d <= orb, p + 'orbit:single',
                  lambda: 'set of %d is not one orbit (%d outside the orbit of its first member), e.g. %s %s'
                          % (len(d), len(d - orb), next(iter(d - orb)), desc), tags)
    mon.check(ref <= union, p + 'complete:missing',
              lambda: '%d of %d reference clusters missing, e.g. %s %s' % (len(ref - union), len(ref), sorted(ref - union)[0], desc), tags)
    mon.check(union <= ref, p + 'complete:extra',
              lambda: '%d clusters not in the reference (%d), e.g. %s %s' % (len(union - ref), len(ref), sorted(union - ref)[0], desc), tags)
    return union


def ts_collision_key(canon):
    """(site set modulo translation, pair displacement up to reversal) of a plain TS cluster: two different TS
    clusters with the same key are the ones that a centre-of-mass site map + pair displacement cannot tell apart"""
    _, a, b, others = canon
    d = tuple(b[2])
    pair = min((a[0], a[1], b[0], b[1], d), (b[0], b[1], a[0], a[1], tuple(-x for x in d)))
    return (rc.canon_plain((a, b) + tuple(others)), pair)


def has_ts_collision(ref):
    keys = [ts_collision_key(c) for c in ref if c[0] == 't']
    return len(set(keys)) != len(keys)


def kind_flags(cl):
    return bool(cl.__transition__), bool(cl.__vacancy__)


def valid_sites(sites, tr, va):
    """no repeated site, except the documented end-point repetition of vacancy TS clusters"""
    ns = 2 if tr else (1 if va else 0)
    key = lambda cs: (cs.ci, tuple(int(x) for x in cs.R))
    sp = [key(s) for s in sites[:ns]]
    ot = [key(s) for s in sites[ns:]]
    if len(set(sp)) != len(sp) or len(set(ot)) != len(ot): return False
    if tr and va:
        return sp[0] not in ot
    return not (set(sp) & set(ot))


def eq_checks(mon, rng, crys, pool, desc):
    """Cluster.__eq__/__hash__ against the geometric canonical form"""
    from onsager import cluster
    CS, CL = cluster.ClusterSite, cluster.Cluster
    dim = crys.dim
    atoms = list(crys.atomindices)

    def build(sites, tr, va, T=0):
        return CL([CS(s.ci, np.array(s.R, dtype=int) + T) for s in sites], transition=tr, vacancy=va)

    def oracle(A, B, what):
        ca, cb = rc.canon_of_repo_cluster(A), rc.canon_of_repo_cluster(B)
        same = ca == cb
        tags = ()
        if not same and ca[0] == 't' and cb[0] == 't' and ts_collision_key(ca) == ts_collision_key(cb):
            tags = ('ts-parallel-pair-collision',)
            mon.count('eq_ts_parallel_pairs')
        with mon.guard('C31:eq'):
            e1, e2 = (A == B), (B == A)
            mon.check(e1 == same and e2 == same, 'C31:eq:distinguishes',
                      lambda: '%s: A==B %s, B==A %s, geometric identity %s\nA=%s\nB=%s' % (what, e1, e2, same, A, B), tags)
            if same:
                mon.check(hash(A) == hash(B), 'C31:eq:hash', lambda: '%s: equal clusters, different hashes\nA=%s\nB=%s' % (what, A, B))
            else:
                mon.count('eq_unequal_pairs')
            mon.seen('eq_variants', what)

    for cl in pool:
        tr, va = kind_flags(cl)
        ns = 2 if tr else (1 if va else 0)
        sites = list(cl.sites)
        # (1) translation of the whole cluster + permutation of the non-special sites
        T = rng.integers(-3, 4, size=dim)
        others = [sites[ns + k] for k in rng.permutation(len(sites) - ns)]
        with mon.guard('C31:eq'):
            B = build(sites[:ns] + others, tr, va, T)
            mon.check(cl == B and B == cl and hash(cl) == hash(B), 'C31:eq:translation-permutation',
                      lambda: 'translated by %s and permuted: == %s / %s, hashes %s %s\nA=%s\nB=%s'
                              % (T.tolist(), cl == B, B == cl, hash(cl), hash(B), cl, B))
            mon.check(rc.canon_of_repo_cluster(cl) == rc.canon_of_repo_cluster(B), 'C31:eq:construct-keeps-geometry',
                      lambda: 'constructor changed the site set\nA=%s\nB=%s' % (cl, B))
        if not tr and not va and len(sites) > 1:
            # plain clusters: any permutation, any member as first site
            perm = [sites[k] for k in rng.permutation(len(sites))]
            with mon.guard('C31:eq'):
                B = build(perm, False, False, T)
                mon.check(cl == B and hash(cl) == hash(B), 'C31:eq:translation-permutation',
                          lambda: 'plain cluster permuted and translated\nA=%s\nB=%s' % (cl, B))
        # (2) the TS pair: unordered for plain TS, ordered (vacancy first) for vacancy TS
        if tr:
            with mon.guard('C31:eq'):
                sw = [sites[1], sites[0]] + sites[2:]
                if valid_sites(sw, tr, va):
                    B = build(sw, tr, va, T)
                    if va:
                        mon.check(not (cl == B) and not (B == cl), 'C31:eq:ts-pair-order',
                                  lambda: 'vacancy TS cluster equals its reversal\nA=%s\nB=%s' % (cl, B))
                    else:
                        mon.check(cl == B and B == cl and hash(cl) == hash(B), 'C31:eq:ts-pair-order',
                                  lambda: 'TS cluster differs from the same cluster with the pair reversed\nA=%s\nB=%s' % (cl, B))
        # (3) variants that may or may not be the same geometric cluster: decided by the canonical form
        variants = []
        k = int(rng.integers(len(sites)))
        dR = np.zeros(dim, dtype=int)
        while not np.any(dR): dR = rng.integers(-2, 3, size=dim)
        variants.append(('site-shifted', [CS(s.ci, np.array(s.R, dtype=int) + dR) if m == k else s for m, s in enumerate(sites)], tr, va))
        if len(atoms) > 1:
            k = int(rng.integers(len(sites)))
            alt = [ci for ci in atoms if ci != sites[k].ci]
            ci = alt[int(rng.integers(len(alt)))]
            variants.append(('site-replaced' if ci[0] == sites[k].ci[0] else 'chemistry-replaced',
                             [CS(ci, s.R) if m == k else s for m, s in enumerate(sites)], tr, va))
        if ns and len(sites) > ns:
            k = int(rng.integers(ns, len(sites)))
            m0 = int(rng.integers(ns))
            sw = list(sites)
            sw[m0], sw[k] = sw[k], sw[m0]
            variants.append(('special-swapped', sw, tr, va))
        if not tr and len(sites) >= 2:
            variants.append(('as-vacancy' if not va else 'as-plain', sites, False, not va))
        if len(sites) >= 3 and not va:
            variants.append(('as-ts' if not tr else 'as-plain', sites, not tr, False))
        if tr and not va and len(sites) > 2:
            # the other sites inverted through the mid point of the pair (same cluster only if centro-symmetric)
            Rm = np.array(sites[0].R, dtype=int) + np.array(sites[1].R, dtype=int)
            variants.append(('ts-others-inverted', sites[:2] + [CS(s.ci, Rm - np.array(s.R, dtype=int)) for s in sites[2:]], tr, va))
        if tr and not va:
            # the same site set with the transition moved onto a parallel equal pair of the cluster, if there is one
            dab = np.array(sites[1].R, dtype=int) - np.array(sites[0].R, dtype=int)
            for p_ in sites[2:]:
                if p_.ci != sites[0].ci: continue
                q_ = [x for x in sites[1:] if x.ci == sites[1].ci and np.array_equal(np.array(x.R, dtype=int) - np.array(p_.R, dtype=int), dab)]
                if q_:
                    rest = [x for x in sites if x is not p_ and x is not q_[0]]
                    variants.append(('ts-pair-moved', [p_, q_[0]] + rest, tr, va))
                    break
        if len(sites) > 1:
            k = int(rng.integers(len(sites)))
            variants.append(('site-removed', [s for m, s in enumerate(sites) if m != k], tr, va))
        for what, vs, vtr, vva in variants:
            if len(vs) < (2 if vtr else 1): continue
            if not valid_sites(vs, vtr, vva): continue
            with mon.guard('C31:eq'):
                B = build(vs, vtr, vva, T)
                oracle(cl, B, what)
    # (4) distinct members of one pool never compare equal unless geometrically identical
    for _ in range(min(40, len(pool) * 2)):
        A, B = pool[int(rng.integers(len(pool)))], pool[int(rng.integers(len(pool)))]
        oracle(A, B, 'pool-pair')


def run_case(case):
    from onsager import cluster
    mon = Mon()
    rng = gen.rng_for(case['seed'], case['idx'], 31)
    if case.get('mode') == 'long':
        setup = long_setup(rng)
        if setup is None:
            return mon.result(sample=None, nontrivial=False)
        mon.tag('longcutoff')
    else:
        setup = std_setup(rng, dense=(2 if (case['idx'] // 8) % 2 == 0 else 3) if case.get('mode') == 'dense' else 0, multi=case.get('mode') == 'multi', thorough=case.get('tier') == 'thorough')
    crys, geo, cutoff, desc = setup
    desc['hashseed'] = case.get('hashseed')
    order, exclude = desc['order'], desc['exclude']
    allowed = set(c for c in range(crys.Nchem) if c not in exclude)
    if beyond_nmax(geo, cutoff, allowed):
        mon.tag('nn-image-beyond-nmax')
        mon.count('beyond_nmax_cases')
    ops = geo.ops_full()
    if len(ops) != len(crys.G):
        mon.count('group_order_mismatch')
        ops = rc.Geometry.ops_from_crystal(crys)
    mon.seen('group_orders', len(ops))
    mon.seen('orders', order)
    mon.count('order4_cases', order == 4)
    mon.count('exclusion_cases', bool(exclude))
    mon.count('dim2_cases', crys.dim == 2)
    mon.count('multispecies_cases', crys.Nchem > 1)
    ref = rc.enumerate_clusters(geo, cutoff, order, exclude)
    mon.note_max('reference_clusters', len(ref))
    sdesc = str({k: (np.asarray(v).tolist() if k == 'lattice' else ([[np.asarray(u).tolist() for u in l] for l in v] if k == 'basis' else v))
                 for k, v in desc.items()})
    clusterexp = None
    with mon.guard('C31:makeclusters'):
        clusterexp = cluster.makeclusters(crys, cutoff, order, exclude=exclude)
    if clusterexp is None:
        return mon.result(sample=desc)
    mon.count('expansions_checked')
    check_expansion(mon, geo, ops, clusterexp, ref, '', sdesc)
    maxord = max([c for c in (len(x[1]) for x in ref)] + [0])
    mon.check(all(len(cl.sites) <= order and not (set(cs.ci[0] for cs in cl.sites) & set(exclude)) for s in clusterexp for cl in s),
              'C31:order-and-exclusion', 'cluster above the maximum order or with an excluded species %s' % sdesc)
    if maxord >= 2:
        mon.count('nontrivial_expansions')
        mon.sig([desc['kind'], [len(l) for l in crys.basis], exclude, order, len(ref)])
    pool = [cl for s in clusterexp for cl in s]
    forced = []
    # ---- vacancy and transition-state clusters (not for the long cut-off slice: sets get large) ----
    if case.get('mode') != 'long' and len(ref) <= 2500 and allowed:
        chem = sorted(allowed)[int(rng.integers(len(allowed)))]
        jcut = cutoff if rng.uniform() < 0.6 else choose_cutoff(geo, {chem}, 2, rng, thorough=case.get('tier') == 'thorough')
        jd = geo.pair_distances({chem}, jcut + 0.1)
        if not safe(jd, jcut): jcut = cutoff
        jn = None
        with mon.guard('C31:jumpnetwork'):
            jn = crys.jumpnetwork(chem, jcut)
        if jn is not None:
            njumps = sum(len(j) for j in jn)
            mon.note_max('jumps', njumps)
            jumps = rc.jump_pairs(geo, chem, jn)
            vac = ts = tsvac = None
            with mon.guard('C31:makeVacancyClusters'):
                vac = cluster.makeVacancyClusters(crys, chem, clusterexp)
            with mon.guard('C31:makeTSclusters'):
                ts = cluster.makeTSclusters(crys, chem, jn, clusterexp)
            refvac = rc.vacancy_clusters(ref, chem)
            if vac is not None:
                check_expansion(mon, geo, ops, vac, refvac, 'vac', sdesc)
                mon.count('vacancy_sets', len(vac))
                pool += [cl for s in vac for cl in s]
                if len(refvac) <= 4000:
                    with mon.guard('C31:makeTSclusters(vacancy)'):
                        tsvac = cluster.makeTSclusters(crys, chem, jn, vac)
            if ts is not None:
                refts = rc.ts_clusters(ref, jumps)
                coll = has_ts_collision(refts)
                mon.count('ts_parallel_pair_cases', coll)
                check_expansion(mon, geo, ops, ts, refts, 'ts', sdesc, tags=('ts-parallel-pair-collision',) if coll else ())
                if coll:
                    # make sure the equality monitor sees members of the colliding families
                    keys = {}
                    for c in refts: keys[ts_collision_key(c)] = keys.get(ts_collision_key(c), 0) + 1
                    forced += [cl for s_ in ts for cl in s_ if keys.get(ts_collision_key(rc.canon_of_repo_cluster(cl)), 0) > 1][:6]
                mon.count('ts_sets', len(ts))
                pool += [cl for s in ts for cl in s]
            if tsvac is not None:
                check_expansion(mon, geo, ops, tsvac, rc.tsvac_clusters(refvac, jumps), 'tsvac', sdesc, reversal=True)
                mon.count('tsvac_sets', len(tsvac))
                pool += [cl for s in tsvac for cl in s]
    # ---- equality and hashing ----
    if pool:
        pick = [pool[k] for k in rng.choice(len(pool), size=min(len(pool), 40), replace=False)]
        eq_checks(mon, rng, crys, forced + pick, sdesc)
    return mon.result(sample=desc)
