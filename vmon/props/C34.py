"""C34: kinetic barriers obey detailed balance.

Monitor on MonteCarloSampler.transitions() of samplers with a jump network: every reported
transition (i->j, Q, dx) is performed (update on the live sampler, or a second sampler started on
the final occupation; with a vacancy a sampler on a second supercell with the vacancy re-seated on
j, as the API requires), the reverse (j->i, Q', -dx) is looked up among the transitions of the final
configuration (exactly one), and Q - Q' must equal E_final - E_initial, both with the samplers'
energies and with the brute-force cluster energy (R9, vmon.ref.sampler_ref).  Exhaustive over every
occupation (and every vacancy seat) of small supercells, random occupations on larger ones; with /
without vacancy, transition-state clusters, spectators; KRA vector / scalar / zero.
"""
import numpy as np
from vmon import gen
from vmon.util import Mon
from vmon.ref import sampler_ref as sr

ID = 'C34'
RULE = ('supercell from the sampler menu (chains with 1-2 sublattices and spectators, planes, triangular / honeycomb layers, '
        'sc/fcc/bcc/hcp/diamond/B2/rocksalt/L12/tetragonal, diagonal and sheared supercell matrices) restricted to cells in which '
        'no cluster wraps onto itself x random cluster / vacancy-cluster / TS / KRA values '
        '(some zero) x variant (vacancy or not, TS clusters or not); exhaustive mode = every occupation (x every vacancy seat for '
        '<= 6 sites, else 2 seats) x every reported transition; random mode = 12 (thorough: 20) occupations of mixed filling x <= 30 '
        'transitions; non-trivial = transition with |E_final - E_initial| > 1e-6; distinct = (crystal, supercell, cutoff, order, variant, mode)')
ASSUMPTIONS = ['tolerance 1e-9 x (sum of |energy interaction values| + largest sum of |terms| of one barrier)',
               'explored supercells: no cluster (incl. vacancy and transition-state clusters) contains two different sites that '
               'coincide modulo the supercell (brute-force check vmon.ref.sampler_ref.wrap_conflict == "self"); for supercells '
               'shorter than a cluster the barrier model is not defined (detailed balance fails there with TS / vacancy clusters); '
               'cells where a cluster reaches a jump end point through a periodic image ARE explored (fcc/bcc/sc 2x2x2, ladders)',
               'the energy of a configuration is checked against the brute-force cluster sum (R9) as well as the sampler energy',
               'exhaustive bound: <= 8 mobile sites (quick), <= 10 (thorough)']
REQUIRED_OBS = {'eval:C34:detailed-balance': 3000, 'eval:C34:detailed-balance-brute': 3000, 'eval:C34:reverse-unique': 3000,
                'eval:C34:allowed': 3000, 'transitions:nontrivial_dE': 1000, 'transitions:vacancy': 500, 'transitions:novacancy': 500,
                'transitions:performed-by-update': 300, 'transitions:TS': 500, 'transitions:noTS': 300, 'transitions:spectator': 100,
                'cells:exhaustive': 6, 'cells:random': 6, 'cells:jump-through-image': 2, 'occupations_exhausted': 500, 'seats': 10}
CASE_TIMEOUT = 300

QUICK_LARGE = [('fcc', 0), ('fcc', 1), ('fcc', 2), ('bcc', 0), ('bcc', 1), ('bcc', 3), ('sc', 0), ('sc', 1), ('hcp', 0), ('hcp', 1),
               ('diamond', 0), ('diamond', 1), ('b2', 0), ('b2', 1), ('rocksalt', 0), ('rocksalt', 1), ('l12', 0), ('tet', 0), ('tet', 1),
               ('plane', 0), ('plane', 1), ('tri', 0), ('honey', 0), ('honey', 1), ('chain2', 0), ('b2mob', 1)]
SMALL_OK = sr.menu('small')  # cells with a self-wrapping cluster are skipped at run time (none in this menu)
VARIANTS = ('plain', 'vac', 'plain+TS', 'vac+TS')


def cases(tier, seed):
    out = []
    if tier == 'quick':
        for i in range(40):
            out.append({'seed': seed, 'idx': i, 'hashseed': i % 4, 'mode': 'exhaustive', 'menu': 'small',
                        'cfg': list(SMALL_OK[(i * 7 + seed * 3) % len(SMALL_OK)]), 'variant': VARIANTS[(i + seed) % 4]})
        for i in range(52):
            out.append({'seed': seed, 'idx': 100 + i, 'hashseed': i % 4, 'mode': 'random', 'menu': 'large',
                        'cfg': list(QUICK_LARGE[(i + seed * 5) % len(QUICK_LARGE)]), 'variant': VARIANTS[(i // 2 + seed) % 4]})
    else:
        n = 0
        for rep in range(4):
            for cfg in SMALL_OK:
                for v in VARIANTS:
                    out.append({'seed': seed, 'idx': n, 'hashseed': n % 7, 'mode': 'exhaustive', 'menu': 'small', 'cfg': list(cfg), 'variant': v})
                    n += 1
        for rep in range(3):
            for cfg in sr.menu('medium'):
                for v in VARIANTS:
                    out.append({'seed': seed, 'idx': n, 'hashseed': n % 7, 'mode': 'exhaustive', 'menu': 'medium', 'cfg': list(cfg), 'variant': v})
                    n += 1
        for rep in range(24):
            for cfg in sr.menu('large'):
                for v in VARIANTS:
                    out.append({'seed': seed, 'idx': n, 'hashseed': n % 7, 'mode': 'random', 'menu': 'large', 'cfg': list(cfg), 'variant': v, 'nocc': 20})
                    n += 1
    return out


class World:
    """samplers (one per vacancy seat), brute-force energies and per-configuration snapshots"""

    def __init__(self, mon, S, ts, desc):
        self.mon, self.S, self.ts, self.desc = mon, S, ts, desc
        self.samplers, self.erefs, self.sitemaps, self.table = {}, {}, {}, {}
        self.scale = None

    def sampler(self, seat):
        if seat not in self.samplers:
            sup = self.S.supercell(seat)
            M = None
            with self.mon.guard('C34:construct'):
                M = self.S.sampler(seat, True, self.ts, sup=sup)
            self.samplers[seat] = M
            self.erefs[seat] = self.S.energyref(seat, sup=sup)
            self.sitemaps[seat] = self.erefs[seat].sm
            if M is not None and self.scale is None:
                self.scale = sr.barrier_scale(M)
            self.mon.count('seats')
        return self.samplers[seat]

    def snapshot(self, seat, occ):
        """(E, Ebrute, (ij, Q, dx)) of a sampler freshly started on occ"""
        key = (seat, occ.tobytes())
        s = self.table.get(key)
        if s is None:
            M = self.sampler(seat)
            s = None
            with self.mon.guard('C34:start/transitions'):
                M.start(occ.copy())
                ij, Q, dx = M.transitions()
                s = (M.E(), self.erefs[seat].E(occ), (list(ij), np.array(Q), np.array(dx)))
            if len(self.table) < 20000:
                self.table[key] = s
        return s


def check_transition(mon, W, seat, occ, snap0, m, final, how):
    """transition number m of snap0; final = (seat', occ', E', Eb', (ij', Q', dx'))"""
    E0, Eb0, (ij, Q, dx) = snap0
    i, j = ij[m]
    seat2, occ2, E1, Eb1, (ij2, Q2, dx2) = final
    info = lambda: '%s | %s | occ=%s seat=%s transition %d->%d Q=%r dx=%s | final: E=%r ij=%s Q=%s' % (
        W.desc, how, occ.tolist(), seat, i, j, float(Q[m]), np.asarray(dx[m]).tolist(), E1, ij2[:14], np.asarray(Q2)[:14].tolist())
    sm = W.sitemaps[seat]
    chem = W.S.chem
    if seat is None:
        legal = occ[i] == 1 and occ[j] == 0
    else:
        legal = i == seat and occ[j] in (0, 1)
    legal = legal and i != j and i in W.S.chemsites and j in W.S.chemsites and sm.is_jump(i, j, dx[m]) and bool(np.isfinite(Q[m]))
    mon.check(legal, 'C34:allowed', info)
    rev = [n for n, (a, b) in enumerate(ij2) if a == j and b == i and np.allclose(dx2[n], -np.asarray(dx[m]), atol=1e-8)]
    mon.check(len(rev) == 1, 'C34:reverse-unique', lambda: 'found %d reverse transitions with dx=%s | %s' % (
        len(rev), [np.asarray(dx2[n]).tolist() for n, (a, b) in enumerate(ij2) if a == j and b == i], info()))
    if len(rev) != 1:
        return
    Qr = Q2[rev[0]]
    mon.close(Q[m] - Qr, E1 - E0, 1e-9, 'C34:detailed-balance', lambda: 'Qreverse=%r E0=%r | %s' % (float(Qr), E0, info()), scale=W.scale)
    mon.close(Q[m] - Qr, Eb1 - Eb0, 1e-9, 'C34:detailed-balance-brute',
              lambda: 'Qreverse=%r Ebrute0=%r Ebrute1=%r | %s' % (float(Qr), Eb0, Eb1, info()), scale=W.scale)
    mon.count('transitions:checked')
    mon.count('transitions:nontrivial_dE', abs(Eb1 - Eb0) > 1e-6)
    mon.count('transitions:vacancy' if seat is not None else 'transitions:novacancy')
    mon.count('transitions:TS' if W.ts else 'transitions:noTS')
    mon.count('transitions:spectator', bool(W.S.spectator))


def explore(mon, W, seat, occ, rng, maxtrans, p_update):
    snap0 = W.snapshot(seat, occ)
    if snap0 is None: return
    ij = snap0[2][0]
    mon.note_max('transitions_per_configuration', len(ij))
    if len(ij) == 0:
        mon.count('configurations:no-transition')
        return
    sel = range(len(ij)) if len(ij) <= maxtrans else sorted(rng.choice(len(ij), size=maxtrans, replace=False))
    live = None
    for m in sel:
        i, j = ij[m]
        occ2 = occ.copy()
        if seat is None:
            occ2[i], occ2[j] = 0, 1
            seat2 = None
        else:
            occ2[i], occ2[j] = occ[j], -1
            seat2 = int(j)
        if i == j or (seat is None and not (occ[i] == 1 and occ[j] == 0)):
            mon.check(False, 'C34:allowed', '%s occ=%s reports transition %d->%d' % (W.desc, occ.tolist(), i, j))
            continue
        snap1 = W.snapshot(seat2, occ2)
        if snap1 is None: continue
        check_transition(mon, W, seat, occ, snap0, m, (seat2, occ2) + snap1, 'final state by fresh start')
        if seat is None and rng.uniform() < p_update:
            # perform on a live sampler and put back
            if live is None:
                live = W.sampler('live')
                with mon.guard('C34:start/transitions'):
                    live.start(occ.copy())
            with mon.guard('C34:update'):
                live.update((j,), (i,))
                ijl, Ql, dxl = live.transitions()
                fin = (None, occ2, live.E(), snap1[1], (list(ijl), np.array(Ql), np.array(dxl)))
                live.update((i,), (j,))
                check_transition(mon, W, seat, occ, snap0, m, fin, 'performed by update on the live sampler')
                mon.count('transitions:performed-by-update')


def run_case(case):
    mon = Mon()
    rng = gen.rng_for(case['seed'], case['idx'], 34)
    name, k = case['cfg']
    variant = case['variant']
    S = sr.Setup(case['menu'], name, k, rng, const=bool(rng.uniform() < 0.8), kra=str(rng.choice(['vector', 'vector', 'scalar', 'zero'])),
                 zero_fraction=float(rng.choice([0., 0., 0.3])))
    vacancy = variant.startswith('vac')
    ts = variant.endswith('TS')
    desc = dict(S.describe(), variant=variant, mode=case['mode'], hashseed=case.get('hashseed'))
    probe_seat = S.chemsites[0] if vacancy else None
    wrap = S.conflict(probe_seat, ts)
    if wrap == 'self':
        mon.count('skipped:self-wrapping-cluster')
        return mon.result(sample=desc, nontrivial=False)
    mon.count('cells:jump-through-image', wrap == 'jump-image')
    desc['wrap'] = wrap
    W = World(mon, S, ts, str(desc))
    if not vacancy:
        # a second sampler object for the performed-by-update path
        W.samplers['live'] = None
        with mon.guard('C34:construct'):
            W.samplers['live'] = S.sampler(None, True, ts)
    mon.count('cells:' + case['mode'])
    mon.seen('crystals', name)
    mon.note_max('Nsites', S.Nsites)
    if case['mode'] == 'exhaustive':
        if vacancy:
            seats = list(S.chemsites) if S.Nsites <= 6 else [int(x) for x in rng.choice(S.chemsites, size=2, replace=False)]
        else:
            seats = [None]
        p_update = 1.0 if S.Nsites <= 6 else 0.2
        for seat in seats:
            if W.sampler(seat) is None: continue
            for occ in S.all_occ(seat):
                if len(mon.viol) >= 25: break  # the report is full
                explore(mon, W, seat, occ, rng, 10 ** 6, p_update)
                mon.count('occupations_exhausted')
    else:
        for t in range(case.get('nocc', 12)):
            if len(mon.viol) >= 25: break
            seat = int(rng.choice(S.chemsites)) if vacancy else None
            if W.sampler(seat) is None: continue
            occ = S.rand_occ(rng, seat, fill=float(rng.choice([0.1, 0.3, 0.5, 0.5, 0.7, 0.9])))
            explore(mon, W, seat, occ, rng, 30, 0.3)
            mon.count('occupations_random')
    mon.sig([name, S.superlatt.tolist(), S.cutoff, S.order, variant, case['mode']])
    return mon.result(sample=desc)
