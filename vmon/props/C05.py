"""C05: faster transitions never reduce diffusivity (Rayleigh monotonicity).

Metamorphic monitor: for a base input, one transition-state free energy at a time is lowered by a random amount with all
site and interaction energies fixed; the difference (after - before) of the interstitial diffusivity, the bare vacancy
coefficient and the solute-solute coefficient must be positive semidefinite. Every omega0 / omega1 / omega2 (or interstitial)
class is lowered in turn, with the default omega2 algorithm, both forced algorithms, and in the large-omega2 regime.
"""
import numpy as np
from vmon import gen, work_vac, work_inter
from vmon.util import Mon
from vmon.trace import lij_probe

ID = 'C05'
RULE = ('interstitial: random crystals/networks/energies (as C02), each jump class lowered by U(0.05,3); vacancy: crystal pool x '
        'random inputs (all groups randomised, sigma 0.3..1.5), each omega0/omega1/omega2 class lowered by U(0.05,3), plus a '
        'large-omega2 variants (all omega2 barriers, or the first exchange class alone, lowered by ln 1e9 first) and forced algorithm choices; non-trivial = the '
        'lowered class changes some tensor by more than 1e-12 relative; distinct = (system, base input, class)')
ASSUMPTIONS = ['margin: lambda_min(after - before) >= -1e-9 x |D| (observed >= -6e-16); -1e-6 x |Lss| when the large-omega2 algorithm is '
               'active (exchange rates 1e9 x bare: conditioning limits accuracy to ~1e-7)',
               'a decrease of Lss seen with the default k-mesh is attributed to Brillouin-zone integration accuracy only if it shrinks on denser '
               'meshes (NGFmax 8: not larger, 12: at most half); seen on the 2-D displaced triangular lattice when the lowered barrier makes '
               'the bare rates strongly anisotropic (Lss_yy 0.025/0.075/0.080 at NGFmax 4/8/12)',
               'lowering an omega0 transition state leaves every omega1/omega2 transition-state value as given (they are '
               'independent inputs of Lij)']
REQUIRED_OBS = {'eval:C05:interstitial': 60, 'eval:C05:L0vv': 30, 'eval:C05:Lss': 80, 'lowered_om0': 10, 'lowered_om1': 20,
                'lowered_om2': 10, 'large_om2_branch_cases': 3, 'default_algorithm_with_site_contrast': 2, 'variant_default_inputs': 8}
CASE_TIMEOUT = 900
QUICK = [('fcc', 1), ('bcc', 1), ('hcp', 1), ('square', 1), ('honey', 1), ('omega', 1), ('tria', 1), ('lieb', 1),
         ('dtria', 1), ('diamond', 1), ('fcc', 2), ('sc', 1), ('tric', 1), ('p2', 1), ('mono2', 1)]
THOROUGH = QUICK + [('rumpled', 1), ('b2', 1), ('kagome', 1), ('l12', 1), ('tet', 1), ('rect', 1), ('bcc', 2), ('square', 2),
                    ('honey', 2), ('hcp', 2)]


def cases(tier, seed):
    pool = QUICK if tier == 'quick' else THOROUGH
    out = [{'kind': 'vac', 'seed': seed, 'idx': ci * 10 + rep, 'name': n, 'Nthermo': t, 'ninputs': 3 if tier == 'quick' else 6,
            'hashseed': (ci + rep) % 3} for ci, (n, t) in enumerate(pool) for rep in range(1 if tier == 'quick' else 3)]
    out += [{'kind': 'inter', 'seed': seed, 'idx': 1000 + i, 'hashseed': i % 3} for i in range(16 if tier == 'quick' else 200)]
    return out


def minlam(A):
    return np.linalg.eigvalsh(0.5 * (A + A.T)).min()


def run_inter(case, mon):
    from onsager import OnsagerCalc
    rng = gen.rng_for(case['seed'], case['idx'], 5)
    sample = None
    for k in range(5):
        w = work_inter.draw(rng, maxsites=6, noncentro=0.2)
        if w is None: continue
        if sample is None: sample = w['desc']
        with mon.guard('C05:interstitial'):
            diff = OnsagerCalc.Interstitial(w['crys'], w['chem'], w['sl'], w['jn'])
            D = diff.diffusivity(w['pre'], w['bE'], w['preT'], w['bET'])
            # scale of the uncorrelated part: non-percolating networks have D = 0 up to round-off of that scale
            D0scale = max(np.abs(D).max(), 1e-300)
            rates = diff.ratelist(w['pre'], w['bE'], w['preT'], w['bET'])
            D0scale = max(D0scale, max(r * np.dot(dx, dx) for jl, rl in zip(w['jn'], rates) for ((i, j), dx), r in zip(jl, rl)) / w['N'])
            for J in range(len(w['jn'])):
                bET = w['bET'].copy()
                delta = float(rng.uniform(0.05, 3))
                bET[J] -= delta
                D2 = diff.diffusivity(w['pre'], w['bE'], w['preT'], bET)
                sc = max(np.abs(D2).max(), D0scale * np.exp(delta))
                lam = minlam(D2 - D)
                mon.note_min('margin:interstitial', lam / sc)
                mon.check(lam >= -1e-9 * sc, 'C05:interstitial',
                          lambda: 'class %d lowered by %.3f: lambda_min(dD)=%.3e scale %.3e %s' % (J, delta, lam, sc, w['desc']))
                if np.abs(D2 - D).max() > 1e-12 * sc: mon.sig(['inter', w['spec']['kind'], w['N'], len(w['jn']), J, case['idx'], k])
    return sample


def run_vac(case, mon):
    rng = gen.rng_for(case['seed'], case['idx'], 5)
    name, nth = case['name'], case['Nthermo']
    diff = work_vac.get_calc(name, nth)
    sample = None
    for k in range(case['ninputs']):
        sigma = float(rng.choice([0.3, 0.7, 1.5]))
        args = work_vac.rand_args(rng, diff, 'VSB012', sigma)
        variant = ('default', 'small', 'large', 'bigom2', 'bigom2-one')[int(rng.integers(5))] if k > 2 else ('bigom2', 'bigom2-one', 'default')[k]
        if k == 2 and len(diff.sitelist) > 1:
            # default algorithm with a pronounced site-energy contrast between the Wyckoff sets (solute and vacancy)
            args[1] = args[1] + rng.permutation(len(args[1])) * float(rng.uniform(0.8, 2.0))
            args[1] = args[1] - args[1].min()
            mon.count('default_algorithm_with_site_contrast')
        kw = {}
        if variant == 'small': kw = {'large_om2': np.inf}
        if variant == 'large': kw = {'large_om2': 0.}
        if variant == 'bigom2': args[5] = args[5] - np.log(1e9)
        if variant == 'bigom2-one': args[5][0] = args[5][0] - np.log(1e9)  # one exchange class fast, the others ordinary
        tags = work_vac.regime_tags(diff, args) + ['variant:' + variant]
        if variant in ('large', 'bigom2', 'bigom2-one'): tags.append('large_om2_algorithm')
        desc = {'crystal': name, 'Nthermo': nth, 'variant': variant, 'args': args}
        if sample is None: sample = desc
        mon.count('large_om2_branch_cases', variant in ('large', 'bigom2', 'bigom2-one'))
        mon.count('variant_default_inputs', variant == 'default')
        try:
            with lij_probe(diff) as probe:
                base = [np.array(x) for x in diff.Lij(*args, **kw)]
            if probe.hits['large'] > 0 and 'large_om2_algorithm' not in tags: tags.append('large_om2_algorithm')
        except Exception as e:
            import traceback
            mon.fail('C05:Lij:raises:' + type(e).__name__, traceback.format_exc()[-600:] + str(desc), tags)
            continue
        for grp, nm in ((3, 'om0'), (4, 'om1'), (5, 'om2')):
            ncls = len(args[grp])
            order = rng.permutation(ncls)[:(4 if k == 2 else 6)]
            for J in order:
                a2 = [x.copy() for x in args]
                delta = float(rng.uniform(0.05, 3))
                a2[grp][J] -= delta
                try:
                    new = [np.array(x) for x in diff.Lij(*a2, **kw)]
                except Exception as e:
                    mon.fail('C05:Lij:raises:' + type(e).__name__, str(e) + str(desc), tags)
                    continue
                mon.count('lowered_' + nm)
                sc = max(np.abs(base[0]).max(), np.abs(base[1]).max(), np.abs(new[1]).max(), 1e-300)
                l0 = minlam(new[0] - base[0])
                ls = minlam(new[1] - base[1])
                mon.note_min('margin:L0vv', l0 / sc)
                mon.note_min('margin:Lss', ls / sc)
                mon.check(l0 >= -1e-9 * sc, 'C05:L0vv',
                          lambda: '%s class %d lowered by %.3f: lambda_min(dL0vv)=%.3e scale %.3e %s' % (nm, J, delta, l0, sc, desc), tags)
                # the large-omega2 algorithm inverts matrices with entries ~1e9: round-off there is ~1e-7 relative
                tol = 1e-9 if 'large_om2_algorithm' not in tags else 1e-6
                if ls < -tol * sc:
                    def meas(dd, a2=a2, args=args, kw=kw):
                        b, n = dd.Lij(*args, **kw), dd.Lij(*a2, **kw)
                        return max(0., -minlam(np.array(n[1]) - np.array(b[1]))) / sc
                    ok, ms = work_vac.resolved_by_denser_mesh(name, nth, meas, -ls / sc)
                    mon.count('checked_by_mesh_convergence')
                    if ok:
                        mon.check(True, 'C05:Lss')
                        continue
                mon.check(ls >= -tol * sc, 'C05:Lss',
                          lambda: '%s class %d lowered by %.3f: lambda_min(dLss)=%.3e scale %.3e %s' % (nm, J, delta, ls, sc, desc), tags)
                if max(np.abs(new[0] - base[0]).max(), np.abs(new[1] - base[1]).max()) > 1e-12 * sc:
                    mon.sig(['vac', name, nth, variant, nm, int(J), k])
    diff.clearcache()
    return sample


def run_case(case):
    mon = Mon()
    sample = run_inter(case, mon) if case['kind'] == 'inter' else run_vac(case, mon)
    return mon.result(sample=sample)
