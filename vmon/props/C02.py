"""C02: the interstitial diffusivity equals the exact long-time diffusivity of the jump process, and the lattice
Green-function calculator reports the same diffusivity.

Monitor: every call of Interstitial.diffusivity in a generated workload is compared with R1 (unit-cell walk with a
Hermitian pseudo-inverse, no symmetry, no vector basis) and, on connected networks, with R2 (curvature of the largest
Bloch eigenvalue); GFCrystalcalc.SetRates(...).D is compared with R1 for the same network.
"""
import numpy as np
from vmon import gen, contracts, work_inter
from vmon.util import Mon
from vmon.ref import walk

ID = 'C02'
RULE = ('random 2-D/3-D crystals from all lattice systems, 1-3 orbits, 1-2 species, random diffusing species, random safe cutoff, '
        'random prefactors in [0.5,2], energies N(0,sigma), sigma in {0.3,1,3}, all barriers shifted by 0/12/25/40 kT (absolute rates down to 1e-18); non-trivial = network has at least one jump; '
        'distinct = (lattice kind, sites, Wyckoff sets, jump classes, vector-basis size, pinv branch, components)')
ASSUMPTIONS = ['R1 tolerance 1e-9 x |D0| (uncorrelated part) - absolute in that scale because non-percolating networks have D=0',
               'R2 (finite differences) tolerance 2e-5 x |D0|, connected networks with <= 6 sites',
               'GFCrystalcalc.D compared only for connected networks, or disconnected ones whose components are symmetry related '
               '(the class documents an equal-weight average over components)',
               'cutoffs are kept 1e-4 away from every interatomic distance',
               'the Green-function calculator is only exercised when the exact D is non-singular (lambda_min > 1e-3 |D0|): the lattice '
               'Green function of a network that does not diffuse in some direction, or that only connects a sublattice of the crystal, does not exist']
REQUIRED_OBS = {'eval:C02:D=R1': 30, 'eval:C02:D=R2': 5, 'eval:C02:GF.D=R1': 5, 'with_vector_basis': 3, 'pinv_branch': 2, 'pinv_branch_NV>=2': 10,
                'multi_wyckoff': 3, 'dim2': 3}
PER_CASE = 5


def cases(tier, seed):
    n = 48 if tier == 'quick' else 600
    return [{'seed': seed, 'idx': i, 'hashseed': i % 4} for i in range(n)]


def run_case(case):
    from onsager import OnsagerCalc, GFcalc
    mon = Mon()
    rng = gen.rng_for(case['seed'], case['idx'], 2)
    sample = None
    for k in range(PER_CASE):
        if rng.uniform() < 0.25:
            # crystals without inversion: pseudo-inverse branch of the bias solver with several vector-basis functions
            spec = gen.rand_noncentro_spec(rng)
            crys = gen.make_crystal(spec)
        else:
            crys, spec = gen.rand_crystal(rng, nchem=int(rng.integers(1, 3)), maxatoms=7)
        chem = int(rng.integers(crys.Nchem))
        if len(crys.basis[chem]) > 6: continue
        cutoff = gen.safe_cutoff(crys, chem, rng, maxshell=4)
        jn = crys.jumpnetwork(chem, cutoff)
        if len(jn) == 0 or sum(len(j) for j in jn) > 400:
            mon.count('skipped_empty_or_huge')
            continue
        sl = crys.sitelist(chem)
        if len(sl) > 1 and rng.uniform() < 0.5:
            sl = [[int(i) for i in rng.permutation(sl[k])] for k in rng.permutation(len(sl))]   # user-built site list in any order
            mon.count('shuffled_sitelists')
        N = len(crys.basis[chem])
        inv = gen.invmap(sl, N)
        sigma = float(rng.choice([0.3, 1., 3.]))
        pre, bE, preT, bET = gen.rand_thermo_interstitial(rng, len(sl), len(jn), sigma)
        bET = bET + float(rng.choice([0., 0., 12., 25., 40.]))  # low-temperature data: absolute rates down to 1e-18
        desc = {'kind': spec['kind'], 'lattice': crys.lattice, 'basis': crys.basis, 'chem': chem, 'cutoff': cutoff,
                'pre': pre, 'bE': bE, 'preT': preT, 'bET': bET}
        if sample is None: sample = desc
        p = walk.site_prob(pre, bE, inv)
        jumps = walk.jump_table(jn, pre, bE, preT, bET, inv)
        Dref, Q, b, D0, eta = walk.walk_D(N, crys.dim, p, jumps, full=True)
        scale = max(np.abs(D0).max(), 1e-300)
        comps = walk.components(N, jumps)
        with mon.guard('C02:interstitial'):
            diff = OnsagerCalc.Interstitial(crys, chem, sl, jn)
            D = diff.diffusivity(pre, bE, preT, bET)
            mon.close(D, Dref, 1e-9, 'C02:D=R1', lambda: str(desc), scale=scale)
            contracts.tensor2_contract(mon, crys, D, 'D', psd=True, scale=scale, prefix='C02')
            mon.count('with_vector_basis', diff.NV > 0)
            mon.count('pinv_branch', diff.NV > 0 and not diff.omega_invertible)
            mon.count('pinv_branch_NV>=2', diff.NV >= 2 and not diff.omega_invertible)
            if diff.NV > 0 and not diff.omega_invertible:
                # pseudo-inverse branch: the same data at several absolute rate scales (each scale is a different rounding of the
                # projected rate matrix; the reference is exactly scale-covariant)
                for _ in range(6):
                    sh = float(rng.uniform(-3., 40.))
                    Dsh = diff.diffusivity(pre, bE, preT, bET + sh)
                    mon.close(Dsh * np.exp(sh), Dref, 1e-9, 'C02:D=R1', lambda: 'barriers shifted by %.6f: %s' % (sh, desc), scale=scale)
                    mon.count('pinv_branch_rate_scales')
            mon.count('multi_wyckoff', len(sl) > 1)
            mon.count('dim2', crys.dim == 2)
            mon.count('disconnected', len(comps) > 1)
            mon.count('correlated', np.abs(Dref - D0).max() > 1e-6 * scale)
            mon.sig([spec['kind'], N, len(sl), len(jn), diff.NV, bool(diff.omega_invertible), len(comps)])
        if len(comps) == 1 and N <= 6:
            D2 = walk.bloch_D(N, crys.dim, p, jumps, h=0.02 / max(cutoff, 0.3))
            if np.abs(D2 - Dref).max() <= 2e-5 * scale:
                mon.close(D, D2, 2e-5, 'C02:D=R2', lambda: str(desc), scale=scale)
            else:
                mon.count('reference_models_disagree')
        # Green-function calculator on the same network
        comparable = len(comps) == 1
        if not comparable:
            # components symmetry related?
            cs = [frozenset(c) for c in comps]
            comparable = all(any(frozenset(g.indexmap[chem][i] for i in cs[0]) == c for g in crys.G) for c in cs[1:])
        percolating = np.linalg.eigvalsh(Dref).min() > 1e-3 * scale
        mon.count('non_percolating', not percolating)
        if N <= 4 and (k % 2 == 0) and percolating and work_inter.lattice_connected(crys, chem, jn):
            with mon.guard('C02:GFcalc'):
                GF = GFcalc.GFCrystalcalc(crys, chem, sl, jn, 4)
                GF.SetRates(pre, bE, preT, bET)
                if comparable:
                    mon.close(GF.D, Dref, 1e-8, 'C02:GF.D=R1', lambda: str(desc), scale=scale)
                    mon.close(GF.Diffusivity(), Dref, 1e-8, 'C02:GF.Diffusivity()=R1', lambda: str(desc), scale=scale)
                else:
                    mon.count('gf_not_comparable')
    return mon.result(sample=sample)
