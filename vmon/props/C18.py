"""C18: the crystal's symmetry group is a correct group of self-isometries.

Monitor: post-condition contract on Crystal.__init__ (vmon.contracts.group_contract) evaluated
on every crystal constructed by a generated workload: all lattice systems, 1-3 species, scalar
and vector spins, small strains, NOSYM on/off, 2-D and 3-D.
"""
import numpy as np
from vmon import gen, contracts
from vmon.util import Mon

ID = 'C18'
RULE = ('random crystals: Bravais type drawn from all 3-D (11) and 2-D (5) systems, 1-3 Wyckoff orbits of special/general '
        'points, 1-3 species, optional scalar/vector spins, optional strain, NOSYM on/off; a case is non-trivial when the '
        'constructed crystal has more than one atom or more than one operation; distinct = (kind, atoms per species, |G|, flags)')
ASSUMPTIONS = ['positions compared modulo the lattice with tolerance 1e-6 (the class threshold is 1e-8)',
               'atoms closer than 0.25 (lattice units) are not generated']
REQUIRED_OBS = {'crystals_checked': 20, 'eval:C18:closure': 20, 'eval:C18:atom-map': 100, 'nosym_crystals': 2,
                'spin_crystals': 2, 'dim2_crystals': 3, 'noreduce_supercells': 3, 'antiferromagnets': 5, 'afm_with_threefold_axis': 5,
                'noncollinear_textures_order>2': 15, 'eval:C18:texture-generator-reported': 20}
PER_CASE = 6


def cases(tier, seed):
    n = 40 if tier == 'quick' else 500
    return [{'seed': seed, 'idx': i, 'hashseed': i % 5} for i in range(n)]


def run_case(case):
    from onsager import crystal
    mon = Mon()
    contracts.install_crystal_contract()
    rng = gen.rng_for(case['seed'], case['idx'], 18)
    sample = None
    for k in range(PER_CASE):
        nchem = int(rng.integers(1, 4))
        spec = gen.rand_crystal_spec(rng, nchem=nchem)
        flags = []
        kw = {}
        mode = rng.uniform()
        if mode < 0.2:
            kw['NOSYM'] = True
            flags.append('NOSYM')
        if 0.2 <= mode < 0.45:
            # spins: scalar +-1 pattern or vector spins along a lattice direction
            if rng.uniform() < 0.5:
                kw['spins'] = [[float(rng.choice([-1, 1])) if rng.uniform() < 0.8 else 0. for _ in lst] for lst in spec['basis']]
                flags.append('scalarspin')
            else:
                d = np.array(spec['latt'])[:, int(rng.integers(spec['dim']))]
                d = d / np.linalg.norm(d)
                kw['spins'] = [[d * float(rng.choice([-1, 1])) for _ in lst] for lst in spec['basis']]
                flags.append('vectorspin')
        latt = np.array(spec['latt'])
        if 0.6 <= mode < 0.75:
            # the same crystal described in a non-reduced supercell (noreduce=True): still a crystal, still needs a group
            from vmon.ref import equiv
            P0 = crystal.Crystal(latt, [[np.array(u) for u in lst] for lst in spec['basis']])
            S = np.diag([int(x) for x in rng.permutation([int(rng.integers(2, 4))] + [1] * (spec['dim'] - 1))])
            latt, sb = equiv.supercell_description(P0, S, rng)
            spec = dict(spec, basis=sb)
            kw['noreduce'] = True
            flags.append('noreduce-supercell')
        if 0.75 <= mode < 0.9:
            # structured antiferromagnet: the chemical cell doubled along one lattice vector, second copy with reversed spins
            # (anti-translation): every rotation of the chemical crystal survives, some only combined with a spin reversal
            from vmon.ref import equiv
            P0 = crystal.Crystal(latt, [[np.array(u) for u in lst] for lst in spec['basis']])
            ax = int(rng.integers(spec['dim']))
            S = np.eye(spec['dim'], dtype=int)
            S[ax, ax] = 2
            latt, sb = equiv.supercell_description(P0, S, None, permute=False)
            vec = rng.uniform() < 0.3
            dvec = P0.lattice[:, ax] / np.linalg.norm(P0.lattice[:, ax])
            spins = []
            for lst in sb:
                sp = []
                for u in lst:
                    sgn = 1. if (u[ax] % 1.0) < 0.5 - 1e-9 else -1.
                    sp.append(sgn * dvec if vec else sgn)
                spins.append(sp)
            spec = dict(spec, basis=sb)
            kw['spins'] = spins
            flags.append('antiferromagnet-vector' if vec else 'antiferromagnet')
        if 0.45 <= mode < 0.6:
            eps = rng.normal(size=(spec['dim'],) * 2) * 0.02
            eps = 0.5 * (eps + eps.T)
            flags.append('strain')
        else:
            eps = None
        basis = [[np.array(u) for u in lst] for lst in spec['basis']]
        with contracts.active(mon):
            with mon.guard('C18:construct', tags=flags):
                crys = crystal.Crystal(latt, basis, **kw)
                if eps is not None:
                    crys = crys.strain(eps)
                mon.count('nosym_crystals', 'NOSYM' in flags)
                mon.count('spin_crystals', kw.get('spins') is not None)
                mon.count('dim2_crystals', spec['dim'] == 2)
                mon.count('noreduce_supercells', 'noreduce-supercell' in flags)
                mon.count('antiferromagnets', any(f.startswith('antiferromagnet') for f in flags))
                if any(f.startswith('antiferromagnet') for f in flags): mon.seen('afm_group_orders', len(crys.G))
                if 'NOSYM' in flags:
                    mon.check(len(crys.G) == 1, 'C18:nosym-single-op', '|G|=%d' % len(crys.G))
                if crys.N > 1 or len(crys.G) > 1:
                    mon.sig([spec['kind'], [len(l) for l in crys.basis], len(crys.G), flags])
                if sample is None:
                    sample = {'kind': spec['kind'], 'lattice': latt, 'basis': spec['basis'], 'flags': flags,
                              'group_order': len(crys.G)}
    if case['idx'] % 4 == 0:
        # directed antiferromagnets that keep a three-fold axis: bcc "chromium" (corner up, centre down) and hexagonal layers
        # stacked up/down along c; optional random orientation / strain-free scaling
        c = float(rng.uniform(0.8, 1.6))
        hexl = np.array([[.5, .5, 0.], [-np.sqrt(.75), np.sqrt(.75), 0.], [0., 0., 2 * c]])
        for nm, latt, basis, spins in (
                ('afm-bcc', np.eye(3), [[np.zeros(3), np.array([.5, .5, .5])]], [[1., -1.]]),
                ('afm-hex-layers', hexl, [[np.zeros(3), np.array([0., 0., .5])]], [[1., -1.]]),
                ('afm-hcp-like', hexl, [[np.array([0., 0., 0.]), np.array([1 / 3, 2 / 3, .25]), np.array([0., 0., .5]), np.array([1 / 3, 2 / 3, .75])]],
                 [[1., 1., -1., -1.]])):
            with contracts.active(mon):
                with mon.guard('C18:construct', tags=[nm]):
                    crys = crystal.Crystal(latt, basis, spins=spins)
                    mon.count('antiferromagnets')
                    mon.count('afm_with_threefold_axis', any(abs(np.trace(g.cartrot)) < 1e-9 for g in crys.G))
                    mon.seen('afm_group_orders', len(crys.G))
                    mon.sig([nm, len(crys.G), round(c, 3)])
    if case['idx'] % 2 == 1:
        # directed non-collinear vector-spin textures: random moments symmetrised over the cyclic group generated by one operation g0 of
        # order > 2 (3-, 4-, 6-fold rotations, rotoinversions, screw axes) of a symmetric crystal, optionally with the alternating
        # phase (-1)^k. The texture is invariant under g0 by construction, so g0 must be reported (with its atom map), every reported
        # operation must map moments onto moments (contract), and the reported set must be closed.
        from vmon.contracts import wrap_half
        for rep in range(3):
            nm = ('kagome', 'honey', 'hcp', 'fcc', 'bcc', 'diamond', 'omega', 'tria', 'square', 'sc', 'l12', 'b2', 'tet', 'dhcp')[int(rng.integers(14))]
            P0, chem0, _ = gen.named(nm)
            dim = P0.dim
            if sum(len(l) for l in P0.basis) < 3:
                # one or two atoms per cell only give collinear textures: use the doubled cell (non-reduced description)
                from vmon.ref import equiv
                latt2, sb2 = equiv.supercell_description(P0, 2 * np.eye(dim, dtype=int), None, permute=False)
                P0 = crystal.Crystal(latt2, [[np.array(u) for u in lst] for lst in sb2], noreduce=True)
            cands = [g for g in P0.G if not np.array_equal(g.rot @ g.rot, np.eye(dim, dtype=int))]
            if not cands: continue
            g0 = cands[int(rng.integers(len(cands)))]
            powers, g = [], g0
            for k in range(1, 25):
                powers.append((k, g))
                if np.array_equal(g.rot, np.eye(dim, dtype=int)) and np.all(np.abs(wrap_half(g.trans)) < 1e-8): break
                g = g0 * g
            else:
                continue
            order = len(powers)
            alt = order % 2 == 0 and rng.uniform() < 0.4
            r = [[rng.normal(size=dim) for _ in lst] for lst in P0.basis]
            spins = [[np.zeros(dim) for _ in lst] for lst in P0.basis]
            for k, g in powers:
                for c, lst in enumerate(P0.basis):
                    for i in range(len(lst)):
                        spins[c][g.indexmap[c][i]] = spins[c][g.indexmap[c][i]] + ((-1.) ** k if alt else 1.) * (g.cartrot @ r[c][i])
            amp = max(np.linalg.norm(v) for l in spins for v in l)
            if amp < 1e-6: continue
            allv = np.array([v for l in spins for v in l])
            noncollinear = np.linalg.matrix_rank(allv, tol=1e-6 * amp) > 1
            tagsx = ['vector-texture', nm, 'order%d' % order] + (['alternating'] if alt else [])
            with contracts.active(mon):
                with mon.guard('C18:construct', tags=tagsx):
                    crys = crystal.Crystal(P0.lattice, [[u.copy() for u in lst] for lst in P0.basis], spins=spins, noreduce=True)
                    mon.count('vector_textures')
                    mon.count('noncollinear_textures', noncollinear)
                    mon.count('noncollinear_textures_order>2', noncollinear and order > 2)
                    mon.count('alternating_textures', alt)
                    # the generating operation, expressed in the (possibly re-ordered) crystal
                    hit = [h for h in crys.G if np.allclose(h.cartrot, g0.cartrot, atol=1e-8)]
                    cart_t = P0.lattice @ g0.trans
                    found = any(np.all(np.abs(wrap_half(np.linalg.solve(crys.lattice, cart_t) - h.trans)) < 1e-6) for h in hit) \
                        if np.allclose(crys.lattice, P0.lattice) else bool(hit)
                    mon.check(found, 'C18:texture-generator-reported',
                              lambda: '%s: operation rot=%s trans=%s of order %d leaves the symmetrised texture invariant (alternating=%s) but is not '
                                      'reported; %d operations reported; spins=%s' % (nm, g0.rot.tolist(), g0.trans.tolist(), order, alt, len(crys.G),
                                                                                     [[np.round(v, 6).tolist() for v in l] for l in spins]), tagsx)
                    mon.sig(['texture', nm, order, alt, len(crys.G)])
    return mon.result(sample=sample)
