"""C35: the compiled sampler behaves exactly like the reference sampler.

Differential history monitor between MonteCarloSampler (reference, pure Python) and
MonteCarloSampler_jit (numba jitclass) built from the same data through MonteCarloSampler_param
(both from an un-started and from a started sampler).  After every event (start, trial energy,
swap update, transition query, copy, batched Metropolis moves) the two must agree on E,
deltaE_trial, transitions (same order, forbidden <-> +inf), occupancy, cluster counts and the
occupied/unoccupied index arrays (every 8th event both are also compared with a third sampler
freshly started on the occupation, R8); MCmoves(batch) must equal the Metropolis rule applied move by
move with the same random numbers (decisions taken with the reference sampler's deltaE_trial).
The same histories run three ways (case `env`): compiled with NUMBA_BOUNDSCHECK=1 (out-of-bounds
index raises IndexError instead of touching foreign memory), compiled without it, and with
NUMBA_DISABLE_JIT=1 (the same source interpreted).  Small supercells additionally get a
bounded-exhaustive history: every occupation x every swap.  Two (thorough: a sixth) of the workloads of
every case are thin supercells (period <= cluster range: interactions that list one supercell site
twice, periodic image of the fixed vacancy inside the vacancy clusters).
"""
import numpy as np
from vmon import gen
from vmon.util import Mon
from vmon.ref import sampler_ref as sr

ID = 'C35'
RULE = ('per case 14 (thorough: 150) sampler workloads from the sampler menu (small, medium and large supercells; vacancy or not; jump network + '
        'TS clusters or not; spectators) x random values; workloads 1 and 2 of every case (thorough: also every 6th) come from the THIN menu '
        'of vmon.ref.sampler_ref - supercells whose period is not longer than the cluster range (fcc nn clusters in 1x2x3 / 1x1x4 / 2x2x1 / '
        '1x3x3 / 1x4x5 / non-diagonal, fcc 2x2x2 and 3x3x2 with pairs to the 4th neighbour, hcp 1x1x1 / 1x1x2 / 2x1x2, B2 with spectators '
        'and all-mobile B2 1x2x2 / 2x1x3 / 2x2x2 with cut-off 2.01, sc, bcc, diamond, rocksalt, L12, chains, planes, triangular, '
        'honeycomb) so that an interaction lists the same supercell site twice and the image of a fixed vacancy lies inside the vacancy '
        'clusters; workload 1 is drawn from the thin entries with <= 6 sites and always gets the bounded-exhaustive history; each gets a random history of 120 events (start / trial / swap / '
        'transitions / copy / MCmoves batches of 1..40 moves with kT in {0.05,1,20} incl. kT*log(u)=0 entries) and small cells '
        '(<= 6 mobile sites) a bounded-exhaustive history (every occupation x every swap and back); identical case lists for the '
        'three numba modes; non-trivial = history with accepted and rejected moves / allowed and forbidden transitions; '
        'distinct = (crystal, supercell, cutoff, order, variant, numba mode)')
ASSUMPTIONS = ['energies / barriers compared with tolerance 1e-9 x sum of |interaction values| (summation order differs between the two '
               'implementations); integer state compared exactly',
               'deltaE_trial/update of the compiled sampler are only called with an unoccupied site to occupy and an occupied site to '
               'vacate (its docstring leaves other inputs unspecified); MCmoves choices are drawn inside [0,Nunocc) x [0,Nocc)',
               'a Metropolis decision whose reference dE is within 1e-9 x scale of kT*log(u) is not compared (counted as tie)',
               'the order of sites inside occupied_set/unoccupied_set is implementation defined: the move-by-move reference reads the '
               'trial sites from a copy of the compiled sampler that is advanced one move at a time; the batch must then reproduce '
               'that copy bit for bit',
               'self-wrapping (thin) supercells are in scope; the oracle there is the same differential one (compiled vs reference vs '
               'freshly started reference), which needs no model of what a self-wrapping cluster means; the thin-regime counters come '
               'from a geometry-only census (vmon.ref.sampler_ref.placement_stats), not from the lists of the samplers under test']
MODES = {'boundscheck': {'NUMBA_BOUNDSCHECK': '1'}, 'compiled': {'NUMBA_BOUNDSCHECK': '0'}, 'interpreted': {'NUMBA_DISABLE_JIT': '1'}}
REQUIRED_OBS = {'histories:boundscheck': 10, 'histories:compiled': 10, 'histories:interpreted': 10, 'boundscheck_probe_raised': 1,
                'eval:C35:E': 3000, 'eval:C35:deltaE_trial': 1000, 'eval:C35:transitions': 1000, 'eval:C35:forbidden=inf': 1000,
                'eval:C35:index-arrays': 3000, 'eval:C35:clustercount': 3000, 'eval:C35:occ': 3000,
                'eval:C35:metropolis-step': 1000, 'eval:C35:batch=stepwise': 60, 'eval:C35:copy-independent': 60,
                'eval:C35:trial-is-pure': 1000, 'eval:C35:E=fresh-reference': 300, 'moves:accepted': 200, 'moves:rejected': 200, 'transitions:forbidden': 1000,
                'transitions:allowed': 1000, 'jit_from:unstarted': 6, 'jit_from:started': 6, 'variant:vac+jumps': 3, 'variant:vac': 3,
                'variant:jumps': 3, 'variant:plain': 3, 'exhaustive_histories': 3, 'events:start': 100, 'events:swap': 1000,
                # thin (self-wrapping) regime
                'thin_supercells': 12, 'thin:exhaustive_histories': 3, 'thin:vac': 3, 'thin:jumps': 3, 'self_wrapping_instances': 300,
                'vacancy_image_in_range': 30, 'events:trial-double-site': 1000, 'thin:mcmoves': 60}
CASE_TIMEOUT = 600
CHUNK = 1  # one case per worker process: the compilation cost is paid once per case, the case holds many histories

POOL = [('small', c) for c in sr.menu('small')] + [('medium', c) for c in sr.menu('medium')] + \
       [('large', (n, k)) for n, k in [('fcc', 0), ('fcc', 1), ('bcc', 0), ('bcc', 3), ('sc', 0), ('sc', 1), ('hcp', 1), ('diamond', 0),
                                       ('b2', 0), ('b2', 1), ('rocksalt', 0), ('l12', 0), ('tet', 0), ('tet', 1), ('plane', 0), ('plane', 1),
                                       ('tri', 0), ('honey', 0), ('honey', 1), ('chain2', 0), ('b2mob', 0), ('diamond', 1)]]
THIN = sr.menu('thin')
THIN6 = [c for c in THIN if 2 <= sr.menu_nsites('thin', *c) <= 6]
VARIANTS = ('plain', 'jumps', 'vac', 'vac+jumps')
# <= 6 mobile sites: bounded-exhaustive histories
SMALL6 = [('chain', 1), ('chain', 2), ('chain', 3), ('chain', 6), ('chain', 7), ('chain', 10), ('chain2', 0), ('chain2', 1), ('chain2', 3),
          ('chain2', 5), ('chainspec', 1), ('chainspec', 2), ('chainspec', 3), ('chainspec', 6), ('ladder', 0), ('ladder', 1), ('ladder', 3),
          ('plane', 0), ('plane', 1), ('tri', 0), ('fcc', 1), ('honey', 2)]


def cases(tier, seed):
    ncase, hseeds = (5, [seed % 3]) if tier == 'quick' else (16, [seed % 5, (seed + 2) % 5])
    out = []
    for hs in hseeds:
        for mode in ('boundscheck', 'compiled', 'interpreted'):
            for i in range(ncase):
                out.append({'seed': seed, 'idx': i + 100 * hseeds.index(hs), 'hashseed': hs, 'mode': mode, 'env': MODES[mode],
                            'nwork': 14 if tier == 'quick' else 150, 'length': 120 if tier == 'quick' else 200})
    return out


class Pair:
    """reference sampler P and compiled sampler J in lockstep"""

    def __init__(self, mon, P, J, desc, F=None):
        self.mon, self.P, self.J, self.desc, self.F = mon, P, J, desc, F
        self.ncompare = 0
        self.scale = sr.energy_scale(P)
        self.qscale = sr.barrier_scale(P)
        self.N = len(P.Ninteract)
        self.vac = P.vacancy if P.vacancy >= 0 else None
        self.transitions_raised = False
        self.double = set()  # sites that occur twice in one cluster placement (thin supercells)
        self.thin = False

    def compare(self, what, J=None):
        mon, P = self.mon, self.P
        J = self.J if J is None else J
        occ = np.asarray(P.occ)
        info = lambda: '%s after %s occ=%s' % (self.desc, what, occ.tolist())
        with mon.guard('C35:state'):
            Jocc = np.array(J.occ)
            mon.check(np.array_equal(Jocc, occ), 'C35:occ', lambda: 'compiled occ %s | %s' % (Jocc.tolist(), info()))
            mon.close(J.E(), P.E(), 1e-9, 'C35:E', info, scale=self.scale)
            mon.check(np.array_equal(np.array(J.clustercount), P.clustercount), 'C35:clustercount', info)
            Nocc, Nunocc = int(J.Nocc), int(J.Nunocc)
            oset, uset, idx = np.array(J.occupied_set), np.array(J.unoccupied_set), np.array(J.index)
            ok = Nocc == len(P.occupied_set) and Nunocc == len(P.unoccupied_set) and 0 <= Nocc <= len(oset) and 0 <= Nunocc <= len(uset)
            ok = ok and set(oset[:Nocc].tolist()) == set(P.occupied_set) and set(uset[:Nunocc].tolist()) == set(P.unoccupied_set)
            if ok:
                for i in range(self.N):
                    if occ[i] == 1: ok = ok and 0 <= idx[i] < Nocc and oset[idx[i]] == i
                    elif occ[i] == 0: ok = ok and 0 <= idx[i] < Nunocc and uset[idx[i]] == i
                    else: ok = ok and idx[i] == -1
            mon.check(ok, 'C35:index-arrays', lambda: 'Nocc=%d Nunocc=%d occupied_set=%s unoccupied_set=%s index=%s | %s' % (
                Nocc, Nunocc, oset.tolist(), uset.tolist(), idx.tolist(), info()))
        self.transitions(what, J)
        self.ncompare += 1
        if self.F is not None and self.ncompare % 8 == 1:
            self.fresh(what, J)

    def fresh(self, what, J=None):
        """R8: neither sampler may have drifted from a third sampler freshly started on the occupation
        (a compiled sampler that shares arrays with the reference would corrupt both consistently)"""
        mon, P, F = self.mon, self.P, self.F
        J = self.J if J is None else J
        info = lambda: '%s after %s occ=%s' % (self.desc, what, np.asarray(P.occ).tolist())
        F.start(np.array(P.occ))
        with mon.guard('C35:state'):
            mon.close(J.E(), F.E(), 1e-9, 'C35:E=fresh-reference', info, scale=self.scale)
            mon.check(np.array_equal(np.array(J.clustercount), F.clustercount) and np.array_equal(P.clustercount, F.clustercount),
                      'C35:clustercount=fresh-reference', info)

    def transitions(self, what, J=None):
        mon, P = self.mon, self.P
        J = self.J if J is None else J
        occ = np.asarray(P.occ)
        info = lambda: '%s transitions after %s occ=%s' % (self.desc, what, occ.tolist())
        if self.transitions_raised:
            return  # already reported for this sampler (a failing compilation is retried, slowly, on every call)
        with mon.guard('C35:transitions'):
            self.transitions_raised = True
            ij, Q, dx = J.transitions()
            self.transitions_raised = False
            ij, Q, dx = np.array(ij), np.array(Q), np.array(dx)
            if P.jumps is None:
                mon.check(ij.shape == (0, 2) and Q.shape == (0,), 'C35:transitions', lambda: 'no jump network but %s | %s' % (ij.shape, info()))
                return
            njump = len(P.jumps)
            ijP, QP, dxP = P.transitions()
            allowed = np.array([occ[i] == -1 or (occ[i] == 1 and occ[j] == 0) for (i, j), _ in P.jumps], dtype=bool)
            same = ij.shape == (njump, 2) and Q.shape == (njump,) and dx.shape == (njump, 3) \
                and all(int(ij[n, 0]) == P.jumps[n][0][0] and int(ij[n, 1]) == P.jumps[n][0][1] and np.array_equal(dx[n], P.jumps[n][1])
                        for n in range(njump))
            mon.check(same, 'C35:jump-list', info)
            if not same: return
            mon.count('transitions:allowed', int(allowed.sum()))
            mon.count('transitions:forbidden', int((~allowed).sum()))
            mon.check(bool(np.all(Q[~allowed] == np.inf)) and bool(np.all(np.isfinite(Q[allowed]))), 'C35:forbidden=inf',
                      lambda: 'allowed=%s Q=%s | %s' % (allowed.astype(int).tolist()[:40], Q.tolist()[:40], info()))
            ok = [(int(a), int(b)) for a, b in ij[np.isfinite(Q)]] == [(int(a), int(b)) for a, b in ijP] and len(QP) == int(np.isfinite(Q).sum())
            mon.check(ok, 'C35:transitions', lambda: 'finite %s vs reference %s | %s' % (ij[np.isfinite(Q)].tolist()[:20], list(ijP)[:20], info()))
            if ok and len(QP):
                mon.close(Q[np.isfinite(Q)], np.array(QP), 1e-9, 'C35:barriers', info, scale=self.qscale)
                mon.check(np.array_equal(dx[np.isfinite(Q)], np.array(dxP)), 'C35:displacements', info)

    def start(self, occ, what):
        mon = self.mon
        given = occ.copy()
        with mon.guard('C35:start'):
            self.J.start(occ)
            mon.check(np.array_equal(occ, given), 'C35:start-keeps-argument', self.desc)
        self.P.start(given.copy())
        mon.count('events:start')
        self.compare(what)

    def trial(self, i, j, what):
        """i: unoccupied site to occupy, j: occupied site to vacate"""
        mon, P, J = self.mon, self.P, self.J
        info = lambda: '%s %s occupy %d vacate %d occ=%s' % (self.desc, what, i, j, np.asarray(P.occ).tolist())
        ref = P.deltaE_trial((i,), (j,))
        if i in self.double or j in self.double: mon.count('events:trial-double-site')
        with mon.guard('C35:deltaE_trial'):
            before = (np.array(J.occ), np.array(J.clustercount), np.array(J.occupied_set), np.array(J.unoccupied_set), np.array(J.index),
                      int(J.Nocc), int(J.Nunocc))
            dE = J.deltaE_trial(i, j)
            mon.close(dE, ref, 1e-9, 'C35:deltaE_trial', info, scale=self.scale)
            after = (np.array(J.occ), np.array(J.clustercount), np.array(J.occupied_set), np.array(J.unoccupied_set), np.array(J.index),
                     int(J.Nocc), int(J.Nunocc))
            mon.check(all(np.array_equal(a, b) for a, b in zip(before, after)), 'C35:trial-is-pure', info)
        return ref

    def swap(self, i, j, what):
        mon = self.mon
        self.trial(i, j, what)
        with mon.guard('C35:update'):
            self.J.update(i, j)
        self.P.update((i,), (j,))
        mon.count('events:swap')
        self.compare(what + ' update(%d,%d)' % (i, j))

    def mcmoves(self, rng, nmoves, kT, what):
        mon, P, J = self.mon, self.P, self.J
        Nocc, Nunocc = len(P.occupied_set), len(P.unoccupied_set)
        if Nocc == 0 or Nunocc == 0:
            mon.count('mcmoves:skipped-no-pair')
            return
        oc = rng.integers(0, Nunocc, size=nmoves)
        uc = rng.integers(0, Nocc, size=nmoves)
        u = rng.uniform(size=nmoves)
        u[rng.uniform(size=nmoves) < 0.1] = 1.
        kl = -kT * np.log(u) + 0.
        info = lambda: '%s %s occchoices=%s unoccchoices=%s kTlogu=%s start occ=%s' % (self.desc, what, oc.tolist(), uc.tolist(), kl.tolist(), occ0.tolist())
        occ0 = np.array(P.occ)
        A = B = None
        with mon.guard('C35:copy'):
            A, B = J.copy(), J.copy()
        if A is None: return
        with mon.guard('C35:MCmoves'):
            A.MCmoves(oc, uc, kl)
        ok = True
        with mon.guard('C35:MCmoves-single'):
            for k in range(nmoves):
                i, j = int(B.unoccupied_set[oc[k]]), int(B.occupied_set[uc[k]])
                if i not in P.unoccupied_set or j not in P.occupied_set:
                    mon.check(False, 'C35:metropolis-step', lambda: 'move %d picks sites (%d,%d) that are not (unoccupied, occupied) | %s' % (k, i, j, info()))
                    ok = False
                    break
                dE = P.deltaE_trial((i,), (j,))
                B.MCmoves(oc[k:k + 1], uc[k:k + 1], kl[k:k + 1])
                Bocc = np.array(B.occ)
                if abs(dE - kl[k]) <= 1e-9 * self.scale:
                    mon.count('moves:tie-not-compared')
                    if Bocc[i] == 1: P.update((i,), (j,))
                    continue
                accept = dE < kl[k]
                if accept: P.update((i,), (j,))
                mon.count('moves:accepted' if accept else 'moves:rejected')
                good = np.array_equal(Bocc, np.asarray(P.occ))
                mon.check(good, 'C35:metropolis-step', lambda: 'move %d (occupy %d vacate %d) dE=%r kTlogu=%r reference %s | %s' % (
                    k, i, j, dE, kl[k], 'accepts' if accept else 'rejects', info()))
                if not good:
                    ok = False
                    break
        if not ok:
            # re-synchronise the reference on what the compiled sampler holds
            P.start(np.array(B.occ))
        with mon.guard('C35:state'):
            na, nu = int(A.Nocc), int(A.Nunocc)
            same = np.array_equal(np.array(A.occ), np.array(B.occ)) and na == int(B.Nocc) and nu == int(B.Nunocc) \
                and np.array_equal(np.array(A.occupied_set)[:na], np.array(B.occupied_set)[:na]) \
                and np.array_equal(np.array(A.unoccupied_set)[:nu], np.array(B.unoccupied_set)[:nu]) \
                and np.array_equal(np.array(A.index), np.array(B.index)) and np.array_equal(np.array(A.clustercount), np.array(B.clustercount))
            mon.check(same, 'C35:batch=stepwise', lambda: 'batch occ %s stepwise occ %s | %s' % (np.array(A.occ).tolist(), np.array(B.occ).tolist(), info()))
            mon.check(np.array_equal(np.array(J.occ), occ0), 'C35:copy-independent', info)
        self.J = A
        mon.count('events:mcmoves')
        mon.count('thin:mcmoves', self.thin)
        self.compare(what)


def make_jit(mon, P):
    from onsager import cluster
    J = None
    with mon.guard('C35:construct'):
        J = cluster.MonteCarloSampler_jit(**cluster.MonteCarloSampler_param(P))
    return J


def one_workload(mon, rng, which, cfg, variant, length, mode, force_exhaustive=False):
    name, k = cfg
    S = sr.Setup(which, name, k, rng, const=bool(rng.uniform() < 0.8), kra=str(rng.choice(['vector', 'scalar', 'zero'])),
                 zero_fraction=float(rng.choice([0., 0., 0.3])))
    vac = int(rng.choice(S.chemsites)) if variant.startswith('vac') else None
    jumps = variant.endswith('jumps')
    desc = str(dict(S.describe(), variant=variant, vacancy=vac, numba=mode))
    ts = bool(rng.uniform() < 0.7)
    P = S.sampler(vac, jumps, ts)
    F = S.sampler(vac, jumps, ts)
    free = np.array([n for n in range(S.Nsites) if n != vac])
    mon.count('variant:' + variant)
    mon.seen('crystals', name)
    mon.note_max('Nsites', S.Nsites)
    double = set()
    if which == 'thin':
        st = sr.placement_stats(S.supercell(vac), S.clusters_values(vac)[0])
        double = st['double_sites']
        mon.count('thin_supercells')
        mon.count('thin:vac', vac is not None)
        mon.count('thin:jumps', jumps)
        mon.count('self_wrapping_instances', st['self_wrapping'])
        mon.count('vacancy_image_in_range', st['vacancy_image'])
        mon.count('thin:cells-with-self-wrapping', st['self_wrapping'] > 0)
        mon.count('thin:cells-with-vacancy-image', st['vacancy_image'] > 0)
        mon.seen('thin:cells', '%s %s' % (name, S.superlatt.tolist()))
        desc = str(dict(S.describe(), variant=variant, vacancy=vac, numba=mode, thin={k: v for k, v in st.items() if k != 'double_sites'}))
    # (a) compiled sampler from the un-started reference: must be the all-occupied state
    J = make_jit(mon, P)
    if J is None: return desc
    full = np.ones(S.Nsites, dtype=int)
    if vac is not None: full[vac] = -1
    P.start(full.copy())
    pair = Pair(mon, P, J, desc, F)
    pair.double, pair.thin = double, which == 'thin'
    pair.compare('construction from the un-started sampler (all occupied)')
    mon.count('jit_from:unstarted')
    if rng.uniform() < 0.5:
        # (b) continue with a compiled sampler made from the started reference
        occ = S.rand_occ(rng, vac)
        P.start(occ.copy())
        J2 = make_jit(mon, P)
        if J2 is not None:
            pair = Pair(mon, P, J2, desc, F)
            pair.double, pair.thin = double, which == 'thin'
            pair.compare('construction from the started sampler')
            mon.count('jit_from:started')
            # the un-started one must not share state with it
            with mon.guard('C35:state'):
                mon.check(np.array_equal(np.array(J.occ), full), 'C35:copy-independent', 'first compiled sampler changed when a second one was built: ' + desc)
    else:
        pair.start(S.rand_occ(rng, vac), 'first start')
    mon.count('histories:' + mode)
    if S.Nsites <= 6 and (force_exhaustive or rng.uniform() < 0.7):
        mon.count('exhaustive_histories')
        mon.count('thin:exhaustive_histories', which == 'thin')
        for occ in S.all_occ(vac):
            if len(mon.viol) >= 25: break
            pair.start(occ, 'exhaustive start')
            for i in [int(x) for x in free if occ[x] == 0]:
                for j in [int(x) for x in free if occ[x] == 1]:
                    pair.swap(i, j, 'exhaustive')
                    pair.swap(j, i, 'exhaustive back')
    old = None
    for step in range(length):
        if len(mon.viol) >= 25: break  # the report is full
        what = 'history step %d' % step
        occd, unoc = sorted(pair.P.occupied_set), sorted(pair.P.unoccupied_set)
        r = rng.uniform()
        if r < 0.07:
            pair.start(S.rand_occ(rng, vac), what + ' start')
        elif r < 0.55 and occd and unoc:
            pair.swap(int(rng.choice(unoc)), int(rng.choice(occd)), what)
        elif r < 0.70 and occd and unoc:
            pair.trial(int(rng.choice(unoc)), int(rng.choice(occd)), what + ' trial only')
            pair.compare(what + ' trial only')
        elif r < 0.76:
            with mon.guard('C35:copy'):
                old = (pair.J, np.array(pair.J.occ))
                pair.J = pair.J.copy()
                mon.count('events:copy')
            pair.compare(what + ' copy')
        else:
            pair.mcmoves(rng, int(rng.integers(1, 41)), float(rng.choice([0.05, 1., 20.])), what + ' MCmoves')
        if step == length - 1:
            pair.fresh(what + ' (end of history)')
        if old is not None and step % 7 == 0:
            with mon.guard('C35:state'):
                mon.check(np.array_equal(np.array(old[0].occ), old[1]), 'C35:copy-independent', 'the original changed after its copy was used: ' + desc)
    mon.sig([name, S.superlatt.tolist(), S.cutoff, S.order, variant, mode])
    return desc


def numba_mode():
    import numba
    if numba.config.DISABLE_JIT: return 'interpreted'
    return 'boundscheck' if numba.config.BOUNDSCHECK else 'compiled'


def run_case(case):
    import numba
    mon = Mon()
    mode = numba_mode()
    if mode != case['mode']:
        return mon.result(sample=case, inconclusive='numba mode is %s but the case asks for %s' % (mode, case['mode']))
    mon.seen('numba_modes', mode)
    if mode == 'boundscheck':
        # evidence that the sanitizer is live in this process
        @numba.njit
        def probe(a, i):
            return a[i]
        try:
            probe(np.zeros(3), 7)
        except IndexError:
            mon.count('boundscheck_probe_raised')
    else:
        mon.count('boundscheck_probe_raised', 0)
    rng = gen.rng_for(case['seed'], case['idx'], 35)
    sample = None
    for w in range(case['nwork']):
        if w == 0:
            which, cfg = 'small', SMALL6[int(rng.integers(len(SMALL6)))]
        elif w == 1:
            which, cfg = 'thin', THIN6[int(rng.integers(len(THIN6)))]
        elif w == 2 or (case['nwork'] > 20 and w % 6 == 5):
            which, cfg = 'thin', THIN[int(rng.integers(len(THIN)))]
        else:
            which, cfg = POOL[int(rng.integers(len(POOL)))]
        variant = VARIANTS[(w + case['idx']) % 4]
        desc = one_workload(mon, rng, which, tuple(cfg), variant, case['length'], mode, force_exhaustive=(w == 1))
        if sample is None: sample = desc
    return mon.result(sample=sample)
