"""C27: supercell symmetry and equivalence mapping are sound and complete.

Contract on every constructed Supercell: the site table is the documented one; each operation of
G is an integer unimodular rotation whose indexmap[0] is a permutation with
pos[pi(n)] = rot.pos[n]+trans (mod 1) that preserves the native chemistry, cartrot = A.rot.A^-1
is orthogonal; G equals, as a set, the independent enumeration R11 (brute-force space group of
the crystal x internal translations, vmon.ref.supergroup).  Monitor on equivalencemap: pairs
related by a random operation of R11 and a random reordering must give (g, mapping) with the
documented identities and (g*self).reorder(mapping) == other; whether a perturbed pair is
related is decided by brute force over R11 and the answer must be (None, None) exactly when it
is not.  Workload: random 3-D crystals x random non-diagonal integer supercells.
History workload: per supercell a pair of objects is walked through 5 steps of [ask for the defect content] ->
[modify in place: *= g, setocc, sup[n]=c, sup[pos]=c, reorder, fillperiodic, POSCAR_occ] -> [bring the partner, in
place too, to an image of the result] -> [equivalencemap in both roles]; a dict model (R7, vmon.ref.supergroup.DictSuper)
follows the documented update rules, and every answer is compared with the brute-force classification of the model
occupations over R11.
"""
import warnings
import numpy as np
from vmon import gen
from vmon.util import Mon
from vmon.ref import geom, supergroup as R

ID = 'C27'
RULE = ('random 3-D crystal (all lattice systems, 1-3 orbits, 1-2 species, <=4 atoms) x random integer supercell matrix '
        '(random entries in -2..2, or diagonal x random unimodular so that the crystal symmetry survives; det -8..8, '
        'negative entries, non-diagonal) x interstitial sublattice on/off x Nsolute 0..2 x NOSYM on/off; per supercell 3 '
        'occupations (native fill + 1-4 vacancy/solute/antisite/interstitial defects, or fully random) each giving one '
        'related pair (random R11 operation + random reordering) and 2-3 perturbed pairs (atom moved / species changed / '
        'reshuffled) classified by brute force; non-trivial = supercell with > 1 site; distinct = (lattice kind, atoms per '
        'species, S, interstitial, Nsolute, NOSYM). In-place histories (one per supercell, own random stream): objects X, Y '
        '(Y = image of X under a random R11 operation, reordered) and 5 steps, each: pick the target (X 60% / Y 40%); ask it '
        'for its defect content (defectindices / KrogerVink / str / nothing, 25% each); modify it in place (40% *= g with g '
        'from its own G, 80% of them chosen to move a defect site; 10% each setocc, sup[n]=c, sup[pos]=c with a defect-making '
        'or healing species, reorder with a random mapping, fillperiodic(Wyckoff on/off), POSCAR_occ of the POSCAR string of '
        'a perturbed configuration); with probability 0.7 (0.25 after *= / reorder, which keep the pair related) bring the '
        'partner, in place by setocc / sup[n]=c in random order (80%) or POSCAR_occ (20%), to the image of the target under a '
        'random R11 operation; then X.equivalencemap(Y) and (50%) Y.equivalencemap(X), each compared with the brute-force '
        'classification over R11 (same clauses as for fresh pairs, tag inplace-history; query-then-imul when an object was '
        'asked for its defects and then multiplied in place by an operation moving a defect since its last equivalencemap)')
ASSUMPTIONS = ['history workload: expected occupations come from the dict model R7 driven by the documented update rules (occupation '
               'after *= g: new[perm[n]] = old[n] with the geometric reference permutation of g, chemorder mapped likewise); after '
               '*= and reorder the object must equal the model exactly (clauses C27:inplace-imul / inplace-reorder, anchors of this '
               'property); after the bulk edits (setocc, item assignment, fillperiodic, POSCAR_occ: domain of C28) the occupation '
               'must agree and the presentation order is taken from the object, a disagreement only ends the history '
               '(history_dropped_model_mismatch:*, never observed)',
               'positions compared modulo the supercell with tolerance 1e-6 (sites are >= 0.25/|S| apart)',
               'the crystal space group used by R11 is the brute-force one of vmon.ref.geom (integer rotations with '
               'entries |m|<=2 in the reduced cell), not Crystal.G',
               'two-dimensional crystals are outside the domain: Supercell (documented for 3x3 matrices) cannot be '
               'constructed for them on any tree; the attempt is only recorded (dim2_supercell_unsupported)',
               'related pairs whose configuration has no defect at all are generated in a separate sub-workload tagged '
               "'defect-free'"]
LIMITS = {'max_sites': 40, 'max_det': 8, 'dimension': 3}
REQUIRED_OBS = {'supercells_checked': 40, 'eval:C27:sites': 40, 'eval:C27:op-geometry': 400, 'eval:C27:G=R11': 40,
                'related_pairs': 80, 'unrelated_pairs': 60, 'eval:C27:equiv-found': 80, 'eval:C27:equiv-none': 60,
                'eval:C27:equiv-reorder-eq': 80, 'unrelated_same_stoichiometry': 20, 'supercells_broken_symmetry': 5,
                'supercells_full_symmetry': 5, 'interstitial_supercells': 5, 'nosym_supercells': 3,
                'negative_det_supercells': 5, 'nonidentity_relating_ops': 30,
                'inplace_histories': 60, 'history_steps': 300, 'inplace_history_pairs': 400, 'inplace_history_related': 300,
                'inplace_history_unrelated': 40, 'history_pairs_after_query_then_imul': 50, 'history_imul_moving_defect': 60,
                'history_pairs_self_modified': 300, 'history_pairs_other_modified': 300, 'eval:C27:inplace-imul': 100,
                'eval:C27:inplace-reorder': 25, 'history_mutation:setocc': 20, 'history_mutation:setitem': 20,
                'history_mutation:setitem-pos': 20, 'history_mutation:fillperiodic': 20, 'history_mutation:POSCAR_occ': 20,
                'history_morph:edits': 100, 'history_morph:POSCAR_occ': 15}
PER_CASE = 3
CASE_TIMEOUT = 600


def cases(tier, seed):
    n = 48 if tier == 'quick' else 1600
    return [{'seed': seed, 'idx': i, 'hashseed': i % 6, 'tier': tier} for i in range(n)]


# ------------------------------------------------------------------------------ generators
def rand_unimodular(rng, dim, nshear=3):
    P = np.eye(dim, dtype=int)[rng.permutation(dim)] * rng.choice([-1, 1], size=dim)
    U = P.copy()
    for _ in range(int(rng.integers(1, nshear + 1))):
        i, j = rng.choice(dim, size=2, replace=False)
        U[:, i] += int(rng.choice([-1, 1])) * U[:, j]
    return U


def rand_super(rng, dim, maxdet):
    """-> (S, mode)"""
    for _ in range(10000):
        mode = rng.uniform()
        if mode < 0.45:
            S, name = rng.integers(-2, 3, size=(dim, dim)), 'random'
        elif mode < 0.9:
            d = rng.choice([1, 1, 2, 2, 3, 4], size=dim)
            S, name = np.diag(d) @ rand_unimodular(rng, dim), 'diag.U'
        else:
            k = int(rng.choice([1, 2]))
            S, name = k * rand_unimodular(rng, dim), 'kI.U'
        det = int(round(np.linalg.det(S)))
        if not (1 <= abs(det) <= maxdet): continue
        if np.abs(S).max() > 6: continue
        if not np.any(S - np.diag(np.diag(S))): continue
        return np.array(S, dtype=int), name
    raise RuntimeError('no supercell matrix')


def rand_occupation(rng, sup, chemidx, interstitial, nchem_crys, nchem):
    """list of species per site"""
    nsites = len(sup.pos)
    native = [chemidx[n % sup.N] for n in range(nsites)]
    if rng.uniform() < 0.2:
        return [int(rng.integers(-1, nchem)) for _ in range(nsites)], 'random'
    occ = [(-1 if c in interstitial else c) for c in native]
    ndef = int(rng.integers(1, 5))
    for n in rng.choice(nsites, size=min(ndef, nsites), replace=False):
        n = int(n)
        choices = [-1] + list(range(nchem_crys, nchem))
        if native[n] in interstitial:
            choices = [native[n]] + list(range(nchem_crys, nchem)) + [native[n]]
        elif nchem_crys > 1 and rng.uniform() < 0.3:
            choices = [c for c in range(nchem_crys) if c != native[n]]
        occ[n] = int(choices[rng.integers(len(choices))])
    return occ, 'defects'


def build(template, occ, order=None):
    """Supercell with the given occupation; sites are occupied in the order given (per species)."""
    s = template.copy()
    if order is None:
        for n, c in enumerate(occ):
            if c != -1: s.setocc(n, int(c))
    else:
        for c, lst in enumerate(order):
            for n in lst: s.setocc(int(n), c)
    return s


# ------------------------------------------------------------------------------ contract
def supercell_contract(mon, sup, crys, S, tags, desc, tol=1e-6):
    """-> reference operations (R11) or None when the site table itself is wrong"""
    dim = crys.dim
    nsites = sup.N * sup.size
    mon.count('supercells_checked')
    ok, msg = R.check_sites(sup.pos, S, crys.basis, crys.atomindices, tol)
    mon.check(ok and sup.size == abs(int(round(np.linalg.det(S)))) and sup.N == crys.N, 'C27:sites', lambda: '%s %s' % (msg, desc), tags)
    mon.close(sup.lattice, crys.lattice @ S, 1e-12, 'C27:superlattice', desc, tags)
    if not ok: return None
    chem = [crys.atomindices[n % sup.N][0] for n in range(nsites)]
    A, Ainv = crys.lattice @ S, np.linalg.inv(crys.lattice @ S)
    G = list(sup.G)
    for g in G:
        shape_ok = (isinstance(g.indexmap, tuple) and len(g.indexmap) == 1 and len(g.indexmap[0]) == nsites
                    and np.shape(g.rot) == (dim, dim) and np.shape(g.trans) == (dim,) and np.shape(g.cartrot) == (dim, dim))
        mon.check(shape_ok, 'C27:op-shape', lambda: 'indexmap %s rot %s %s' % (np.shape(g.indexmap), np.shape(g.rot), desc), tags)
        if not shape_ok: continue
        pi = [int(x) for x in g.indexmap[0]]
        isperm = sorted(pi) == list(range(nsites))
        mon.check(isperm, 'C27:op-permutation', lambda: 'indexmap %s %s' % (pi, desc), tags)
        mon.check(np.issubdtype(np.asarray(g.rot).dtype, np.integer) and abs(abs(np.linalg.det(g.rot)) - 1) < 1e-9,
                  'C27:op-unimodular', lambda: 'rot %s' % np.asarray(g.rot).tolist(), tags)
        if not isperm: continue
        img = sup.pos @ np.asarray(g.rot, dtype=float).T + g.trans
        err = np.abs(R.wrap_half(img - sup.pos[pi])).max()
        mon.check(err < tol, 'C27:op-geometry', lambda: 'max |rot.pos+trans-pos[pi]| = %.3e rot=%s trans=%s %s' % (
            err, np.asarray(g.rot).tolist(), np.asarray(g.trans).tolist(), desc), tags)
        mon.check(all(chem[pi[n]] == chem[n] for n in range(nsites)), 'C27:op-native-chemistry', lambda: 'indexmap %s %s' % (pi, desc), tags)
        mon.close(g.cartrot, A @ g.rot @ Ainv, 1e-9, 'C27:op-cartrot', desc, tags)
        mon.close(g.cartrot @ g.cartrot.T, np.eye(dim), 1e-9, 'C27:op-isometry', desc, tags)
        mon.check(np.all(np.asarray(g.trans) > -1e-9) and np.all(np.asarray(g.trans) < 1 + 1e-9), 'C27:op-trans-in-cell',
                  lambda: 'trans %s' % np.asarray(g.trans).tolist(), tags)
    return chem


def compare_groups(mon, sup, ops, tags, desc, tol=1e-6):
    """sup.G == R11 as sets of (rot, trans mod 1, permutation)"""
    ref = {}
    for k, (rot, tr, perm) in enumerate(ops):
        ref.setdefault((rot.tobytes(), perm), []).append(k)
    used, extra = set(), []
    for g in sup.G:
        key = (np.asarray(g.rot, dtype=int).tobytes(), tuple(int(x) for x in g.indexmap[0]))
        hit = [k for k in ref.get(key, []) if k not in used and np.all(np.abs(R.wrap_half(ops[k][1] - g.trans)) < tol)]
        if hit: used.add(hit[0])
        else: extra.append((np.asarray(g.rot).tolist(), np.asarray(g.trans).tolist()))
    missing = [(ops[k][0].tolist(), ops[k][1].tolist()) for k in range(len(ops)) if k not in used]
    mon.check(not extra and not missing and len(sup.G) == len(ops), 'C27:G=R11',
              lambda: '|G|=%d |R11|=%d not-in-R11=%s missing-from-G=%s %s' % (len(sup.G), len(ops), extra[:2], missing[:2], desc), tags)
    return not extra and not missing


# ------------------------------------------------------------------------------ equivalencemap monitor
def snapshot(s):
    return ([int(x) for x in s.occ], [[int(x) for x in l] for l in s.chemorder])


def check_equivalence(mon, a, b, expect_related, ops, tags, desc, kind):
    """a.equivalencemap(b) against the brute-force verdict"""
    sa, sb = snapshot(a), snapshot(b)
    try:
        with warnings.catch_warnings():
            warnings.simplefilter('ignore')
            g, mapping = a.equivalencemap(b)
    except Exception as e:
        mon.check(False, 'C27:equivalencemap:raises:' + type(e).__name__, '%s: %s | %s pair, a=%s b=%s %s' % (
            type(e).__name__, e, kind, sa, sb, desc), tags)
        return
    mon.check(snapshot(a) == sa and snapshot(b) == sb, 'C27:equiv-no-side-effect', lambda: '%s pair %s' % (kind, desc), tags)
    if not expect_related:
        mon.check(g is None and mapping is None, 'C27:equiv-none', lambda: 'unrelated (%s) pair answered g=%s mapping=%s; a=%s b=%s %s' % (
            kind, g, mapping, sa, sb, desc), tags)
        return
    found = g is not None and mapping is not None
    mon.check(found, 'C27:equiv-found', lambda: 'related (%s) pair answered (%s, %s); a=%s b=%s %s' % (kind, g, mapping, sa, sb, desc), tags)
    if not found: return
    mon.check(any(g is h for h in a.G), 'C27:equiv-op-in-G', desc, tags)
    nchem = len(a.chemorder)
    shape = (len(mapping) == nchem and all(sorted(int(x) for x in mapping[c]) == list(range(len(b.chemorder[c]))) for c in range(nchem)))
    mon.check(shape, 'C27:equiv-mapping-permutation', lambda: 'mapping %s for lengths %s %s' % (mapping, [len(l) for l in b.chemorder], desc), tags)
    if not shape: return
    # geometric meaning of g, independent of its indexmap: species by species the atoms of a land on the atoms of b
    geo = True
    for c in range(-1, nchem):
        pa = a.pos[[n for n in range(len(a.pos)) if sa[0][n] == c]]
        pb = b.pos[[n for n in range(len(b.pos)) if sb[0][n] == c]]
        if len(pa) != len(pb):
            geo = False
            break
        if len(pa) == 0: continue
        img = pa @ np.asarray(g.rot, dtype=float).T + g.trans
        hit = np.all(np.abs(R.wrap_half(img[:, None, :] - pb[None, :, :])) < 1e-6, axis=-1)
        if not (np.all(hit.sum(axis=1) == 1) and np.all(hit.sum(axis=0) == 1)): geo = False
    mon.check(geo, 'C27:equiv-op-maps-atoms', lambda: 'rot=%s trans=%s a=%s b=%s %s' % (np.asarray(g.rot).tolist(), np.asarray(g.trans).tolist(), sa, sb, desc), tags)
    try:
        ga = g * a
        ga2 = a * g
        ident = all(ga.chemorder[c][mapping[c][i]] == b.chemorder[c][i] for c in range(nchem) for i in range(len(b.chemorder[c])))
        mon.check(ident, 'C27:equiv-chemorder-identity', lambda: '(g*a).chemorder=%s mapping=%s b.chemorder=%s %s' % (ga.chemorder, mapping, b.chemorder, desc), tags)
        pl, bl = ga.occposlist(), b.occposlist()
        mon.check(all(np.array_equal(pl[c][mapping[c][i]], bl[c][i]) for c in range(nchem) for i in range(len(bl[c]))),
                  'C27:equiv-occposlist-identity', desc, tags)
        mon.check(snapshot(ga) == snapshot(ga2), 'C27:mul=rmul', desc, tags)
        mon.check(snapshot(a) == sa, 'C27:mul-leaves-original', desc, tags)
        r = ga.reorder(mapping)
        mon.check(r is ga and bool(ga == b) and not bool(ga != b) and snapshot(ga) == sb, 'C27:equiv-reorder-eq',
                  lambda: '(g*a).reorder(mapping)=%s b=%s %s' % (snapshot(ga), sb, desc), tags)
    except Exception as e:
        mon.check(False, 'C27:equiv-apply:raises:' + type(e).__name__, '%s: %s | mapping=%s a=%s b=%s %s' % (type(e).__name__, e, mapping, sa, sb, desc), tags)


def perturb(rng, occ, nchem, kind):
    occ = list(occ)
    n = len(occ)
    if kind == 'move':  # exchange the contents of two sites with different species
        pairs = [(i, j) for i in range(n) for j in range(i + 1, n) if occ[i] != occ[j]]
        if not pairs: return None
        i, j = pairs[rng.integers(len(pairs))]
        occ[i], occ[j] = occ[j], occ[i]
    elif kind == 'change':
        i = int(rng.integers(n))
        occ[i] = int(rng.choice([c for c in range(-1, nchem) if c != occ[i]]))
    else:  # same stoichiometry, new arrangement
        occ = [occ[k] for k in rng.permutation(n)]
    return occ


def same_native_move(rng, occ, chem):
    """exchange two sites of the same native chemistry with different content: every defect count is kept"""
    n = len(occ)
    pairs = [(i, j) for i in range(n) for j in range(i + 1, n) if occ[i] != occ[j] and chem[i] == chem[j]]
    if not pairs: return None
    i, j = pairs[rng.integers(len(pairs))]
    occ = list(occ)
    occ[i], occ[j] = occ[j], occ[i]
    return occ


# ------------------------------------------------------------------------------ in-place histories
class Tracked:
    """A Supercell object together with the dict model (R7) of what its occupation must be."""

    def __init__(self, sup, model):
        self.sup, self.model = sup, model
        self.queried = False           # defect content asked for since construction
        self.imul_since_query = False  # queried, then multiplied in place by an operation that moves a defect site
        self.nmut = 0

    def in_sync(self, strict):
        occ, order = snapshot(self.sup)
        if occ != self.model.occlist(): return False
        if strict: return order == self.model.order
        if [sorted(l) for l in order] != [sorted(l) for l in self.model.order]: return False
        self.model.order = [list(l) for l in order]   # presentation order after a bulk edit is taken from the object
        return True


def build_tracked(template, order, nsites, nchem):
    t = Tracked(template.copy(), R.DictSuper(nsites, nchem))
    for c, lst in enumerate(order):
        for n in lst:
            t.sup.setocc(int(n), c)
            t.model.setocc(int(n), c)
    return t


def morph_to(rng, t, target, template, nchem, mon):
    """Bring the object to the occupation `target` by in-place edits. -> name of the route"""
    nsites = len(target)
    route = 'POSCAR_occ' if rng.uniform() < 0.2 else 'edits'
    if route == 'POSCAR_occ':
        z = build(template, target, [[n for n in rng.permutation(nsites) if target[n] == c] for c in range(nchem)])
        t.sup.POSCAR_occ(z.POSCAR())
        t.model.clear()
        for c, lst in enumerate(z.chemorder):
            for n in lst: t.model.setocc(int(n), c)
    else:
        cur = t.model.occlist()
        for n in rng.permutation(nsites):
            n = int(n)
            if cur[n] == target[n]: continue
            if rng.uniform() < 0.5: t.sup.setocc(n, int(target[n]))
            else: t.sup[n] = int(target[n])
            t.model.setocc(n, int(target[n]))
    t.nmut += 1
    mon.count('history_morph:' + route)
    return route


def history_pairs(mon, rng, template, ops, chem, interstitial, crys, nchem, tags, desc, nsteps):
    """Objects that have been queried and then modified in place, interleaved with equivalencemap calls in both roles;
    every answer against the brute-force classification of the model occupations over the reference group."""
    nsites = len(chem)
    perfect = [(-1 if c in interstitial else c) for c in chem]
    # reference permutation of every operation the supercell has (geometric, not its indexmap)
    glist = []
    for g in template.G:
        perm = R.find_perm(template.pos, g.rot, g.trans)
        if perm is not None: glist.append((g, perm))
    if not glist: return
    occ, omode = rand_occupation(rng, template, chem, interstitial, crys.Nchem, nchem)
    order = [[n for n in rng.permutation(nsites) if occ[n] == c] for c in range(nchem)]
    X = build_tracked(template, order, nsites, nchem)
    perm = ops[int(rng.integers(len(ops)))][2]
    Y = build_tracked(template, [[perm[n] for n in (lst[j] for j in rng.permutation(len(lst)))] for lst in order], nsites, nchem)
    htags = tags + ['inplace-history', omode]
    log = []

    def species_for(n, cur):
        if rng.uniform() < 0.3 and cur != perfect[n]: return perfect[n]     # heal a defect
        choices = [-1] + list(range(crys.Nchem, nchem))
        if chem[n] in interstitial: choices = [chem[n]] + list(range(crys.Nchem, nchem)) + [chem[n], -1]
        elif crys.Nchem > 1 and rng.uniform() < 0.3: choices = [c for c in range(crys.Nchem) if c != chem[n]]
        return int(choices[rng.integers(len(choices))])

    for step in range(nsteps):
        T, O = (X, Y) if rng.uniform() < 0.6 else (Y, X)
        tname = 'self' if T is X else 'other'
        # --- a. inspection of the target (asks for the defect content)
        q = str(rng.choice(['defectindices', 'KrogerVink', 'str', 'none']))
        try:
            if q == 'defectindices': T.sup.defectindices()
            elif q == 'KrogerVink': T.sup.KrogerVink()
            elif q == 'str': str(T.sup)
        except Exception as e:
            mon.check(False, 'C27:history-query:raises:' + type(e).__name__, '%s: %s | %s on %s after %s %s' % (type(e).__name__, e, q, tname, log, desc), htags)
            return
        if q != 'none': T.queried = True
        # --- b. in-place modification of the target
        mut = str(rng.choice(['imul', 'imul', 'imul', 'imul', 'setocc', 'setitem', 'setitem-pos', 'reorder', 'fillperiodic', 'POSCAR_occ']))
        strict = mut in ('imul', 'reorder')
        preserves = strict
        try:
            if mut == 'imul':
                cur = T.model.occlist()
                defects = [n for n in range(nsites) if cur[n] != perfect[n]]
                cand = [k for k in range(len(glist)) if any(glist[k][1][n] != n for n in defects)]
                k = int(cand[rng.integers(len(cand))]) if cand and rng.uniform() < 0.8 else int(rng.integers(len(glist)))
                g, gperm = glist[k]
                moves = any(gperm[n] != n for n in defects)
                T.sup *= g
                T.model.apply_perm(gperm)
                if moves and T.queried: T.imul_since_query = True
                mon.count('history_imul_moving_defect', moves)
            elif mut in ('setocc', 'setitem', 'setitem-pos'):
                n = int(rng.integers(nsites))
                c = species_for(n, T.model.occ[n])
                if mut == 'setocc': T.sup.setocc(n, c)
                elif mut == 'setitem': T.sup[n] = c
                else: T.sup[np.array(T.sup.pos[n], dtype=float)] = c
                T.model.setocc(n, c)
            elif mut == 'reorder':
                mapping = [[int(j) for j in rng.permutation(len(l))] for l in T.model.order]
                T.sup.reorder(mapping)
                T.model.reorder(mapping)
            elif mut == 'fillperiodic':
                i = int(rng.integers(T.sup.N))
                wy = bool(rng.uniform() < 0.5)
                ci = T.sup.atomindices[i]
                T.sup.fillperiodic(ci, Wyckoff=wy)
                members = [i] if not wy else sorted(next(w for w in T.sup.Wyckofflist if i in w))
                for n in range(nsites):
                    if n % T.sup.N in members: T.model.setocc(n, int(ci[0]))
            else:
                base = T.model.occlist()
                target = perturb(rng, base, nchem, str(rng.choice(['move', 'change', 'shuffle']))) or base
                z = build(template, target, [[n for n in rng.permutation(nsites) if target[n] == c] for c in range(nchem)])
                T.sup.POSCAR_occ(z.POSCAR())
                T.model.clear()
                for c, lst in enumerate(z.chemorder):
                    for n in lst: T.model.setocc(int(n), c)
        except Exception as e:
            mon.check(False, 'C27:history-modify:raises:' + type(e).__name__, '%s: %s | %s on %s after %s %s' % (type(e).__name__, e, mut, tname, log, desc), htags)
            return
        T.nmut += 1
        log.append('%s:%s%s' % (tname, (q + ',') if q != 'none' else '', mut))
        mon.count('history_mutation:' + mut)
        # the in-place product and the reordering are anchors of this property: the object must follow the model exactly
        if strict:
            if not mon.check(T.in_sync(True), 'C27:inplace-' + mut, lambda: 'after %s the object holds %s, documented rule gives %s %s' % (
                    log, snapshot(T.sup), (T.model.occlist(), T.model.order), desc), htags):
                return
        elif not T.in_sync(False):
            mon.count('history_dropped_model_mismatch:' + mut)   # occupancy bookkeeping is C28's business
            return
        # --- c. bring the other object (in place as well) to an image of the target's occupation
        if rng.uniform() < (0.25 if preserves else 0.7):
            perm = ops[int(rng.integers(len(ops)))][2]
            target = R.apply_perm_occ(T.model.occlist(), perm).tolist()
            try:
                route = morph_to(rng, O, target, template, nchem, mon)
            except Exception as e:
                mon.check(False, 'C27:history-modify:raises:' + type(e).__name__, '%s: %s | morph after %s %s' % (type(e).__name__, e, log, desc), htags)
                return
            if not O.in_sync(False):
                mon.count('history_dropped_model_mismatch:morph')
                return
            log.append('%s:morph-%s' % ('other' if O is Y else 'self', route))
        # --- d. equivalencemap, both roles, against brute force over the reference group
        for a, b in ((X, Y), (Y, X)):
            if a is Y and rng.uniform() < 0.5: continue
            oa, ob = a.model.occlist(), b.model.occlist()
            rel = R.related(oa, ob, ops)
            mon.count('inplace_history_pairs')
            mon.count('inplace_history_related' if rel is not None else 'inplace_history_unrelated')
            stale_risk = a.imul_since_query or b.imul_since_query
            mon.count('history_pairs_after_query_then_imul', stale_risk and rel is not None)
            mon.count('history_pairs_self_modified', a.nmut > 0)
            mon.count('history_pairs_other_modified', b.nmut > 0)
            nod = oa == perfect and ob == perfect
            ptags = htags + (['defect-free'] if nod else []) + (['query-then-imul'] if stale_risk else [])
            check_equivalence(mon, a.sup, b.sup, rel is not None, ops, ptags, dict(desc, history=list(log)),
                              'history-' + ('self=X' if a is X else 'self=Y'))
            a.queried = b.queried = True
            a.imul_since_query = b.imul_since_query = False
            if not (a.in_sync(True) and b.in_sync(True)): return   # side effects are reported by equiv-no-side-effect
        mon.count('history_steps')
    mon.count('inplace_histories')


# ------------------------------------------------------------------------------ case
def dim2_probe(mon):
    """2-D crystals: the class is documented for 3x3 matrices; record what the constructor does."""
    from onsager import crystal, supercell
    c2 = crystal.Crystal(np.eye(2), [np.zeros(2), np.array([0.5, 0.5])])
    for nosym in (False, True):
        try:
            with warnings.catch_warnings():
                warnings.simplefilter('ignore')
                supercell.Supercell(c2, np.array([[2, 1], [0, 1]]), NOSYM=nosym)
            mon.count('dim2_supercell_constructed')
        except Exception as e:
            mon.count('dim2_supercell_unsupported')
            mon.seen('dim2_supercell_exception', type(e).__name__)


def run_case(case):
    from onsager import supercell
    mon = Mon()
    rng = gen.rng_for(case['seed'], case['idx'], 27)
    thorough = case.get('tier') == 'thorough'
    if case['idx'] == 0: dim2_probe(mon)
    sample = None
    for k in range(PER_CASE):
        nch = int(rng.integers(1, 3))
        spec = gen.rand_crystal_spec(rng, dim=3, nchem=nch, maxatoms=4)
        crys = gen.make_crystal(spec)
        if crys.N > 4:
            mon.count('generator_skipped_large')
            continue
        maxdet = 8
        for _ in range(100):
            S, smode = rand_super(rng, 3, maxdet)
            if crys.N * abs(int(round(np.linalg.det(S)))) <= (40 if thorough else 32): break
        else:
            continue
        det = int(round(np.linalg.det(S)))
        nsol = int(rng.integers(0, 3))
        interstitial = ()
        if crys.Nchem > 1 and rng.uniform() < 0.5:
            interstitial = (int(rng.integers(crys.Nchem)),)
        elif crys.Nchem == 1 and rng.uniform() < 0.08:
            interstitial = (0,)
        nosym = rng.uniform() < 0.1
        tags = [smode] + (['interstitial'] if interstitial else []) + (['NOSYM'] if nosym else []) + (['negdet'] if det < 0 else [])
        desc = {'kind': spec['kind'], 'lattice': crys.lattice.tolist(), 'basis': [[u.tolist() for u in l] for l in crys.basis],
                'S': S.tolist(), 'interstitial': list(interstitial), 'Nsolute': nsol, 'NOSYM': bool(nosym), 'hashseed': case.get('hashseed')}
        if sample is None: sample = desc
        broken = []
        try:
            with warnings.catch_warnings(record=True) as wlist:
                warnings.simplefilter('always')
                sup = supercell.Supercell(crys, S, interstitial=interstitial, Nsolute=nsol, NOSYM=bool(nosym))
                broken = [w for w in wlist if issubclass(w.category, RuntimeWarning)]
        except Exception as e:
            mon.check(False, 'C27:construct:raises:' + type(e).__name__, '%s: %s %s' % (type(e).__name__, e, desc), tags)
            continue
        nsites = sup.N * sup.size
        mon.count('interstitial_supercells', bool(interstitial))
        mon.count('nosym_supercells', bool(nosym))
        mon.count('negative_det_supercells', det < 0)
        mon.seen('dets', det)
        mon.seen('nsolute', nsol)
        mon.note_max('sites', nsites)
        if nsites > 1:
            mon.sig([spec['kind'], [len(l) for l in crys.basis], S.tolist(), list(interstitial), nsol, bool(nosym)])
        chem = supercell_contract(mon, sup, crys, S, tags, desc)
        if chem is None: continue
        refcrys = geom.full_group(crys.lattice, crys.basis)
        mon.check(len(refcrys) == len(crys.G), 'C27:crystal-group-order', lambda: '|Crystal.G|=%d brute force=%d %s' % (len(crys.G), len(refcrys), desc), tags)
        ops, nbad, ncr = R.ref_supergroup(crys.lattice, crys.basis, S, sup.pos, crystal_group=refcrys)
        mon.count('supercells_broken_symmetry', nbad > 0)
        mon.count('supercells_full_symmetry', nbad == 0 and ncr > 1)
        mon.note_max('group_order', len(ops))
        mon.count('reference_ops', len(ops))
        if nosym:
            gl = list(sup.G)
            mon.check(len(gl) == 1 and tuple(gl[0].indexmap[0]) == tuple(range(nsites)) and np.array_equal(gl[0].rot, np.eye(3, dtype=int))
                      and np.allclose(gl[0].trans, 0), 'C27:nosym-identity-only', lambda: '|G|=%d %s' % (len(gl), desc), tags)
            # the search can only use the operations the supercell has: the reference is the identity alone
            ops = [o for o in ops if o[2] == tuple(range(nsites)) and np.array_equal(o[0], np.eye(3, dtype=int))]
        else:
            mon.check((len(broken) > 0) == (nbad > 0), 'C27:broken-symmetry-warning',
                      lambda: '%d RuntimeWarnings, %d crystal operations incompatible with the superlattice %s' % (len(broken), nbad, desc), tags)
            if not compare_groups(mon, sup, ops, tags, desc): continue
        template = sup
        nchem = crys.Nchem + nsol
        mon.check(sup.Nchem == nchem and len(sup.chemorder) == nchem, 'C27:declared-species', lambda: 'Nchem=%s for %d native + %d solutes %s' % (sup.Nchem, crys.Nchem, nsol, desc), tags)
        for occround in range(3):
            occ, omode = rand_occupation(rng, sup, chem, interstitial, crys.Nchem, nchem)
            order = [[n for n in rng.permutation(nsites) if occ[n] == c] for c in range(nchem)]
            a = build(template, occ, order)
            # related pair: an operation of R11 and a random reordering, built by plain setocc
            kop = int(rng.integers(len(ops)))
            perm = ops[kop][2]
            border = [[perm[n] for n in (lst[j] for j in rng.permutation(len(lst)))] for lst in order]
            b = build(template, None, border)
            nodefect = len(a.defectindices()) == 0
            ptags = tags + [omode] + (['defect-free'] if nodefect else [])
            mon.count('related_pairs')
            mon.count('nonidentity_relating_ops', perm != tuple(range(nsites)))
            mon.count('related_pairs_defect_free', nodefect)
            check_equivalence(mon, a, b, True, ops, ptags, desc, 'related')
            if occround == 0 and not nodefect:
                check_equivalence(mon, b, a, True, ops, ptags, desc, 'related-reverse')
            # perturbed pairs, classified by brute force over R11
            for kind in ('native-move', 'move', 'change', 'shuffle'):
                if kind == 'shuffle' and rng.uniform() < 0.5: continue
                occ2 = same_native_move(rng, R.apply_perm_occ(occ, perm).tolist(), chem) if kind == 'native-move' else \
                    perturb(rng, R.apply_perm_occ(occ, perm).tolist(), nchem, kind)
                if occ2 is None: continue
                d = build(template, occ2, [[n for n in rng.permutation(nsites) if occ2[n] == c] for c in range(nchem)])
                rel = R.related(occ, occ2, ops)
                nod = len(a.defectindices()) == 0 and len(d.defectindices()) == 0
                dtags = tags + [omode, kind] + (['defect-free'] if nod else [])
                if rel is None:
                    mon.count('unrelated_pairs')
                    mon.count('unrelated_same_stoichiometry', sorted(occ) == sorted(occ2))
                else:
                    mon.count('perturbed_pairs_still_related')
                check_equivalence(mon, a, d, rel is not None, ops, dtags, desc, 'perturbed-' + kind)
        # objects with a history: queried, modified in place, compared again
        history_pairs(mon, gen.rng_for(case['seed'], case['idx'], 27, 1000 + k), template, ops, chem, interstitial, crys, nchem,
                      tags, desc, nsteps=case.get('hsteps', 5))
        # defect-free configuration against itself / its image (every site native, interstitial sites empty)
        if rng.uniform() < 0.5:
            occ0 = [(-1 if c in interstitial else c) for c in chem]
            a = build(template, occ0, [[n for n in rng.permutation(nsites) if occ0[n] == c] for c in range(nchem)])
            perm = ops[int(rng.integers(len(ops)))][2]
            b = build(template, None, [[perm[n] for n in lst] for lst in a.chemorder])
            mon.count('defect_free_pairs')
            check_equivalence(mon, a, b, True, ops, tags + ['defect-free'], desc, 'defect-free')
    return mon.result(sample=sample)
