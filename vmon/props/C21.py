"""C21: jump networks are complete, closed and obstruction-aware.

Contract on the real Crystal.jumpnetwork / jumpnetwork2lattice against a brute-force enumeration with a
rigorous (reciprocal-metric) image range, an independent re-evaluation of the documented obstruction
rule, and orbits under the independent space group (vmon.ref.geom.full_group) plus reversal.
Workloads: random multi-species crystals; long cut-offs (2-4.5 lattice lengths) on skewed cells;
directed "image range" inputs that place a jump in the outermost image shell the cut-off allows.
"""
import itertools
import numpy as np
from vmon import gen
from vmon.util import Mon
from vmon.ref import geom, jumps as rj, pointgroups as pg

ID = 'C21'
RULE = ('family A: random crystals (all lattice systems, 1-3 species, random orientation) x species x cut-off (no shell within 1e-4) '
        'x closestdistance in {default, 0, scalar, per-species list}; family B: skewed cells (triclinic, monoclinic, rhombohedral, '
        'FCC/BCC primitive, hexagonal, oblique, strained) with 1-3 atoms and cut-offs of 2-4.5 (3-D) / 2-9 (2-D) shortest lattice '
        'lengths; family C: directed inputs -- two atoms placed so that a jump shorter than the cut-off has a lattice index beyond '
        'round(cutoff/|a|)+1 whenever geometry allows. family D: directed obstruction -- an obstacle beside one end of a jump whose length is within 5 % of the cut-off and farther than the cut-off from the other end, in a cell without symmetry. Non-trivial = network with at least one jump; distinct = (family, kind, '
        'atoms per species, species, number of jumps, obstruction form)')
ASSUMPTIONS = ['crystals whose independent group changes when its tolerance goes from 1e-6 to 1e-9 are skipped (atoms symmetric only to '
               'within that window; the repository threshold is 1e-8)',
               'jump vectors compared to 1e-7 (positions are O(1)); lattice indices exactly',
               'cut-offs keep 1e-4 clear of every interatomic distance; obstruction inputs whose decision falls inside the '
               "code's own floating-point window (projection within 1e-7 dx^2 of a segment end, squared distance within "
               '2e-8+2e-5 closest^2 above the limit; the code uses numpy.isclose: 1e-8+1e-5 closest^2) are redrawn or skipped (counted as ambiguous_skipped)',
               'brute-force image range: ceil(r |b_d|/2pi + 1) + 2 per axis (rigorous bound + 2)']
REQUIRED_OBS = {'networks_checked': 60, 'eval:C21:complete-exactly-once': 60, 'eval:C21:class-closed': 100,
                'eval:C21:lattice-roundtrip': 60, 'obstructed_jumps': 20, 'obstructed_networks': 5, 'form:list': 5, 'form:scalar': 5,
                'form:zero': 5, 'straight_through_blocked': 1, 'family:B': 8, 'family:C': 8, 'family:D': 20, 'directed_beyond_code_range': 1}
CASE_TIMEOUT = 900
TOL = 1e-7
SKEW3 = ('tric', 'mono', 'rhomb', 'cubicF', 'cubicI', 'hex', 'tetI', 'orthoC', 'strainF', 'strainI')
SKEW2 = ('oblique', 'hex2', 'crect', 'strainH')


def cases(tier, seed):
    q = tier == 'quick'
    out = []
    k = 0
    for i in range(40 if q else 500):
        out.append({'seed': seed, 'idx': k, 'hashseed': k % 5, 'family': 'A', 'n': 3 if q else 4}); k += 1
    for i in range(32 if q else 200):
        out.append({'seed': seed, 'idx': k, 'hashseed': k % 5, 'family': 'B', 'n': 2, 'maxjumps': 350 if q else 900}); k += 1
    for i in range(32 if q else 200):
        out.append({'seed': seed, 'idx': k, 'hashseed': k % 5, 'family': 'C', 'n': 2, 'maxjumps': 700 if q else 1300,
                    'p2d': 0.85 if q else 0.6}); k += 1
    for i in range(8 if q else 60):
        out.append({'seed': seed, 'idx': k, 'hashseed': k % 5, 'family': 'D', 'n': 8}); k += 1
    return out


# ---------------------------------------------------------------------------------------------
def skew_lattice(kind, rng):
    if kind.startswith('strain'):
        base = {'strainF': 'cubicF', 'strainI': 'cubicI', 'strainH': 'hex2'}[kind]
        L = gen.lattice(base, rng)
        e = rng.normal(size=L.shape) * 0.04
        return (np.eye(L.shape[0]) + 0.5 * (e + e.T)) @ L
    return gen.lattice(kind, rng)


def pick_cutoff(latt, basis_c, target, maxjumps):
    """cut-off near `target`, >=1e-4 away from every interatomic distance, reduced until the brute-force
    network has at most maxjumps jumps."""
    for attempt in range(12):
        dist = rj.all_distances(latt, basis_c, target + 0.01)
        c = target
        for t in range(50):
            if len(dist) == 0 or np.min(np.abs(dist - c)) > 1e-4: break
            c -= 3.1e-4
        n = len(rj.brute_jumps(latt, basis_c, c, extra=0))
        if 0 < n <= maxjumps or attempt == 11: return float(c), n
        target = target * (0.85 if n > maxjumps else 1.3)
    return float(c), n


def check_network(mon, crys, chem, cutoff, closest, refG, family, desc):
    """closest: None (default argument), number, or list."""
    L, Linv = crys.lattice, np.linalg.inv(crys.lattice)
    dim = crys.dim
    bc = crys.basis[chem]
    brute = rj.brute_jumps(L, bc, cutoff)
    # --- independent obstruction
    if closest is None: per = [0. if c != chem else None for c in range(crys.Nchem)]; form = 'default'
    elif isinstance(closest, list): per = [float(x) if c != chem else None for c, x in enumerate(closest)]; form = 'list'
    else: per = [float(closest) if c != chem else None for c in range(crys.Nchem)]; form = 'zero' if closest == 0 else 'scalar'
    blockers = {}
    status = {}
    xs = [L @ np.asarray(u) for u in bc]
    for i in range(len(bc)):
        for c, lim in enumerate(per):
            if lim is None: continue
            blockers[i, c] = rj.images_near(L, crys.basis[c], xs[i], np.sqrt(cutoff ** 2 + lim ** 2) + 0.05)
    nobs = 0
    for key, dx in brute.items():
        st = 'free'
        for c, lim in enumerate(per):
            if lim is None: continue
            s = rj.obstruction(xs[key[0]], dx, blockers[key[0], c], lim)
            if s == 'blocked': st = 'blocked'; break
            if s == 'ambiguous': st = 'ambiguous'
        status[key] = st
        if st == 'blocked': nobs += 1
    if any(s == 'ambiguous' for s in status.values()):
        mon.count('ambiguous_skipped')
        return None
    expected = {k for k, s in status.items() if s == 'free'}
    # --- the real thing
    jn = None
    with mon.guard('C21:jumpnetwork'):
        jn = crys.jumpnetwork(chem, cutoff) if closest is None else crys.jumpnetwork(chem, cutoff, closest)
    if jn is None: return None
    mon.count('networks_checked')
    mon.count('family:' + family)
    mon.count('form:' + form)
    mon.count('obstructed_jumps', nobs)
    if nobs: mon.count('obstructed_networks')
    if form in ('zero', 'default') and nobs: mon.count('straight_through_blocked', nobs)
    mon.note_max('jumps_per_network', len(expected))
    codemax = [int(np.round(np.sqrt(cutoff * cutoff / (L[:, d] @ L[:, d])))) + 1 for d in range(dim)]
    over = max([max(abs(k[2][d]) - codemax[d] for d in range(dim)) for k in brute] + [-99])
    mon.note_max('image_index_minus_code_range', over)
    if over > 0: mon.count('networks_with_jump_beyond_code_range')
    detail = lambda: '%s chem=%d cutoff=%.6f closest=%s' % (desc, chem, cutoff, closest)

    def keyof(i, j, dx):
        Rf = Linv @ dx - np.asarray(bc[j]) + np.asarray(bc[i])
        R = np.round(Rf)
        return (int(i), int(j), tuple(int(x) for x in R)), float(np.max(np.abs(Rf - R)))

    classes, flat, badvec, wellformed = [], [], 0., True
    for cl in jn:
        S = []
        for entry in cl:
            try:
                (i, j), dx = entry
                dx = np.asarray(dx, dtype=float)
                k, res = keyof(i, j, dx)
            except Exception:
                wellformed = False
                continue
            badvec = max(badvec, res)
            S.append((k, dx))
        classes.append(S)
        flat += [k for k, _ in S]
    mon.check(wellformed, 'C21:format', detail)
    mon.close(badvec, 0., 1e-6, 'C21:dx-is-site-to-site', detail)
    got = set(flat)
    missing, extra = expected - got, got - expected
    wrongly_kept = [k for k in extra if status.get(k) == 'blocked']
    mon.check(len(flat) == len(got) and not missing and not extra, 'C21:complete-exactly-once',
              lambda: '%d jumps, %d distinct, expected %d; missing %s extra %s (of which obstructed %d) %s' % (
                  len(flat), len(got), len(expected), sorted(missing)[:3], sorted(extra)[:3], len(wrongly_kept), detail()))
    if nobs or wrongly_kept:
        mon.check(not wrongly_kept, 'C21:obstructed-excluded', lambda: 'kept although obstructed: %s %s' % (wrongly_kept[:3], detail()))
    if any(lim is not None for lim in per):
        mon.check(not missing, 'C21:unobstructed-kept', lambda: 'unobstructed jumps missing: %s %s' % (sorted(missing)[:3], detail()))
    vecerr = 0.
    for S in classes:
        for k, dx in S:
            if k in brute: vecerr = max(vecerr, float(np.max(np.abs(dx - brute[k]))))
    mon.close(vecerr, 0., TOL, 'C21:dx-value', detail)
    mon.check(all(len(S) > 0 for S in classes), 'C21:no-empty-class', detail)

    # --- every class is one orbit of <G, reversal>
    rots = [(L @ M @ Linv, perm[chem]) for (M, t, perm) in refG]

    def image(k, dx, R, p):
        return keyof(p[k[0]], p[k[1]], R @ dx)[0]

    nclosed = 0
    for S in classes:
        if not S: continue
        keys = {k for k, _ in S}
        vec = {k: dx for k, dx in S}
        closed = True
        for k, dx in S:
            if (k[1], k[0], tuple(-x for x in k[2])) not in keys: closed = False
            for R, p in rots:
                if image(k, dx, R, p) not in keys: closed = False
        # single orbit: BFS from the first element
        k0 = S[0][0]
        seen, stack = {k0}, [k0]
        while stack:
            k = stack.pop()
            dx = vec.get(k)
            if dx is None: continue
            nb = [(k[1], k[0], tuple(-x for x in k[2]))] + [image(k, dx, R, p) for R, p in rots]
            for q in nb:
                if q not in seen and q in keys:
                    seen.add(q); stack.append(q)
        mon.check(closed, 'C21:class-closed', lambda: 'class of %s not closed under group/reversal %s' % (S[0][0], detail()))
        mon.check(seen == keys, 'C21:class-single-orbit', lambda: 'class of %s has %d members, orbit %d %s' % (S[0][0], len(keys), len(seen), detail()))
        nclosed += 1
    mon.note_max('classes_per_network', len(classes))

    # --- lattice form
    jl = None
    with mon.guard('C21:jumpnetwork2lattice'):
        jl = crys.jumpnetwork2lattice(chem, jn)
    if jl is not None:
        ok = len(jl) == len(jn) and all(len(a) == len(b) for a, b in zip(jl, jn))
        err = 0.
        if ok:
            for a, b in zip(jl, jn):
                for ((i, j), R), ((i2, j2), dx) in zip(a, b):
                    R = np.asarray(R)
                    if (i, j) != (i2, j2) or R.shape != (dim,) or not np.issubdtype(R.dtype, np.integer):
                        ok = False
                        continue
                    err = max(err, float(np.max(np.abs(L @ (R + np.asarray(bc[j]) - np.asarray(bc[i])) - np.asarray(dx)))))
        mon.check(ok, 'C21:lattice-form', detail)
        mon.close(err, 0., TOL, 'C21:lattice-roundtrip', detail)
    if expected:
        mon.sig([family, desc.get('kind'), [len(l) for l in crys.basis], chem, len(expected), form, nobs > 0])
    return len(expected), nobs


def closest_variants(rng, crys, chem, cutoff):
    """A few obstruction settings; values up to ~ the cut-off for list forms."""
    out = [None, 0]
    if crys.Nchem > 1:
        out.append(float(rng.uniform(0.05, 0.45)))
        lst = [float(rng.uniform(0., 0.6)) if rng.uniform() < 0.8 else 0. for _ in range(crys.Nchem)]
        lst[chem] = float(rng.uniform(0., 3.))  # the moving species never obstructs itself, whatever is passed
        out.append(lst)
    return out


def run_A(case, mon, rng):
    from onsager import crystal
    sample = None
    for k in range(case['n']):
        nchem = int(rng.choice([1, 2, 2, 3]))
        spec = gen.rand_crystal_spec(rng, nchem=nchem, maxatoms=7)
        dim = spec['dim']
        Q = pg.random_rotation(rng, dim) if rng.uniform() < 0.4 else np.eye(dim)
        crys = crystal.Crystal(Q @ np.array(spec['latt']), [[np.array(u) for u in lst] for lst in spec['basis']])
        refG, degenerate = pg.reference_group(crys.lattice, crys.basis, len(crys.G))
        if degenerate:
            mon.count('threshold_degenerate_crystal_skipped')
            continue
        chem = int(rng.integers(crys.Nchem))
        amin = np.sqrt(min(np.diag(crys.metric)))
        cutoff, n = pick_cutoff(crys.lattice, crys.basis[chem], float(rng.uniform(0.7, 1.7)) * amin, 260)
        desc = {'kind': spec['kind'], 'lattice': crys.lattice, 'basis': crys.basis, 'hashseed': case.get('hashseed')}
        if sample is None: sample = dict(desc, chem=chem, cutoff=cutoff)
        for closest in closest_variants(rng, crys, chem, cutoff):
            for attempt in range(3):
                r = check_network(mon, crys, chem, cutoff, closest, refG, 'A', desc)
                if r is not None or closest in (None, 0): break
                closest = [x * 0.9 + 0.013 for x in closest] if isinstance(closest, list) else closest * 0.9 + 0.013
    return sample


def run_B(case, mon, rng):
    from onsager import crystal
    sample = None
    for k in range(case['n']):
        dim = 3 if rng.uniform() < 0.6 else 2
        kind = str(rng.choice(SKEW3 if dim == 3 else SKEW2))
        latt = skew_lattice(kind, rng)
        for attempt in range(50):
            nat = int(rng.choice([1, 2, 2, 3]))
            pos = [rng.uniform(size=dim) for _ in range(nat)]
            if rng.uniform() < 0.5 and nat >= 2:   # atoms near opposite cell corners: largest |du|
                pos[0] = rng.uniform(0.02, 0.12, size=dim)
                pos[1] = rng.uniform(0.88, 0.98, size=dim)
            if gen.mindist(latt, pos) > 0.2: break
        nchem = 1 if nat == 1 else int(rng.choice([1, 2]))
        basis = [pos] if nchem == 1 else [pos[:-1], pos[-1:]]
        crys = crystal.Crystal(latt, [[np.array(u) for u in l] for l in basis])
        refG, degenerate = pg.reference_group(crys.lattice, crys.basis, len(crys.G))
        if degenerate:
            mon.count('threshold_degenerate_crystal_skipped')
            continue
        chem = 0
        amin = np.sqrt(min(np.diag(crys.metric)))
        factor = float(rng.uniform(2., 4.5) if dim == 3 else rng.uniform(2., 9.))
        cutoff, n = pick_cutoff(crys.lattice, crys.basis[chem], factor * amin, case['maxjumps'])
        mon.note_max('cutoff_over_shortest_lattice_vector_%dd' % dim, cutoff / amin)
        desc = {'kind': kind, 'lattice': crys.lattice, 'basis': crys.basis, 'hashseed': case.get('hashseed')}
        if sample is None: sample = dict(desc, chem=chem, cutoff=cutoff)
        closest = None if crys.Nchem == 1 else float(rng.uniform(0.1, 0.9))
        for attempt in range(3):
            r = check_network(mon, crys, chem, cutoff, closest, refG, 'B', desc)
            if r is not None or closest is None: break
            closest = closest * 0.9 + 0.013
    return sample


def run_C(case, mon, rng):
    """Directed: a jump i->j whose lattice index along axis d is round(cutoff/|a_d|)+2, still shorter than the cut-off."""
    from onsager import crystal
    sample = None
    for k in range(case['n']):
        dim = 2 if rng.uniform() < case.get('p2d', 0.7) else 3
        crys = None
        for attempt in range(30):
            kind = str(rng.choice(SKEW3 if dim == 3 else SKEW2))
            base = crystal.Crystal(skew_lattice(kind, rng), [np.zeros(dim)])
            L = base.lattice
            Linv = np.linalg.inv(L)
            d = int(rng.integers(dim))
            a = np.linalg.norm(L[:, d])
            bn = np.linalg.norm(Linv[d])  # = |b_d| / 2 pi
            feasible = False
            for kk in np.arange(2, 10 if dim == 2 else 5):   # smallest feasible cut-off (cheapest network)
                x = kk + float(rng.uniform(0.3, 0.49))
                cutoff = x * a
                nstar = int(kk) + 2                   # original code range was round(x)+1 = kk+1
                room = cutoff * bn - nstar            # need -1 < du_d <= room
                if room > -0.93:
                    feasible = True
                    break
            if not feasible:
                mon.count('directed_infeasible_lattice')
                continue
            dud = float(rng.uniform(max(-0.97, room - 0.3), min(0.97, room - 0.005)))
            t = nstar + dud
            p = t * Linv[d] / (bn * bn)               # shortest vector with index t along d; |p| = t/bn < cutoff
            f = Linv @ p
            du = f - np.round(f)
            du[d] = dud
            # u_i such that u_i and u_i + du are both inside the cell (the in-cell difference is then du itself)
            ui = np.array([rng.uniform(max(0., -x) + 1e-3, min(1., 1. - x) - 1e-3) for x in du])
            uj = ui + du
            # a spectator of another species at a generic position removes the inversion centre, so that the
            # constructor does not re-centre the cell (which would re-wrap the pair and shrink |du|)
            for t2 in range(20):
                pos = [ui, uj, rng.uniform(size=dim)]
                if gen.mindist(L, pos) >= 0.15: break
            else:
                mon.count('directed_too_close')
                continue
            c2 = crystal.Crystal(L, [[np.array(pos[0]), np.array(pos[1])], [np.array(pos[2])]])
            if c2.N != 3 or not np.allclose(c2.lattice, L):
                mon.count('directed_reduced_away')
                continue
            crys = c2
            break
        if crys is None:
            mon.count('directed_gave_up')
            continue
        cutoff, n = pick_cutoff(crys.lattice, crys.basis[0], cutoff, 10 ** 6)
        if n > case['maxjumps']:
            mon.count('directed_too_many_jumps')
            continue
        refG, degenerate = pg.reference_group(crys.lattice, crys.basis, len(crys.G))
        if degenerate:
            mon.count('threshold_degenerate_crystal_skipped')
            continue
        desc = {'kind': 'directed ' + kind, 'lattice': crys.lattice, 'basis': crys.basis, 'axis': d, 'hashseed': case.get('hashseed')}
        if sample is None: sample = dict(desc, chem=0, cutoff=cutoff)
        before = mon.obs.get('networks_with_jump_beyond_code_range', 0)
        check_network(mon, crys, 0, cutoff, None, refG, 'C', desc)
        if mon.obs.get('networks_with_jump_beyond_code_range', 0) > before:
            mon.count('directed_beyond_code_range')
    return sample


def run_D(case, mon, rng):
    """directed obstruction geometry: an obstacle beside ONE end of a jump whose length is close to the cut-off, farther than the
    cut-off from the other end, in a cell without symmetry (no operation supplies a twin obstacle at the other end)"""
    from onsager import crystal
    sample = None
    for k in range(case['n']):
        dim = 3 if rng.uniform() < 0.6 else 2
        latt = 2.7 * (np.eye(dim) + 0.12 * rng.normal(size=(dim, dim)))
        Linv = np.linalg.inv(latt)
        xA = latt @ rng.uniform(0.1, 0.3, size=dim)
        e = rng.normal(size=dim); e /= np.linalg.norm(e)
        n = rng.normal(size=dim); n -= (n @ e) * e; n /= np.linalg.norm(n)
        xB = xA + e
        end = int(rng.integers(2))   # obstacle beside the far end (1) or the near end (0) of A -> B
        along = float(rng.uniform(0.88, 0.95)) if end else float(rng.uniform(0.05, 0.12))
        dperp = float(rng.uniform(0.46, 0.52))
        xO = xA + along * e + dperp * n
        basis = [[Linv @ xA, Linv @ xB], [Linv @ xO]]
        crys = crystal.Crystal(latt, basis, noreduce=True)
        refG, degenerate = pg.reference_group(crys.lattice, crys.basis, len(crys.G))
        if degenerate: continue
        cutoff = float(rng.uniform(1.03, 1.05))
        closest = float(dperp + rng.uniform(0.03, 0.06))
        if rng.uniform() < 0.5: closest = [0., closest]
        desc = {'kind': 'directed-obstacle', 'lattice': crys.lattice, 'basis': crys.basis, 'obstacle_end': end, 'hashseed': case.get('hashseed')}
        if sample is None: sample = dict(desc, chem=0, cutoff=cutoff, closest=closest)
        r = check_network(mon, crys, 0, cutoff, closest, refG, 'D', desc)
        if r is not None: mon.count('directed_obstacle_networks')
    return sample


def run_case(case):
    mon = Mon()
    fam = case['family']
    rng = gen.rng_for(case['seed'], case['idx'], 21, ord(fam))
    sample = {'A': run_A, 'B': run_B, 'C': run_C, 'D': run_D}[fam](case, mon, rng)
    return mon.result(sample=sample)
