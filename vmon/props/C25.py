"""C25: vector-star bases are orthonormal, equivariant and complete.

Monitor: VectorStarSet(StarSet(N, origin states)) is unpacked into a dense field array V[a, state, :] and compared
with an independent model (vmon.ref.pairs + vmon.ref.geom): Gram matrix = 1; V(g.s) = g.V(s) for every operation of
the brute-force space group; number of vector stars per star = trace of the group-average projector of the
stabiliser of the star's first state and sum_a v_a v_a^T = that projector; `outer` = direct sums; and for random
class values every expansion (GFexpansion, rateexpansions, biasexpansions, bareexpansions with omega2 False/True,
originstateVectorBasisfolddown) contracted with the values equals V^T M V (or V^T b) of the state-space matrix /
vector assembled jump by jump.  Workload: named + random crystals (2-D/3-D, 1-3 sites), N = 1..3 with <= 170 states.
History workload: ONE VectorStarSet object (started empty or from the constructor) is generate()d for a sequence of 2-3
different star sets of the same network (range stepped, origin states switched); after every step all basis clauses are
re-checked against the star set handed in last and the object is compared with a fresh VectorStarSet of that star set.
"""
import numpy as np
from vmon import gen
from vmon.util import Mon
from vmon.ref import pairs, geom

ID = 'C25'
RULE = ('crystal as in C24 (35% named, else random Bravais type, 1-2 species, <=3 sites); kinetic star set N in 1..3 limited '
        'to <= 170 states (230 in the thorough tier; N=3 only on small crystals), origin states on in 85% of the cases; omega1/omega2 networks from the '
        'star set, optionally pruned like VacancyMediated.generate; random positive class rates / escape rates / GF values; '
        'non-trivial = more than one vector star; distinct = (structure kind, sites, |G|, N, states, vector stars, origin stars). '
        'Reuse histories (one per crystal, own random stream): the same VectorStarSet object - created empty (40%) or by the '
        'constructor for the first star set - is generate()d for 2-3 consecutive, different (N, originstates) star sets (new '
        'StarSet objects) of the same crystal and jump network, ranges with <= 120 states: N stepped up 1->2(->3) (35%), '
        'origin states switched at fixed N (15%), or a random walk over the configurations (50%; ranges also shrink); after '
        'every generate() the clauses structure/orthonormal/equivariant/count/span/outer are evaluated for the object '
        'against the star set of that step (tag reused-object) and vecpos/vecvec/outer/Nvstars are compared with a fresh '
        'object; distinct = (kind, sites, |G|, history, start)')
ASSUMPTIONS = ['a VectorStarSet that has been generate()d for a star set is a basis for THAT star set, whatever it held before '
               '(generate() is the documented way to construct the vector stars for a StarSet); only new StarSet objects are '
               'handed in (generate() returns at once for the identical object); reused and fresh object built from the same '
               'StarSet object in the same process are compared to 1e-12 absolute',
               'reference space group = vmon.ref.geom.full_group; invariant subspaces from the group-average projector',
               'orthonormality/equivariance/projector tolerance 1e-9',
               'arrays the class passes through zeroclean(threshold 1e-8) (outer, all expansions) are compared with tolerance '
               '2e-8 x max(1, sum |values|): an entry below 1e-8 is legitimately zeroed',
               'GF values are drawn per class {orbit of the difference state} U {orbit of its reverse}: G(i,j,dx) = G(j,i,-dx)',
               'omega1/omega2 escape rates are drawn per (class, star of the initial state), omega0 escape rates per '
               '(jump type, site orbit of the vacancy) - the granularity at which VacancyMediated.Lij supplies them',
               'rows of the omega2 bias expansion (bias1) that belong to origin states are not compared (Lij multiplies them '
               'by an identically zero escape rate; their meaning is not specified)',
               'rows of the omega2 reference escape expansion (rate0escape, omega2=True) that belong to origin states are not '
               'compared: the class counts the escape of an origin state once per vector star of the neighbouring state; '
               'Lij was observed to be independent of that diagonal value (factor 0.75..3: change < 1e-7 relative) because the '
               'origin state is decoupled, while the directly assembled value would make 1 + G0.delta_omega singular']
REQUIRED_OBS = {'vectorstarsets_checked': 60, 'eval:C25:orthonormal': 60, 'eval:C25:equivariant': 60, 'eval:C25:count': 300,
                'eval:C25:outer': 60, 'eval:C25:GFexpansion': 50, 'eval:C25:rate1expansion': 100, 'eval:C25:rate1escape': 100,
                'eval:C25:rate0expansion': 100, 'eval:C25:rate0escape': 100, 'eval:C25:bias1expansion': 100,
                'eval:C25:bias0expansion': 100, 'eval:C25:bare': 100, 'origin_vectorstars': 20, 'om2_origin_terms': 10,
                'perp_vectorstars': 50, 'dim2_sets': 10, 'multisite_sets': 15, 'pruned_networks': 10,
                'reuse_histories': 50, 'reuse_steps': 70, 'reuse_steps_basis_checked': 70, 'eval:C25:reuse=fresh': 120, 'eval:C25:reuse-GFexpansion=fresh': 100, 'eval:C25:reuse-expansions=fresh': 100,
                'reuse_step:range_changed': 25, 'reuse_step:origin_switched': 25, 'reuse_step:smaller_starset': 15,
                'reuse_histories:empty': 10, 'reuse_histories:constructor': 10}
CASE_TIMEOUT = 400
PER_CASE = 2
CHUNK = 2
TOLZ = 2e-8
HIST_STATES = 120


def cases(tier, seed):
    if tier == 'quick':
        return [{'seed': seed, 'idx': i, 'hashseed': i % 5} for i in range(44)]
    return [{'seed': seed, 'idx': i, 'hashseed': i % 7, 'big': True} for i in range(600)]


def dense_fields(vs, nstates, dim):
    V = np.zeros((vs.Nvstars, nstates, dim))
    for a, (pos, vec) in enumerate(zip(vs.vecpos, vs.vecvec)):
        for s, v in zip(pos, vec):
            V[a, int(s), :] += np.asarray(v, dtype=float)
    return V


def proj2(V, W):
    """V^T W V for a state-space matrix W"""
    return np.einsum('and,nm,bmd->ab', V, W, V, optimize=True)


def basis_clauses(mon, pg, ss, vs, keys, index, det, xt=(), coverage=True):
    """The basis clauses of C25 (structure, orthonormal, equivariant, count, span, outer) for the vector stars held by
    `vs`, read as a basis for the star set `ss`.  -> (V, vstar_star), or None when the fields cannot be unpacked / the
    star set is not closed.  xt: extra tags; coverage: also feed the workload counters."""
    xt = list(xt)
    dim = pg.dim
    n = len(keys)
    # ---- structure -------------------------------------------------------------------------
    struct_ok = (len(vs.vecpos) == vs.Nvstars == len(vs.vecvec)) and vs.Nvstars > 0
    if struct_ok:
        for pos, vec in zip(vs.vecpos, vs.vecvec):
            if len(pos) == 0 or not all(0 <= int(x) < n for x in pos):
                struct_ok = False
                break
            st = ss.stars[int(ss.index[pos[0]])]
            if [int(x) for x in pos] != [int(x) for x in st] or len(vec) != len(pos) or \
                    any(np.shape(v) != (dim,) for v in vec):
                struct_ok = False
                break
    if not mon.check(struct_ok, 'C25:structure', lambda: 'vecpos/vecvec are not fields over complete stars %s' % det(), tags=xt):
        return None
    V = dense_fields(vs, n, dim)
    vstar_star = [int(ss.index[pos[0]]) for pos in vs.vecpos]
    # ---- orthonormal -----------------------------------------------------------------------
    gram = np.einsum('and,bnd->ab', V, V)
    mon.close(gram, np.eye(vs.Nvstars), 1e-9, 'C25:orthonormal', det, tags=xt)
    # ---- equivariant -----------------------------------------------------------------------
    perms = pg.state_perms(keys, index)
    closed = all(np.all(p >= 0) for p in perms)
    if not closed:
        mon.count('starset_not_closed')  # C24's business
        return None
    erra = np.zeros(vs.Nvstars)
    for p, op in zip(perms, pg.ops):
        erra = np.maximum(erra, np.max(np.abs(V[:, p, :] - V @ op[3].T), axis=(1, 2)))
    # regime: stars whose stabiliser is exactly {1, two-fold rotation about the separation} (3-D only)
    c2stars = set()
    stab = {}
    for si, st in enumerate(ss.stars):
        rots = pg.stabilizer_rots(keys[st[0]])
        stab[si] = rots
        if dim == 3 and len(rots) == 2 and not pg.iszero(keys[st[0]]):
            R2 = [r for r in rots if not np.allclose(r, np.eye(3), atol=1e-6)]
            dxs = pg.dx(keys[st[0]])
            if len(R2) == 1 and np.linalg.det(R2[0]) > 0 and abs(np.trace(R2[0]) + 1) < 1e-6 and \
                    np.allclose(R2[0] @ dxs, dxs, atol=1e-6):
                c2stars.add(si)
    if coverage: mon.count('c2_axis_stars', len(c2stars))
    for grp, gtags in ((False, []), (True, ['C2-axis-stabiliser'])):
        sel = [a for a in range(vs.Nvstars) if (vstar_star[a] in c2stars) == grp]
        if not sel: continue
        err = float(np.max(erra[sel]))
        mon.check(err < 1e-9, 'C25:equivariant', lambda: 'max |v(g.s) - g.v(s)| = %.3e (vector stars %s) %s' % (
            err, [a for a in sel if erra[a] >= 1e-9][:6], det()), tags=gtags + xt)
    # ---- count and completeness per star ---------------------------------------------------
    nper = {}
    for a, si in enumerate(vstar_star): nper.setdefault(si, []).append(a)
    for si, st in enumerate(ss.stars):
        k0 = keys[st[0]]
        P = geom.vector_projector(stab[si])
        want = int(round(np.trace(P)))
        mine = nper.get(si, [])
        iso = pg.iszero(k0)
        mon.check(len(mine) == want, 'C25:count',
                  lambda: 'star %d (first state %s, %d states): %d vector stars, invariant space of the stabiliser has '
                          'dimension %d %s' % (si, k0, len(st), len(mine), want, det()),
                  tags=(['C2-axis-stabiliser'] if si in c2stars else []) + xt)
        if len(mine) == want:
            S = sum((np.outer(V[a, st[0]], V[a, st[0]]) for a in mine), np.zeros((dim, dim))) * len(st)
            mon.close(S, P, 1e-9, 'C25:span=invariant-space', lambda: 'star %d first state %s %s' % (si, k0, det()), tags=xt)
        if coverage:
            mon.count('origin_vectorstars', len(mine) if iso else 0)
            mon.count('perp_vectorstars', max(len(mine) - 1, 0) if not iso else 0)
            mon.seen('vstars_per_star', len(mine))
    # ---- outer -----------------------------------------------------------------------------
    mon.close(np.asarray(vs.outer), np.einsum('and,bne->deab', V, V), TOLZ, 'C25:outer', det, tags=xt)
    return V, vstar_star


def reuse_history(mon, rng, stars, pg, crys, chem, jn, desc, kind, okN):
    """ONE VectorStarSet object generate()d for a sequence of 2-3 different star sets of the same crystal / jump network
    (range stepped up or down, origin states switched on/off).  After every step the object has to be a correct basis for
    the star set it was handed last (all basis clauses), and the same as a fresh VectorStarSet of that star set."""
    confs = [(N, o) for N in okN for o in (True, False)]
    nsteps = 3 if len(confs) > 2 and rng.uniform() < 0.6 else 2
    mode = rng.uniform()
    if mode < 0.35 and len(okN) >= 2:       # stepping the range up: N = 1 -> 2 (-> 3), as one does for convergence
        o = bool(rng.uniform() < 0.8)
        seq = [(N, o) for N in okN[:3]]
        if len(seq) < 3 and nsteps == 3: seq.append((seq[-1][0], not o))
        seq = seq[:max(nsteps, 2)]
    elif mode < 0.5:                        # same range, origin states switched
        N = int(okN[int(rng.integers(len(okN)))])
        o = bool(rng.uniform() < 0.5)
        seq = [(N, o), (N, not o)] + ([(N, o)] if nsteps == 3 else [])
    else:                                   # random walk over the configurations, consecutive ones different
        seq = []
        for _ in range(nsteps):
            for t in range(20):
                c = confs[int(rng.integers(len(confs)))]
                if not seq or c != seq[-1]: break
            seq.append(c)
    if len(seq) > 1 and seq[1] == seq[0]: seq[1] = (seq[0][0], not seq[0][1])
    start = 'empty' if rng.uniform() < 0.4 else 'constructor'
    hdesc = dict(desc)
    hdesc.update({'history': [list(c) for c in seq], 'start': start})
    vs = None
    done = []
    for step, (N, o) in enumerate(seq):
        det = lambda: 'reused VectorStarSet (%s start) after generate() for (N, originstates) = %s, now step %d %s' % (
            start, done, step, hdesc)
        ss = fresh = None
        with mon.guard('C25:construct', tags=['reused-object']):
            ss = stars.StarSet(jn, crys, chem, Nshells=int(N), originstates=bool(o))
            if vs is None:
                vs = stars.VectorStarSet() if start == 'empty' else stars.VectorStarSet(ss)
            vs.generate(ss)
            fresh = stars.VectorStarSet(ss)
        if ss is None or fresh is None or vs is None: return
        done.append([int(N), bool(o)])
        keys = [pairs.key_of(x) for x in ss.states]
        index = {k: m for m, k in enumerate(keys)}
        xt = ['reused-object', 'reuse-step-%d' % step]
        mon.check(vs.starset is ss, 'C25:reuse-starset', lambda: 'the object does not refer to the star set it was generated for %s' % det(), tags=xt)
        res = basis_clauses(mon, pg, ss, vs, keys, index, det, xt=xt, coverage=False)
        # the same as a fresh object (same star set object, same process: the construction is deterministic)
        same = vs.Nvstars == fresh.Nvstars and len(vs.vecpos) == len(fresh.vecpos) and len(vs.vecvec) == len(fresh.vecvec) and \
            all([int(x) for x in p] == [int(x) for x in q] for p, q in zip(vs.vecpos, fresh.vecpos)) and \
            all(np.shape(u) == np.shape(w) and np.allclose(u, w, rtol=0, atol=1e-12) for u, w in zip(vs.vecvec, fresh.vecvec)) and \
            np.shape(vs.outer) == np.shape(fresh.outer) and np.allclose(vs.outer, fresh.outer, rtol=0, atol=1e-12)
        mon.check(same, 'C25:reuse=fresh', lambda: '%d vector stars, a fresh VectorStarSet of the same star set has %d; %s' % (
            vs.Nvstars, fresh.Nvstars, det()), tags=xt)
        # expansions asked at every step of the history (so that anything remembered from the previous star set is exposed)
        with mon.guard('C25:reuse-expansions', tags=xt):
            GFa, GFss_a = vs.GFexpansion()
            GFb, GFss_b = fresh.GFexpansion()
            okg = np.shape(GFa) == np.shape(GFb) and np.allclose(GFa, GFb, rtol=0, atol=1e-12) and GFss_a.Nstates == GFss_b.Nstates \
                and GFa.shape[0] == vs.Nvstars
            mon.check(okg, 'C25:reuse-GFexpansion=fresh',
                      lambda: 'GFexpansion of the reused object has shape %s (%d GF states), of a fresh object %s (%d), basis has %d vector stars; %s' % (
                          np.shape(GFa), GFss_a.Nstates, np.shape(GFb), GFss_b.Nstates, vs.Nvstars, det()), tags=xt)
            n1 = ss.jumpnetwork_omega1()
            ra, rb = vs.rateexpansions(n1[0], n1[1]), fresh.rateexpansions(n1[0], n1[1])
            ba, bb = vs.biasexpansions(n1[0], n1[1]), fresh.biasexpansions(n1[0], n1[1])
            oke = all(np.shape(x) == np.shape(y) and np.allclose(x, y, rtol=0, atol=1e-12) for x, y in zip(tuple(ra) + tuple(ba), tuple(rb) + tuple(bb)))
            mon.check(oke, 'C25:reuse-expansions=fresh', lambda: 'rate / bias expansions of the reused object differ from those of a fresh object; %s' % det(), tags=xt)
        if step > 0:
            mon.count('reuse_steps')
            mon.count('reuse_step:range_changed', done[-1][0] != done[-2][0])
            mon.count('reuse_step:origin_switched', done[-1][1] != done[-2][1])
            mon.count('reuse_step:smaller_starset', len(keys) < nprev)
            mon.count('reuse_steps_basis_checked', res is not None)
        nprev = len(keys)
    mon.count('reuse_histories')
    mon.count('reuse_histories:' + start)
    mon.seen('reuse_history_lengths', len(seq))
    mon.sig(['reuse', kind, pg.N, len(pg.group), [list(c) for c in seq], start])


def run_case(case):
    from onsager import crystalStars as stars
    mon = Mon()
    rng = gen.rng_for(case['seed'], case['idx'], 25)
    sample = None
    MAXSTATES = 230 if case.get('big') else 170
    for rep in range(PER_CASE):
        crys, chem, jn, desc, kind = pairs.rand_network(rng, gen, named_prob=0.35, maxshell=2)
        pg = pairs.PairGeom(crys.lattice, crys.basis, chem, jn)
        if len(pg.group) != len(crys.G):
            mon.count('group_mismatch')
            continue
        okN = [N for N in (1, 2, 3) if (lambda r: r is not None and len(r) <= MAXSTATES)(pg.reachable(N, cap=MAXSTATES))]
        if not okN:
            mon.count('too_large')
            continue
        # prefer the larger ranges
        N = int(okN[-1] if rng.uniform() < 0.6 else okN[int(rng.integers(len(okN)))])
        origin = bool(rng.uniform() < 0.85)
        desc.update({'N': N, 'origin': origin, 'hashseed': case.get('hashseed')})
        if sample is None: sample = dict(desc)
        dim = pg.dim
        ss = vs = None
        with mon.guard('C25:construct'):
            ss = stars.StarSet(jn, crys, chem, Nshells=N, originstates=origin)
            vs = stars.VectorStarSet(ss)
        if vs is None: continue
        det = lambda: str(desc)
        keys = [pairs.key_of(s) for s in ss.states]
        n = len(keys)
        index = {k: m for m, k in enumerate(keys)}
        mon.count('vectorstarsets_checked')
        mon.count('dim2_sets', dim == 2)
        mon.count('multisite_sets', pg.N > 1)
        mon.seen('kinds', kind)
        mon.seen('N_used', N)
        mon.note_max('states', n)
        mon.note_max('vectorstars', vs.Nvstars)

        res = basis_clauses(mon, pg, ss, vs, keys, index, det)
        if res is None: continue
        V, vstar_star = res
        nOS = sum(1 for si in vstar_star if pg.iszero(keys[ss.stars[si][0]]))
        if vs.Nvstars > 1:
            mon.sig([kind, pg.N, len(pg.group), N, n, vs.Nvstars, nOS])

        # ---- GF expansion ----------------------------------------------------------------------
        with mon.guard('C25:GFexpansion'):
            GFexp, GFss = vs.GFexpansion()
            dkeys = {}
            for a in keys:
                for b in keys:
                    if a[0] == b[0]:
                        dkeys[(a[1], b[1], tuple(y - x for x, y in zip(a[2], b[2])))] = None
            part = pg.partition(list(dkeys))
            val = {}
            for k in dkeys:
                if k in val: continue
                x = float(rng.normal())
                for kk in part[k]: val[kk] = x
                nk = pg.neg(k)
                if nk in part:
                    for kk in part[nk]: val[kk] = x
            gk = [pairs.key_of(GFss.states[st[0]]) for st in GFss.stars]
            if mon.check(all(k in val for k in gk), 'C25:GFstars', lambda: 'a GF star is not a difference of two states %s' % det()):
                gvals = np.array([val[k] for k in gk])
                Gst = np.zeros((n, n))
                for a_i, a in enumerate(keys):
                    for b_i, b in enumerate(keys):
                        if a[0] == b[0]:
                            Gst[a_i, b_i] = val[(a[1], b[1], tuple(y - x for x, y in zip(a[2], b[2])))]
                mon.close(np.dot(GFexp, gvals), proj2(V, Gst), TOLZ, 'C25:GFexpansion', det,
                          scale=max(1., float(np.sum(np.abs(gvals)))))
                mon.note_max('GFstars', len(gk))

        # ---- omega1 / omega2 expansions --------------------------------------------------------
        siteorb = [min(int(op[1][c]) for op in pg.ops) for c in range(pg.N)]
        norb = max(siteorb) + 1
        njt = len(jn)
        om0 = np.exp(rng.normal(size=njt))
        e0 = np.exp(rng.normal(size=(njt, norb)))  # escape rate of jump type jt from a vacancy on site orbit w
        inner = pg.reachable(N - 1) if N > 1 else set()
        outerstars = set(si for si, st in enumerate(ss.stars) if keys[st[0]] not in inner)
        for which in (1, 2):
            tags = ['omega%d' % which]
            net = None
            with mon.guard('C25:network', tags=tags):
                net = ss.jumpnetwork_omega1() if which == 1 else ss.jumpnetwork_omega2()
            if not net: continue
            jnw, jtw, spw = [list(x) for x in net]
            if which == 1 and N > 1 and rng.uniform() < 0.5:
                keep = [k for k in range(len(jnw)) if not (spw[k][0] in outerstars and spw[k][1] in outerstars)]
                jnw, jtw, spw = [jnw[k] for k in keep], [jtw[k] for k in keep], [spw[k] for k in keep]
                mon.count('pruned_networks')
            ncl = len(jnw)
            if ncl == 0:
                # a network without any transition of this kind (closed pairs of sites): the expansions are empty arrays
                tags = tags + ['empty-network']
                mon.count('empty_networks')
            om = np.exp(rng.normal(size=ncl))
            esc = np.exp(rng.normal(size=(ncl, ss.Nstars)))  # escape rate of class k from a state of star s
            res = None
            with mon.guard('C25:expansions', tags=tags):
                r0, r0e, r1, r1e = vs.rateexpansions(jnw, jtw, omega2=(which == 2))
                b0, b1 = vs.biasexpansions(jnw, jtw, omega2=(which == 2))
                D0, D1 = vs.bareexpansions(jnw, jtw)
                res = True
            if res is None: continue
            # state-space assembly, jump by jump
            W1 = np.zeros((n, n)); W0 = np.zeros((n, n))
            d1 = np.zeros(n); d0 = np.zeros(n)
            bb1 = np.zeros((n, dim)); bb0 = np.zeros((n, dim))
            DD1 = np.zeros((dim, dim)); DD0 = np.zeros((dim, dim))
            nOSterms = 0
            for k, jl in enumerate(jnw):
                jt = int(jtw[k])
                for (IS, FS), dx in jl:
                    IS, FS = int(IS), int(FS)
                    dx = np.asarray(dx, dtype=float)
                    ki = keys[IS]
                    W1[IS, FS] += om[k]
                    d1[IS] -= esc[k, int(ss.index[IS])]
                    d0[IS] -= e0[jt, siteorb[ki[1]]]
                    bb1[IS] += esc[k, int(ss.index[IS])] * dx
                    bb0[IS] += e0[jt, siteorb[ki[1]]] * dx
                    DD1 += 0.5 * om[k] * np.outer(dx, dx)
                    DD0 += 0.5 * om0[jt] * np.outer(dx, dx)
                    if which == 1:
                        W0[IS, FS] += om0[jt]
                    else:
                        # reference (no solute): the vacancy lands on the solute's site = origin state of that site
                        OS = index.get(pg.zero(ki[0]))
                        if OS is not None:
                            nOSterms += 1
                            W0[IS, OS] += om0[jt]
                            W0[OS, IS] += om0[jt]
                            d0[OS] -= e0[jt, siteorb[ki[0]]]
                            bb0[OS] -= e0[jt, siteorb[ki[0]]] * dx
            if which == 2: mon.count('om2_origin_terms', nOSterms)
            sc = max(1., float(np.sum(om)), float(np.sum(om0)))
            dd = lambda: 'omega%d network (%d classes) %s' % (which, ncl, det())
            mon.close(np.dot(r1, om), proj2(V, W1), TOLZ, 'C25:rate1expansion', dd, tags=tags, scale=sc)
            mon.close(np.dot(r0, om0), proj2(V, W0), TOLZ, 'C25:rate0expansion', dd, tags=tags, scale=sc)
            escv = np.array([np.dot(r1e[a, :], esc[:, vstar_star[a]]) for a in range(vs.Nvstars)])
            mon.close(np.diag(escv), np.einsum('and,n,bnd->ab', V, d1, V), TOLZ, 'C25:rate1escape', dd, tags=tags,
                      scale=max(1., float(np.sum(esc))))
            wa = [siteorb[keys[vs.vecpos[a][0]][1]] for a in range(vs.Nvstars)]
            esc0v = np.array([np.dot(r0e[a, :], e0[:, wa[a]]) for a in range(vs.Nvstars)])
            # origin-state rows of the omega2 reference escape are a gauge (see ASSUMPTIONS): not compared
            rows = [a for a in range(vs.Nvstars) if not (which == 2 and pg.iszero(keys[vs.vecpos[a][0]]))]
            mon.close(np.diag(esc0v)[np.ix_(rows, rows)], np.einsum('and,n,bnd->ab', V, d0, V)[np.ix_(rows, rows)], TOLZ,
                      'C25:rate0escape', dd, tags=tags, scale=max(1., float(np.sum(e0)) * 4))
            bias1 = np.array([np.dot(b1[a, :], esc[:, vstar_star[a]]) for a in range(vs.Nvstars)])
            bias0 = np.array([np.dot(b0[a, :], e0[:, wa[a]]) for a in range(vs.Nvstars)])
            ref1 = np.einsum('and,nd->a', V, bb1)
            ref0 = np.einsum('and,nd->a', V, bb0)
            mon.close(bias1[rows], ref1[rows], TOLZ, 'C25:bias1expansion', dd, tags=tags, scale=max(1., float(np.sum(esc))))
            mon.close(bias0, ref0, TOLZ, 'C25:bias0expansion', dd, tags=tags, scale=max(1., float(np.sum(e0)) * 4))
            mon.close(np.dot(D1, om), DD1, TOLZ, 'C25:bare', dd, tags=tags, scale=sc)
            mon.close(np.dot(D0, om0), DD0, TOLZ, 'C25:bare', dd, tags=tags, scale=sc)

        # ---- fold-down onto origin states ------------------------------------------------------
        for elem, attr in (('solute', 0), ('vacancy', 1)):
            with mon.guard('C25:folddown'):
                OSi, fold, OSVB = vs.originstateVectorBasisfolddown(elem)
                wantOS = [a for a in range(vs.Nvstars) if pg.iszero(keys[vs.vecpos[a][0]])]
                ok = [int(x) for x in OSi] == wantOS and np.shape(fold) == (len(wantOS), vs.Nvstars) and \
                     np.shape(OSVB) == (len(wantOS), pg.N, dim)
                if mon.check(ok, 'C25:folddown-shape', lambda: 'OSindices %s expected %s %s' % (list(OSi), wantOS, det())) and wantOS:
                    x = rng.normal(size=vs.Nvstars)
                    field = np.einsum('a,and->nd', x, V)
                    w = np.zeros((pg.N, dim))
                    for m, k in enumerate(keys): w[k[attr]] += field[m]
                    U = np.zeros((len(wantOS), pg.N, dim))
                    for r, a in enumerate(wantOS):
                        for c in range(pg.N):
                            U[r, c] = V[a, index[pg.zero(c)]]
                    mon.close(np.asarray(OSVB), U, TOLZ, 'C25:folddown-basis', det)
                    mon.close(np.dot(fold, x), np.einsum('rcd,cd->r', U, w), TOLZ, 'C25:folddown', det,
                              scale=max(1., float(np.sum(np.abs(x)))))

        # ---- history: one VectorStarSet object re-generated for other star sets ----------------
        if rep < case.get('nhist', PER_CASE):
            # history star sets are kept smaller (<= HIST_STATES states; the smallest range is always available)
            okH = [M for M in okN if len(pg.reachable(M, cap=MAXSTATES)) <= HIST_STATES] or okN[:1]
            reuse_history(mon, gen.rng_for(case['seed'], case['idx'], 25, 1000 + rep), stars, pg, crys, chem, jn, desc, kind, okH)
    return mon.result(sample=sample)
