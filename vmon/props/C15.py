"""C15: tag input maps exactly onto symmetry classes.

Monitor on the real `generatetags()` of OnsagerCalc.Interstitial and OnsagerCalc.VacancyMediated and on
`VacancyMediated.tags2preene(usertagdict, VERBOSE)`.  Oracle R12 (vmon.ref.tagparse): an independent
parser turns every tag string back into unit-cell positions, which are looked up geometrically (site by
position, pair state / jump by site indices and Cartesian displacement) in the calculator's classes
(sitelist, thermo.stars, om0_jn, om1_jn, om2_jn / jumpnetwork).  Clauses: all tags unique over the whole
dictionary; every tag names exactly one member of exactly its own class and of no other class, and the tags
of a class name each member once; tagdict/tagdicttype agree.  tags2preene: for random subsets of classes
and a random MEMBER tag of each, the arrays equal the supplied numbers at exactly those classes, 1/0
elsewhere, and the LIMB values (recomputed from the definition with geometric lookups) for omega1/omega2
classes without data; the VERBOSE report equals the independently computed (classes without data,
classes given more than once, unknown tags) as sets.  Duplicates and bogus tags are injected.
"""
import numpy as np
from vmon import gen
from vmon.util import Mon
from vmon.ref import tagparse as tp

ID = 'C15'
RULE = ('VacancyMediated: named crystals (2-D/3-D, multi-site, multi-Wyckoff, two species) with Nthermo 1 (2 on four cheap ones; '
        'thorough: 2 on all cheap ones, plus random crystals); Interstitial: random crystals of all lattice systems, 1-3 orbits, 1-2 species, random '
        'cutoff; per calculator 6 (quick) random user dictionaries: random subset of classes (probability 0..1), random '
        'member tag, 0-3 duplicated classes (60 % of them with three or four member tags), 0-4 bogus tags of 8 kinds; non-trivial = calculator with >= 2 classes; '
        'distinct = (calculator, crystal, Nthermo/cutoff class counts)')
ASSUMPTIONS = ['tags carry 3 decimals of unit-cell coordinates: positions are matched with tolerance 1.2e-3 (unit cell), '
               'displacements with the corresponding Cartesian tolerance; crystals whose sites are closer than that are skipped',
               'bogus tags are chosen so that they are wrong geometrically or syntactically, never an alternative spelling of a valid tag',
               'when a class is given twice with different numbers the result may be either of them (the statement does not say which)',
               'LIMB: pre = preT0 * sqrt(pre_i pre_f), ene = eneT0 + (ene_i + ene_f)/2 with state values = solute (x binding if in '
               'thermodynamic range); compared exactly']
REQUIRED_OBS = {'vm_calculators': 8, 'int_calculators': 8, 'eval:C15:VM:tag-names-own-class': 500, 'eval:C15:Int:tag-names-own-class': 100,
                'eval:C15:VM:unique': 8, 'eval:C15:Int:unique': 8, 'eval:C15:VM:preene-given': 100, 'eval:C15:VM:preene-default': 100,
                'eval:C15:VM:preene-LIMB': 40, 'eval:C15:VM:verbose-missing': 40, 'eval:C15:VM:verbose-duplicates': 40,
                'eval:C15:VM:verbose-bad': 40, 'duplicates_injected': 20, 'classes_with_three_or_more_tags': 8, 'bogus_injected': 40, 'tagtypes_seen': 6,
                'dim2_calculators': 4, 'multiwyckoff_calculators': 2}
CASE_TIMEOUT = 600
CHUNK = 3
CHEAP = ('square', 'tria', 'honey', 'lieb', 'kagome', 'rect', 'dtria', 'sc', 'tet')


def cases(tier, seed):
    out = []
    for k, name in enumerate(gen.NAMED):
        out.append({'seed': seed, 'idx': len(out), 'hashseed': (k + seed) % 5, 'kind': 'vm', 'name': name, 'Nthermo': 1})
    for k, name in enumerate(('square', 'honey', 'lieb', 'dtria')):
        out.append({'seed': seed, 'idx': len(out), 'hashseed': (k + 1 + seed) % 5, 'kind': 'vm', 'name': name, 'Nthermo': 2})
    nint = 16 if tier == 'quick' else 400
    for i in range(nint):
        out.append({'seed': seed, 'idx': len(out), 'hashseed': i % 5, 'kind': 'int'})
    if tier != 'quick':
        for k, name in enumerate(gen.NAMED):
            out.append({'seed': seed, 'idx': len(out), 'hashseed': (k + 2) % 7, 'kind': 'vm', 'name': name, 'Nthermo': 2 if name in CHEAP else 1})
        for i in range(60):
            out.append({'seed': seed, 'idx': len(out), 'hashseed': i % 7, 'kind': 'vmrand'})
    return out


# ------------------------------------------------------------------------------------------------
def check_tagsets(mon, P, tags, tagdict, tagdicttype, lookup, members, ctx):
    """tags: {type: [[tag,...] per class]}; lookup(type, tag) -> [(class, member)] over all classes of that type;
    members(type, k) -> number of members of class k"""
    flat = [(t, k, tag) for t, lists in tags.items() for k, cl in enumerate(lists) for tag in cl]
    alltags = [x[2] for x in flat]
    mon.check(len(set(alltags)) == len(alltags), P + 'unique', lambda: 'repeated tags: %s %s' % (
        sorted(set(t for t in alltags if alltags.count(t) > 1))[:5], ctx))
    mon.check(len(tagdict) == len(set(alltags)) and len(tagdicttype) == len(tagdict), P + 'tagdict-size',
              lambda: '%d tags, tagdict %d, tagdicttype %d %s' % (len(set(alltags)), len(tagdict), len(tagdicttype), ctx))
    for t, lists in tags.items():
        mon.seen('tagtype_list', t)
        for k, cl in enumerate(lists):
            named = []
            for tag in cl:
                hits = lookup(t, tag)
                own = [m for (kk, m) in hits if kk == k]
                other = sorted(set(kk for (kk, m) in hits if kk != k))
                elsewhere = [tt for tt in tags if tt != t and lookup(tt, tag)]
                mon.check(len(own) == 1 and not other and not elsewhere, P + 'tag-names-own-class',
                          lambda: 'tag %r of %s class %d: members of own class matched %s, other classes %s, other types %s %s' % (
                              tag, t, k, own, other, elsewhere, ctx))
                mon.check(tagdict.get(tag) == k and tagdicttype.get(tag) == t, P + 'tagdict-entry',
                          lambda: 'tag %r is in %s class %d, tagdict says %s %s %s' % (tag, t, k, tagdicttype.get(tag), tagdict.get(tag), ctx))
                named += own
            n = members(t, k)
            mon.check(sorted(named) == list(range(n)), P + 'class-fully-named',
                      lambda: '%s class %d has %d members, its %d tags name members %s %s' % (t, k, n, len(cl), sorted(named), ctx))


def vm_members(calc, t, k):
    return {'vacancy': lambda: len(calc.sitelist[k]), 'solute': lambda: len(calc.sitelist[k]),
            'solute-vacancy': lambda: len(calc.thermo.stars[k]), 'omega0': lambda: len(calc.om0_jn[k]),
            'omega1': lambda: len(calc.om1_jn[k]), 'omega2': lambda: len(calc.om2_jn[k])}[t]()


ARR = {'vacancy': ('preV', 'eneV'), 'solute': ('preS', 'eneS'), 'solute-vacancy': ('preSV', 'eneSV'), 'omega0': ('preT0', 'eneT0'),
       'omega1': ('preT1', 'eneT1'), 'omega2': ('preT2', 'eneT2')}


def fmt_site(letter, u):
    return letter + ':' + ','.join('%+06.3f' % x for x in u)


def bogus_tags(rng, calc, geo, classify):
    """strings that are not the name of anything: syntactically broken or geometrically wrong"""
    dim = calc.crys.dim
    basis = calc.crys.basis[calc.chem]
    cands = ['', 'foo', 'v', 'omega3:' + fmt_site('v', basis[0]) + '^' + fmt_site('v', basis[0]),
             fmt_site('x', basis[0]), fmt_site('V', basis[0]), fmt_site('v', basis[0]) + ' ', fmt_site('v', basis[0])[:-1]]
    for _ in range(6):
        u = rng.uniform(size=dim)
        cands.append(fmt_site(str(rng.choice(['v', 's'])), u))                                   # not a site
    far = np.zeros(dim)
    far[int(rng.integers(dim))] = 9.
    i, j = int(rng.integers(len(basis))), int(rng.integers(len(basis)))
    cands.append(fmt_site('s', basis[i]) + '-' + fmt_site('v', basis[j] + far))                   # pair far outside the range
    cands.append('omega0:' + fmt_site('v', basis[i]) + '^' + fmt_site('v', basis[j] + far))       # not a jump
    cands.append('omega1:' + fmt_site('s', basis[i]) + '-' + fmt_site('v', basis[j] + far) + '^' + fmt_site('v', basis[j] + 2 * far))
    cands.append('omega2:' + fmt_site('s', basis[i]) + '-' + fmt_site('v', basis[j] + far) + '^' + fmt_site('s', basis[j]) + '-' + fmt_site('v', basis[i] - far))
    # valid pieces in a wrong role: a bare vacancy jump written as an interstitial transition, swapped letters in a pair
    (a, b), dx = calc.om0_jn[0][0]
    u2 = basis[a] + np.linalg.solve(calc.crys.lattice, dx)
    cands.append(fmt_site('i', basis[a]) + '^' + fmt_site('i', u2))
    cands.append(fmt_site('v', basis[a]) + '-' + fmt_site('s', u2))
    cands.append(fmt_site('v', basis[a]) + '^' + fmt_site('v', u2))                                # omega0 without its prefix
    out = []
    for c in cands:
        if not classify(c) and c not in calc.tagdict:
            out.append(c)
    k = int(rng.integers(0, 5))
    return [out[m] for m in rng.permutation(len(out))[:k]]


def check_tags2preene(mon, rng, calc, geo, ctx, nrounds):
    P = 'C15:VM:'
    cache = {}

    def classify(tag):
        if tag not in cache:
            cache[tag] = sorted(set((t, k) for t, k, m in tp.vm_classify(calc, geo, tag)))
        return cache[tag]

    ncl = {t: len(calc.tags[t]) for t in tp.VM_TYPES}
    for rnd in range(nrounds):
        pfill = [0., 1., 0.5, 0.8, 0.2][rnd] if rnd < 5 else float(rng.uniform())
        user = {}
        given = {}   # (type, k) -> list of (tag, (pre, ene))
        for t in tp.VM_TYPES:
            for k, cl in enumerate(calc.tags[t]):
                if rng.uniform() < pfill and len(cl):
                    tag = cl[int(rng.integers(len(cl)))]
                    val = (float(rng.uniform(0.2, 5.)), float(rng.normal() * 2))
                    user[tag] = val
                    given.setdefault((t, k), []).append((tag, val))
        # duplicates: a second (different) member tag of an already given class, with different numbers
        ndup = 0
        cand = [key for key in given if len(calc.tags[key[0]][key[1]]) > 1]
        for m in rng.permutation(len(cand))[:int(rng.integers(0, 4))]:
            t, k = cand[m]
            others = [x for x in calc.tags[t][k] if x not in user]
            if not others: continue
            tag = others[int(rng.integers(len(others)))]
            val = (float(rng.uniform(0.2, 5.)), float(rng.normal() * 2))
            user[tag] = val
            given[(t, k)].append((tag, val))
            ndup += 1
        # three or more member tags of one class (every one of them must appear in ONE duplicate entry)
        ntriple = 0
        for (t, k) in [key for key in given if len(given[key]) >= 2]:
            if rng.uniform() < 0.6:
                for _ in range(int(rng.integers(1, 3))):
                    others = [x for x in calc.tags[t][k] if x not in user]
                    if not others: break
                    tag = others[int(rng.integers(len(others)))]
                    val = (float(rng.uniform(0.2, 5.)), float(rng.normal() * 2))
                    user[tag] = val
                    given[(t, k)].append((tag, val))
                    ndup += 1
                ntriple += len(given[(t, k)]) >= 3
        mon.count('classes_with_three_or_more_tags', ntriple)
        bogus = bogus_tags(rng, calc, geo, classify) if rnd != 1 else []
        for b in bogus: user[b] = (float(rng.uniform(0.2, 5.)), float(rng.normal()))
        # shuffle insertion order
        keys = list(user)
        user = {keys[m]: user[keys[m]] for m in rng.permutation(len(keys))}
        mon.count('duplicates_injected', ndup)
        mon.count('bogus_injected', len(bogus))
        uctx = 'user dict %s %s' % ({k: v for k, v in list(user.items())[:12]}, ctx)
        # independent expectation: classify every user tag geometrically
        exp_classes, exp_bad = {}, set()
        for tag in user:
            c = classify(tag)
            if len(c) == 1: exp_classes.setdefault(c[0], []).append(tag)
            elif len(c) == 0: exp_bad.add(tag)
            else:
                mon.check(False, P + 'user-tag-ambiguous', 'tag %r is a member of several classes %s %s' % (tag, c, ctx))
        try:
            res = calc.tags2preene(dict(user), VERBOSE=True)
            plain = calc.tags2preene(dict(user))
        except Exception as e:
            mon.check(False, P + 'tags2preene-raises', '%s: %s %s' % (type(e).__name__, e, uctx))
            continue
        ok = isinstance(res, tuple) and len(res) == 4 and isinstance(plain, dict)
        mon.check(ok, P + 'return-shape', lambda: 'VERBOSE result %s, plain %s' % (type(res), type(plain)))
        if not ok: continue
        thermo, missing, dups, bad = res
        same_plain = set(plain) == set(thermo) and all(np.array_equal(plain[k], thermo[k]) for k in thermo)
        mon.check(same_plain, P + 'verbose-same-arrays', lambda: 'VERBOSE changes the arrays %s' % uctx)
        need = [a for pair in ARR.values() for a in pair]
        if not mon.check(all(a in thermo for a in need) and all(len(thermo[ARR[t][0]]) == ncl[t] == len(thermo[ARR[t][1]]) for t in tp.VM_TYPES),
                         P + 'array-lengths', lambda: '%s %s' % ({k: np.shape(v) for k, v in thermo.items()}, ctx)):
            continue
        # given classes: exactly the supplied numbers; other classes of V, S, SV, T0: 1 and 0
        for t in tp.VM_TYPES:
            pa, ea = thermo[ARR[t][0]], thermo[ARR[t][1]]
            for k in range(ncl[t]):
                tagsk = exp_classes.get((t, k), [])
                got = (float(pa[k]), float(ea[k]))
                if tagsk:
                    allowed = [user[x] for x in tagsk]
                    mon.check(got in allowed, P + 'preene-given',
                              lambda: '%s class %d given as %s, result %s %s' % (t, k, {x: user[x] for x in tagsk}, got, uctx))
                elif t in ('vacancy', 'solute', 'solute-vacancy', 'omega0'):
                    mon.check(got == (1., 0.), P + 'preene-default', lambda: '%s class %d not given, result %s %s' % (t, k, got, uctx))
        # omega1/omega2 without data: LIMB from the (returned) state and bare-jump values
        lim = tp.limb(calc, geo, thermo['preS'], thermo['eneS'], thermo['preSV'], thermo['eneSV'], thermo['preT0'], thermo['eneT0'])
        if lim is None:
            mon.check(False, P + 'LIMB-reference', 'bare jump class of an omega1/omega2 jump not found geometrically ' + ctx)
        else:
            for t, nm in (('omega1', 'T1'), ('omega2', 'T2')):
                for k in range(ncl[t]):
                    if exp_classes.get((t, k)): continue
                    got = (float(thermo['pre' + nm][k]), float(thermo['ene' + nm][k]))
                    want = (float(lim['pre' + nm][k]), float(lim['ene' + nm][k]))
                    mon.check(got == want, P + 'preene-LIMB', lambda: '%s class %d: LIMB %r, result %r %s' % (t, k, want, got, uctx))
        # VERBOSE report
        exp_missing = set((t, frozenset(calc.tags[t][k])) for t in tp.VM_TYPES for k in range(ncl[t]) if not exp_classes.get((t, k)))
        try:
            got_missing = set((t, frozenset(cl)) for t, lists in missing.items() for cl in lists)
            got_dups = set(frozenset(x) for x in dups)
            got_bad = set(bad)
            sizes_ok = sum(len(l) for l in missing.values()) == len(got_missing) and len(dups) == len(got_dups) and len(bad) == len(got_bad) \
                and all(len(x) == len(set(x)) for x in dups)
        except Exception as e:
            mon.check(False, P + 'verbose-format', '%s: %s | %r %r %r' % (type(e).__name__, e, missing, dups, bad))
            continue
        exp_dups = set(frozenset(v) for v in exp_classes.values() if len(v) > 1)
        mon.check(got_missing == exp_missing, P + 'verbose-missing',
                  lambda: 'reported but given: %s; not reported: %s %s' % (sorted((t, sorted(c)[0]) for t, c in got_missing - exp_missing)[:4],
                                                                          sorted((t, sorted(c)[0]) for t, c in exp_missing - got_missing)[:4], uctx))
        mon.check(got_dups == exp_dups, P + 'verbose-duplicates',
                  lambda: 'reported %s expected %s %s' % (sorted(sorted(x) for x in got_dups)[:4], sorted(sorted(x) for x in exp_dups)[:4], uctx))
        mon.check(got_bad == exp_bad, P + 'verbose-bad', lambda: 'reported %s expected %s %s' % (sorted(got_bad), sorted(exp_bad), uctx))
        mon.check(sizes_ok, P + 'verbose-no-repeats', lambda: 'an entry is listed twice: %r %r %r' % (missing, dups, bad))


def run_vm(mon, rng, crys, chem, cut, Nthermo, label, nrounds):
    from onsager import OnsagerCalc
    sitelist, jn = crys.sitelist(chem), crys.jumpnetwork(chem, cut)
    ctx = '| VacancyMediated %s chem %d cutoff %r Nthermo %d' % (label, chem, cut, Nthermo)
    geo = tp.Geometry(crys.lattice, crys.basis[chem])
    if not geo.well_separated() or not jn:
        mon.count('skipped_sites_too_close_for_tags')
        return None
    try:
        calc = OnsagerCalc.VacancyMediated(crys, chem, sitelist, jn, Nthermo)
    except Exception as e:
        mon.check(False, 'C15:VM:build-raises', '%s: %s %s' % (type(e).__name__, e, ctx))
        return None
    mon.count('vm_calculators')
    mon.count('dim2_calculators', crys.dim == 2)
    mon.count('multiwyckoff_calculators', len(sitelist) > 1)
    with mon.guard('C15:VM:generatetags'):
        tags, tagdict, tagdicttype = calc.generatetags()
        mon.check(tags == calc.tags and tagdict == calc.tagdict and tagdicttype == calc.tagdicttype, 'C15:VM:stored-tags',
                  'generatetags() differs from the stored tags ' + ctx)
        mon.check(set(tags) == set(tp.VM_TYPES), 'C15:VM:tag-types', '%s %s' % (sorted(tags), ctx))
        cache = {}

        def lookup(t, tag):
            if tag not in cache:
                p = tp.parse(tag)
                cache[tag] = None if p is None else tp.describe(geo, p)
            return tp.vm_lookup(calc, geo, t, cache[tag])

        check_tagsets(mon, 'C15:VM:', tags, tagdict, tagdicttype, lookup, lambda t, k: vm_members(calc, t, k), ctx)
    check_tags2preene(mon, rng, calc, geo, ctx, nrounds)
    mon.sig(['vm', label, Nthermo, [len(tags[t]) for t in tp.VM_TYPES]])
    return {'calculator': 'VacancyMediated', 'crystal': label, 'Nthermo': Nthermo, 'classes': {t: len(tags[t]) for t in tp.VM_TYPES},
            'tags': sum(len(c) for l in tags.values() for c in l)}


def run_int(mon, rng, ctx_extra=''):
    from onsager import OnsagerCalc
    crys, spec = gen.rand_crystal(rng, nchem=int(rng.integers(1, 3)), maxatoms=6)
    chem = int(rng.integers(crys.Nchem))
    geo = tp.Geometry(crys.lattice, crys.basis[chem])
    if not geo.well_separated():
        mon.count('skipped_sites_too_close_for_tags')
        return None
    cut = gen.safe_cutoff(crys, chem, rng, lo=0.5, hi=1.25, maxshell=3)
    sitelist, jn = crys.sitelist(chem), crys.jumpnetwork(chem, cut)
    ctx = '| Interstitial %s lattice %s basis %s chem %d cutoff %r' % (spec['kind'], crys.lattice.tolist(), [[u.tolist() for u in l] for l in crys.basis], chem, cut)
    try:
        calc = OnsagerCalc.Interstitial(crys, chem, sitelist, jn)
    except Exception as e:
        mon.check(False, 'C15:Int:build-raises', '%s: %s %s' % (type(e).__name__, e, ctx))
        return None
    mon.count('int_calculators')
    mon.count('dim2_calculators', crys.dim == 2)
    mon.count('multiwyckoff_calculators', len(sitelist) > 1)
    with mon.guard('C15:Int:generatetags'):
        tags, tagdict, tagdicttype = calc.generatetags()
        mon.check(tags == calc.tags and tagdict == calc.tagdict and tagdicttype == calc.tagdicttype, 'C15:Int:stored-tags',
                  'generatetags() differs from the stored tags ' + ctx)
        mon.check(set(tags) == {'states', 'transitions'}, 'C15:Int:tag-types', '%s %s' % (sorted(tags), ctx))
        cache = {}

        def lookup(t, tag):
            if tag not in cache:
                p = tp.parse(tag)
                cache[tag] = None if p is None else tp.describe(geo, p)
            return tp.int_lookup(calc, geo, t, cache[tag])

        check_tagsets(mon, 'C15:Int:', tags, tagdict, tagdicttype, lookup,
                      lambda t, k: len(calc.sitelist[k]) if t == 'states' else len(calc.jumpnetwork[k]), ctx)
    mon.count('int_transition_classes', len(jn))
    mon.sig(['int', spec['kind'], [len(l) for l in crys.basis], len(sitelist), len(jn)])
    return {'calculator': 'Interstitial', 'kind': spec['kind'], 'lattice': crys.lattice, 'basis': crys.basis, 'chem': chem, 'cutoff': cut}


def run_case(case):
    mon = Mon()
    rng = gen.rng_for(case['seed'], case['idx'], 15)
    sample = None
    if case['kind'] == 'vm':
        crys, chem, cut = gen.named(case['name'])
        sample = run_vm(mon, rng, crys, chem, cut, case['Nthermo'], case['name'], nrounds=6)
    elif case['kind'] == 'vmrand':
        for attempt in range(4):
            crys, spec = gen.rand_crystal(rng, dim=2 if rng.uniform() < 0.7 else 3, nchem=int(rng.integers(1, 3)), maxatoms=3)
            chem = int(rng.integers(crys.Nchem))
            cut = gen.safe_cutoff(crys, chem, rng, lo=0.6, hi=1.2, maxshell=2)
            jn = crys.jumpnetwork(chem, cut)
            if 0 < sum(len(j) for j in jn) <= 14: break
        else:
            mon.count('vmrand_no_small_network')
            return mon.result(sample=case)
        label = 'random %s lattice %s basis %s' % (spec['kind'], crys.lattice.tolist(), [[u.tolist() for u in l] for l in crys.basis])
        sample = run_vm(mon, rng, crys, chem, cut, 1, label, nrounds=4)
    else:
        for rep in range(3):
            s = run_int(mon, rng)
            sample = sample or s
    mon.obs['tagtypes_seen'] = len(mon.obs.get('tagtype_list', []))
    return mon.result(sample=sample if sample is not None else case)
