"""C19: cell reduction recovers the same crystal from any supercell description.

Workload: a random crystal P whose primitivity is established independently (no pure translation
maps the decorated lattice onto itself, vmon.ref.geom.is_primitive), re-described in a random
integer supercell (|det| 2..6) with random atom order and noise below the threshold; the real
constructor (reduce + minlattice) must give back volume/atom, atoms per species, a right-handed
lattice and the group order of P.  The group contract of C18 stays attached.
"""
import itertools
import numpy as np
from vmon import gen, contracts
from vmon.util import Mon
from vmon.ref import geom

ID = 'C19'
RULE = ('random primitive crystal (all lattice systems, 1-3 orbits, 1-2 species) x random integer supercell matrix with '
        '|det| in 2..6 x random atom order x noise 1e-10; non-trivial = every case (the supercell always has >=2 primitive '
        'cells); distinct = (kind, atoms per species, supercell matrix)')
ASSUMPTIONS = ['primitivity of P and the reference group order come from an independent brute-force search (tolerance 1e-6)',
               'noise amplitude 1e-10 per coordinate (threshold is 1e-8)']
REQUIRED_OBS = {'supercells_built': 20, 'eval:C19:volume-per-atom': 20, 'eval:C19:group-order': 20}
PER_CASE = 5


def cases(tier, seed):
    n = 48 if tier == 'quick' else 600
    return [{'seed': seed, 'idx': i, 'hashseed': i % 7} for i in range(n)]


def supercell_atoms(P_latt, P_basis, S, rng, noise=1e-10):
    dim = P_latt.shape[0]
    invS = np.linalg.inv(S)
    det = abs(int(round(np.linalg.det(S))))
    trans = []
    for nv in itertools.product(range(-7, 8), repeat=dim):
        tv = invS @ np.array(nv)
        tv = tv - np.floor(tv + 1e-9)
        if not any(np.allclose(geom.wrap_half(tv - u), 0, atol=1e-7) for u in trans):
            trans.append(tv)
        if len(trans) == det: break
    assert len(trans) == det
    newbasis = []
    for atomlist in P_basis:
        lis = [invS @ u + tv + noise * rng.normal(size=dim) for u in atomlist for tv in trans]
        lis = [u - np.floor(u) for u in lis]
        perm = rng.permutation(len(lis))
        newbasis.append([lis[k] for k in perm])
    return P_latt @ S, newbasis


def run_case(case):
    from onsager import crystal
    mon = Mon()
    contracts.install_crystal_contract()
    rng = gen.rng_for(case['seed'], case['idx'], 19)
    sample = None
    for k in range(PER_CASE):
        spec = gen.rand_crystal_spec(rng, nchem=int(rng.integers(1, 3)), maxatoms=5)
        P = gen.make_crystal(spec)
        if not geom.is_primitive(P.lattice, P.basis):
            mon.count('generator_nonprimitive_P')
            continue
        if P.N > 5: continue
        refG = geom.full_group(P.lattice, P.basis)
        dim = P.dim
        while True:
            S = rng.integers(-2, 3, size=(dim, dim))
            det = int(round(np.linalg.det(S)))
            if 2 <= abs(det) <= 6: break
        latt, newbasis = supercell_atoms(P.lattice, P.basis, S, rng)
        mon.count('supercells_built')
        mon.seen('dets', abs(det))
        desc = {'kind': spec['kind'], 'P_lattice': P.lattice, 'P_basis': P.basis, 'S': S, 'hashseed': case.get('hashseed')}
        if sample is None: sample = desc
        mon.sig([spec['kind'], [len(l) for l in P.basis], S.tolist()])
        with contracts.active(mon):
            try:
                Q = crystal.Crystal(latt, newbasis)
            except Exception as e:
                mon.check(False, 'C19:construct', '%s: %s | %s' % (type(e).__name__, e, desc))
                continue
        mon.check(True, 'C19:construct')
        mon.close(Q.volume / Q.N, P.volume / P.N, 1e-7, 'C19:volume-per-atom', desc, scale=P.volume / P.N)
        mon.check([len(a) for a in Q.basis] == [len(a) for a in P.basis], 'C19:atoms-per-species',
                  '%s vs %s %s' % ([len(a) for a in Q.basis], [len(a) for a in P.basis], desc))
        mon.check(np.linalg.det(Q.lattice) > 0, 'C19:right-handed', desc)
        mon.check(len(Q.G) == len(refG) and len(Q.G) == len(P.G), 'C19:group-order',
                  '|G(Q)|=%d |G(P)|=%d independent=%d Qlatt=%s %s' % (len(Q.G), len(P.G), len(refG), Q.lattice.tolist(), desc))
        # the reduced lattice is a lattice of the same crystal: P's lattice vectors are integer combinations
        comb = np.linalg.solve(Q.lattice, P.lattice)
        mon.check(np.allclose(comb, np.round(comb), atol=1e-6) and abs(abs(np.linalg.det(comb)) - 1) < 1e-6,
                  'C19:same-lattice', 'Qlatt^-1 Platt = %s' % comb.tolist())
    return mon.result(sample=sample)
