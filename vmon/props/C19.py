"""C19: cell reduction recovers the same crystal from any supercell description.

Workload: a random crystal P whose primitivity is established independently (no pure translation
maps the decorated lattice onto itself, vmon.ref.geom.is_primitive), re-described in a random
integer supercell (|det| 2..6) with random atom order and noise below the threshold; the real
constructor (reduce + minlattice) must give back volume/atom, atoms per species, a right-handed
lattice and the group order of P.  The group contract of C18 stays attached.
"""
import itertools
import numpy as np
from vmon import gen, contracts
from vmon.util import Mon
from vmon.ref import geom

ID = 'C19'
RULE = ('random primitive crystal (all lattice systems, 1-3 orbits, 1-2 species) x random integer supercell matrix with '
        '|det| in 2..6 x random atom order; one in five P is a two-species cell in which one species alone has a rational sublattice translation (handed over as is or in a |det| 2..3 supercell) x noise 1e-10 (default threshold) or 3e-8 with threshold=1e-6 (40 %); non-trivial = every case (the supercell always has >=2 primitive '
        'cells); distinct = (kind, atoms per species, supercell matrix)')
ASSUMPTIONS = ['primitivity of P and the reference group order come from an independent brute-force search (tolerance 1e-6)',
               'noise amplitude 1e-10 per coordinate (threshold 1e-8) or 3e-8 (threshold 1e-6; with 1e-7 the symmetry search itself loses operations to its matching tolerance: 22 of 24 found); atoms of the description must lie within 60 x noise (direct-coordinate noise times the supercell size, plus the noise of the reference atom) of atoms of the reduced crystal, up to one common translation']
REQUIRED_OBS = {'supercells_built': 20, 'pseudo_translation_cells': 10, 'noisy_supercells': 20, 'eval:C19:atoms-preserved': 20, 'eval:C19:volume-per-atom': 20, 'eval:C19:group-order': 20}
PER_CASE = 5


def cases(tier, seed):
    n = 48 if tier == 'quick' else 600
    return [{'seed': seed, 'idx': i, 'hashseed': i % 7} for i in range(n)]


def supercell_atoms(P_latt, P_basis, S, rng, noise=1e-10):
    dim = P_latt.shape[0]
    invS = np.linalg.inv(S)
    det = abs(int(round(np.linalg.det(S))))
    trans = []
    for nv in itertools.product(range(-7, 8), repeat=dim):
        tv = invS @ np.array(nv)
        tv = tv - np.floor(tv + 1e-9)
        if not any(np.allclose(geom.wrap_half(tv - u), 0, atol=1e-7) for u in trans):
            trans.append(tv)
        if len(trans) == det: break
    assert len(trans) == det
    newbasis = []
    for atomlist in P_basis:
        lis = [invS @ u + tv + noise * rng.normal(size=dim) for u in atomlist for tv in trans]
        lis = [u - np.floor(u) for u in lis]
        perm = rng.permutation(len(lis))
        newbasis.append([lis[k] for k in perm])
    return P_latt @ S, newbasis


def pseudo_spec(rng):
    """Primitive two-species cell in which ONE species alone has a rational translation (u, u+t[, u+2t] with t = e_k/m) that the other
    species (m+1..m+2 generic sites) does not share: the candidate translations of the reducer must be vetoed by every species."""
    for attempt in range(300):
        dim = 3 if rng.uniform() < 0.6 else 2
        kinds = gen.LATT3 if dim == 3 else gen.LATT2
        kind = kinds[int(rng.integers(len(kinds)))]
        latt = gen.lattice(kind, rng)
        if abs(np.linalg.det(latt)) < 0.2: continue
        m = 2 if rng.uniform() < 0.7 else 3
        t = np.zeros(dim)
        t[int(rng.integers(dim))] = 1. / m
        if rng.uniform() < 0.3: t[int(rng.integers(dim))] = 1. / m
        u = rng.uniform(size=dim)
        B = [(u + j * t) % 1. for j in range(m)]
        A = [rng.uniform(size=dim) for _ in range(m + int(rng.integers(1, 3)))]
        if gen.mindist(latt, A + B) < 0.15: continue
        basis = [A, B] if rng.uniform() < 0.7 else [B, A]
        if not geom.is_primitive(latt, basis): continue
        return {'latt': latt, 'basis': basis, 'kind': 'pseudo-' + kind, 'dim': dim}
    raise RuntimeError('no pseudo-translation crystal generated')


def run_case(case):
    from onsager import crystal
    mon = Mon()
    contracts.install_crystal_contract()
    rng = gen.rng_for(case['seed'], case['idx'], 19)
    sample = None
    for k in range(PER_CASE):
        pseudo = (k == PER_CASE - 1)
        if pseudo:
            # sublattice pseudo-translation: the reference P is built WITHOUT the reducer (its primitivity is established independently)
            spec = pseudo_spec(rng)
            P = gen.make_crystal(spec, noreduce=True)
            mon.count('pseudo_translation_cells')
        else:
            spec = gen.rand_crystal_spec(rng, nchem=int(rng.integers(1, 3)), maxatoms=5)
            P = gen.make_crystal(spec)
        if not geom.is_primitive(P.lattice, P.basis):
            mon.count('generator_nonprimitive_P')
            continue
        if P.N > 5 and not pseudo: continue
        refG = geom.full_group(P.lattice, P.basis)
        dim = P.dim
        while True:
            S = rng.integers(-2, 3, size=(dim, dim))
            det = int(round(np.linalg.det(S)))
            if pseudo and rng.uniform() < 0.4:
                S, det = np.eye(dim, dtype=int), 1      # the primitive cell itself is handed to the reducing constructor
                break
            if 2 <= abs(det) <= (3 if pseudo else 6): break
        # positions either exact to round-off (noise 1e-10, default threshold 1e-8) or with relaxation-like noise 1e-7 and a user
        # threshold of 1e-6 (copies of one atom then sit on both sides of a reduced-cell face)
        noisy = rng.uniform() < 0.4
        noise = 3e-8 if noisy else 1e-10   # 1e-7 is too close to the threshold: group operations are then lost to the matching tolerance
        kwc = {'threshold': 1e-6} if noisy else {}
        latt, newbasis = supercell_atoms(P.lattice, P.basis, S, rng, noise=noise)
        mon.count('noisy_supercells', noisy)
        mon.count('supercells_built')
        mon.seen('dets', abs(det))
        desc = {'kind': spec['kind'], 'P_lattice': P.lattice, 'P_basis': P.basis, 'S': S, 'hashseed': case.get('hashseed')}
        if sample is None: sample = desc
        mon.sig([spec['kind'], [len(l) for l in P.basis], S.tolist()])
        with contracts.active(mon):
            try:
                Q = crystal.Crystal(latt, newbasis, **kwc)
            except Exception as e:
                mon.check(False, 'C19:construct', '%s: %s | %s' % (type(e).__name__, e, desc))
                continue
        mon.check(True, 'C19:construct')
        mon.close(Q.volume / Q.N, P.volume / P.N, 1e-7, 'C19:volume-per-atom', desc, scale=P.volume / P.N)
        mon.check([len(a) for a in Q.basis] == [len(a) for a in P.basis], 'C19:atoms-per-species',
                  '%s vs %s %s' % ([len(a) for a in Q.basis], [len(a) for a in P.basis], desc))
        mon.check(np.linalg.det(Q.lattice) > 0, 'C19:right-handed', desc)
        mon.check(len(Q.G) == len(refG) and len(Q.G) == len(P.G), 'C19:group-order',
                  '|G(Q)|=%d |G(P)|=%d independent=%d Qlatt=%s %s' % (len(Q.G), len(P.G), len(refG), Q.lattice.tolist(), desc))
        # every atom of the description lies on an atom of the same species of the reduced crystal, up to ONE common translation
        # (the constructor re-centres the cell)
        Qinv = np.linalg.inv(Q.lattice)
        if [len(a) for a in Q.basis] == [len(a) for a in P.basis]:
            uq = [[Qinv @ (latt @ u) for u in lst] for lst in newbasis]
            best = (np.inf, None)
            for v0 in Q.basis[0]:
                t = v0 - uq[0][0]
                worst, lost = 0., None
                for c, lst in enumerate(uq):
                    for u in lst:
                        d = min(np.linalg.norm(Q.lattice @ geom.wrap_half(u + t - v)) for v in Q.basis[c])
                        if d > worst: worst, lost = d, (c, u.tolist())
                    if worst > best[0]: break
                if worst < best[0]: best = (worst, lost)
            worst, lost = best
            mon.note_max('atom_displacement_noisy' if noisy else 'atom_displacement_exact', worst)
            mon.check(worst <= 60 * noise + 1e-9, 'C19:atoms-preserved',
                      lambda: 'no common translation maps the description onto the reduced crystal: atom %s stays %.3e away (noise %.0e) %s' % (lost, worst, noise, desc))
        # the reduced lattice is a lattice of the same crystal: P's lattice vectors are integer combinations
        comb = np.linalg.solve(Q.lattice, P.lattice)
        mon.check(np.allclose(comb, np.round(comb), atol=1e-6) and abs(abs(np.linalg.det(comb)) - 1) < 1e-6,
                  'C19:same-lattice', 'Qlatt^-1 Platt = %s' % comb.tolist())
    return mon.result(sample=sample)
