"""C13: saved and reloaded calculators reproduce results exactly.

Monitor: real `addhdf5` -> `loadhdf5` through h5py (in-memory core driver) of OnsagerCalc.VacancyMediated
(cache empty / cache populated by earlier Lij calls), GFcalc.GFCrystalcalc, crystalStars.StarSet,
VectorStarSet, PowerExpansion.Taylor3D/2D, and `yaml.load(yaml.dump(x))` of Crystal, GroupOp, PairState,
ClusterSite, Cluster (plain / transition / vacancy), vacancyThermoKinetics.  Oracles: an exact, independent
structural comparison of every attribute the two objects have in common (vmon.ref.structcmp: floats bit
for bit, sets as sets), presence of every attribute the class declares as stored, and BITWISE equality
(np.array_equal) of the results of the same calls on original and copy: Lij for inputs that hit the
reloaded cache, for new inputs (which extend it), after a second save/reload generation, tags, tags2preene,
makeLIMBpreene, maketracerpreene, interactlist/omegalist, makesupercells, GFcalc(i,j,dx), Diffusivity, star-set indexing and
omega-1/omega-2 networks, vector-star expansions, Taylor evaluations.
"""
import numpy as np
from vmon import gen
from vmon.util import Mon
from vmon.ref import structcmp

ID = 'C13'
RULE = ('one case = (named crystal: sc fcc bcc diamond hcp square tria honey lieb kagome omega rumpled dtria b2 l12 tet rect, '
        'and two crystals given in a non-primitive cell; i.e. 2-D and 3-D, multi-site, multi-Wyckoff, two species) x (cache empty | populated by 2 Lij calls before saving) x '
        'Nthermo 1 (2 on three cheap crystals; thorough: 2 on all cheap crystals) with fully random thermodynamic inputs; plus cases on random '
        'crystals (all lattice systems) for StarSet / VectorStarSet / GFCrystalcalc / Taylor / YAML round trips; '
        'non-trivial = every case (>= 1 round trip with >= 2 subsequent inputs); distinct = (crystal, Nthermo, history)')
ASSUMPTIONS = ['bitwise equality is demanded for every result (the copy holds the same numbers and runs the same code)',
               'Taylor expansions evaluated with an (n,l)->f(u) dictionary are summed in coefficient-list order; when the '
               'reloaded list is ordered differently that sum is compared to 1e-13 relative instead of bitwise (the '
               'order-independent term-by-term evaluation is always compared bitwise)',
               'attributes that the classes do not store (threshold, GFcalc state of the last SetRates, StarSet.originstates) '
               'are reported as observations, not violations; every attribute named in __HDF5list__ must be present']
REQUIRED_OBS = {'roundtrip:VacancyMediated': 8, 'roundtrip:VacancyMediated:populated': 4, 'roundtrip:VacancyMediated:empty': 4,
                'roundtrip:VacancyMediated:second-generation': 8, 'roundtrip:GFCrystalcalc': 6, 'roundtrip:StarSet': 6,
                'roundtrip:VectorStarSet': 6, 'roundtrip:Taylor': 6, 'eval:C13:VM:Lij-bitwise': 40, 'eval:C13:VM:struct': 8,
                'eval:C13:VM:cache-hit': 4, 'eval:C13:VM:tags2preene': 8, 'eval:C13:VM:makesupercells': 8, 'eval:C13:GF:value-bitwise': 60,
                'eval:C13:yaml:Crystal': 6, 'eval:C13:yaml:GroupOp': 40, 'eval:C13:yaml:PairState': 20,
                'eval:C13:yaml:ClusterSite': 10, 'eval:C13:yaml:Cluster': 20, 'eval:C13:yaml:vTK': 6,
                'dim2_roundtrips': 3, 'multisite_roundtrips': 3, 'multiwyckoff_roundtrips': 2, 'yaml_cluster_kinds': 3}
CASE_TIMEOUT = 600
CHUNK = 3
CHEAP = ('square', 'tria', 'honey', 'lieb', 'kagome', 'rect', 'dtria', 'sc', 'tet')
SKIP = {('VacancyMediated', 'threshold'), ('StarSet', 'originstates')}


def cases(tier, seed):
    out = []
    names = list(gen.NAMED)
    for k, name in enumerate(names):
        for pop in (0, 1):
            out.append({'seed': seed, 'idx': len(out), 'hashseed': (k + pop + seed) % 5, 'kind': 'vm', 'name': name, 'Nthermo': 1, 'populate': pop})
    # crystals handed over in a non-primitive cell (the constructor reduces them and rescales its threshold)
    for k, name in enumerate(('bcc-conventional', 'square-centred')):
        out.append({'seed': seed, 'idx': len(out), 'hashseed': (k + seed) % 5, 'kind': 'vm', 'name': name, 'Nthermo': 1, 'populate': k})
    for k, name in enumerate(('honey', 'lieb', 'tet')):
        out.append({'seed': seed, 'idx': len(out), 'hashseed': (k + 1 + seed) % 5, 'kind': 'vm', 'name': name, 'Nthermo': 2, 'populate': (k + seed) % 2})
    nrand = 10 if tier == 'quick' else 150
    for i in range(nrand):
        out.append({'seed': seed, 'idx': len(out), 'hashseed': i % 5, 'kind': 'rand'})
    if tier != 'quick':
        for rep in range(3):
            for k, name in enumerate(names):
                for pop in (0, 1):
                    out.append({'seed': seed, 'idx': len(out), 'hashseed': (k + rep) % 7, 'kind': 'vm', 'name': name,
                                'Nthermo': 2 if (name in CHEAP and rep == 0) else 1, 'populate': pop})
    return out


def h5file():
    import h5py
    return h5py.File('/dev/null', 'w', driver='core', backing_store=False)


def bits(a, b):
    """bitwise equality of two results (arrays, tuples of arrays, dicts of arrays, strings ...)"""
    d, _ = structcmp.diff(a, b, 'result')
    return d


def report(mon, clause, diffs, ctx, tags=()):
    mon.check(not diffs, clause, lambda: '%s | %s' % ('; '.join('%s: %s' % d for d in diffs[:4]), ctx), tags=tags)
    return not diffs


def rand_inputs(rng, d, scale=0.7):
    n = len(d.sitelist)
    bFV = rng.normal(size=n) * scale
    bFV -= bFV.min()
    bFS = rng.normal(size=n) * scale
    bFS -= bFS.min()
    return (bFV, bFS, rng.normal(size=d.thermo.Nstars) * scale, rng.normal(size=len(d.om0_jn)) * scale + 2.,
            rng.normal(size=len(d.om1_jn)) * scale + 2., rng.normal(size=len(d.om2_jn)) * scale + 2.)


def rand_tagdict(rng, d):
    """a user tag dictionary: random member tag of a random subset of classes"""
    out = {}
    for typ, lists in d.tags.items():
        for cl in lists:
            if rng.uniform() < 0.6 and len(cl):
                out[cl[int(rng.integers(len(cl)))]] = (float(rng.uniform(0.5, 2.)), float(rng.normal()))
    return out


# ------------------------------------------------------------------------------------------
def check_vm(mon, rng, d, ctx, populate, generations=2):
    """round trip(s) of a VacancyMediated calculator d (already built)"""
    from onsager import OnsagerCalc
    VM = OnsagerCalc.VacancyMediated
    pool = [rand_inputs(rng, d) for _ in range(5)]
    pool.append(tuple(np.zeros_like(x) if k < 3 else np.ones_like(x) for k, x in enumerate(pool[0])))  # tracer-like, uniform
    if populate:
        with mon.guard('C13:VM:Lij-before-save'):
            d.Lij(*pool[0])
            d.Lij(*pool[1])
    ncache0 = len(d.GFvalues)
    mon.count('roundtrip:VacancyMediated')
    mon.count('roundtrip:VacancyMediated:populated' if populate else 'roundtrip:VacancyMediated:empty')
    f = h5file()
    cur = d
    gen_no = 0
    try:
        for gen_no in range(generations):
            grp = f.create_group('D%d' % gen_no)
            try:
                cur.addhdf5(grp)
                d2 = VM.loadhdf5(grp)
            except Exception as e:
                mon.check(False, 'C13:VM:roundtrip-raises', '%s: %s (generation %d) %s' % (type(e).__name__, e, gen_no, ctx))
                return
            if gen_no: mon.count('roundtrip:VacancyMediated:second-generation')
            g = 'gen%d ' % gen_no
            # 1. structure: everything stored is identical
            skip = set(SKIP) | {('GFCrystalcalc', 'D'), ('GFCrystalcalc', 'eta')}
            diffs, missing = structcmp.diff(d, d2, 'VM', skip=skip)
            report(mon, 'C13:VM:struct', diffs, g + ctx)
            lost = [p for p, side in missing if side == 'right']
            for k in ('threshold',):
                if hasattr(d, k) and not hasattr(d2, k): mon.seen('attributes_not_on_copy', k)
            for p in lost: mon.seen('attributes_not_on_copy', 'GFcalc.<state of last SetRates>' if p.startswith('VM.GFcalc.') else p.split('.', 1)[1])
            stored = [k for k in VM.__HDF5list__ if not hasattr(d2, k)] + \
                     [k for k in ('crys', 'sitelist', 'jumpnetwork', 'om0_jn', 'om1_jn', 'om2_jn', 'GFcalc', 'thermo', 'kinetic', 'NNstar',
                                  'vkinetic', 'GFstarset', 'kin2vstar', 'GFvalues', 'Lvvvalues', 'etavvalues', 'tags', 'tagdict',
                                  'tagdicttype', 'dim') if not hasattr(d2, k)]
            mon.check(not stored, 'C13:VM:stored-attrs', lambda: 'missing on the copy: %s %s' % (stored, ctx))
            mon.check(len(d2.GFvalues) == len(d.GFvalues) == len(d2.Lvvvalues) == len(d2.etavvalues), 'C13:VM:cache-size',
                      lambda: 'cache entries %d (orig) %d/%d/%d (copy) %s' % (len(d.GFvalues), len(d2.GFvalues), len(d2.Lvvvalues), len(d2.etavvalues), ctx))
            # 2. tags and tag -> parameter maps
            report(mon, 'C13:VM:tags', bits((d.tags, d.tagdict, d.tagdicttype), (d2.tags, d2.tagdict, d2.tagdicttype)), g + ctx)
            for rep in range(2):
                td = rand_tagdict(rng, d)
                if rep: td['v:bogus'] = (1., 0.)
                with mon.guard('C13:VM:tags2preene'):
                    r1, r2 = d.tags2preene(td, VERBOSE=True), d2.tags2preene(td, VERBOSE=True)
                    report(mon, 'C13:VM:tags2preene', bits(r1, r2), g + ctx)
                    kT = float(rng.uniform(0.3, 2.))
                    report(mon, 'C13:VM:preene2betafree', bits(d.preene2betafree(kT, **r1[0]), d2.preene2betafree(kT, **r2[0])), g + ctx)
            with mon.guard('C13:VM:helpers'):
                n0 = len(d.om0_jn)
                pT, eT = rng.uniform(0.5, 2., size=n0), rng.normal(size=n0)
                report(mon, 'C13:VM:maketracerpreene', bits(d.maketracerpreene(pT, eT), d2.maketracerpreene(pT, eT)), g + ctx)
                n, ns = len(d.sitelist), d.thermo.Nstars
                kw = dict(preS=rng.uniform(.5, 2, size=n), eneS=rng.normal(size=n), preSV=rng.uniform(.5, 2, size=ns), eneSV=rng.normal(size=ns),
                          preT0=pT, eneT0=eT)
                report(mon, 'C13:VM:makeLIMBpreene', bits(d.makeLIMBpreene(**kw), d2.makeLIMBpreene(**kw)), g + ctx)
                report(mon, 'C13:VM:interactlist', bits(d.interactlist(), d2.interactlist()), g + ctx)
                report(mon, 'C13:VM:omegalist', bits((d.omegalist(1), d.omegalist(2)), (d2.omegalist(1), d2.omegalist(2))), g + ctx)
            if gen_no == 0:
                check_supercells(mon, d, d2, g + ctx)
            # 3. results: cache hits, new inputs, repeated inputs, different large_om2
            order = [0, 1, 2, 5, 0, 3, 2] if gen_no == 0 else [1, 4, 3, 0, 5]
            for step, k in enumerate(order):
                a = pool[k]
                hit_expected = any(structcmp.freeze(tuple(key)) == structcmp.freeze((np.ones_like(a[0]), a[0], np.ones_like(a[3]), a[3]))
                                   for key in d2.GFvalues)
                n2 = len(d2.GFvalues)
                kw = {'large_om2': 1e8} if step % 3 else {}
                try:
                    L1 = d.Lij(*[x.copy() for x in a], **kw)
                    L2 = d2.Lij(*[x.copy() for x in a], **kw)
                except Exception as e:
                    mon.check(False, 'C13:VM:Lij-raises', '%s: %s input %d %s' % (type(e).__name__, e, k, g + ctx))
                    continue
                ok = report(mon, 'C13:VM:Lij-bitwise', bits(L1, L2), '%sstep %d input %d (%s) %s' % (g, step, k, 'cache hit' if hit_expected else 'new input', ctx))
                mon.count('lij_cache_hits' if hit_expected else 'lij_new_inputs')
                if hit_expected:
                    mon.check(len(d2.GFvalues) == n2, 'C13:VM:cache-hit',
                              lambda: 'an input stored in the reloaded cache was recomputed (%d -> %d entries) %s' % (n2, len(d2.GFvalues), g + ctx))
                else:
                    mon.check(len(d2.GFvalues) == n2 + 1, 'C13:VM:cache-extends',
                              lambda: 'cache of the copy went %d -> %d entries for a new input %s' % (n2, len(d2.GFvalues), g + ctx))
                if ok:
                    mon.note_max('abs_Lss', float(np.max(np.abs(L1[1]))))
            # 4. after the same history both hold the same state (incl. caches, GFcalc state of the last SetRates)
            diffs, missing = structcmp.diff(d, d2, 'VM', skip=SKIP)
            report(mon, 'C13:VM:struct-after-calls', diffs, g + ctx)
            cur = d2  # next generation: save the copy (its cache now has reloaded + new entries)
    finally:
        f.close()


def check_supercells(mon, d, d2, ctx):
    """makesupercells on original and copy: same tags, same index map, same defect supercells (the group operations
    recorded for transitions may be any of several equivalent ones and are not compared)"""
    import warnings
    dim = d.crys.dim
    n = (4 if dim == 2 else 3) if d.N <= 2 else (3 if dim == 2 else 2)
    S = n * np.eye(dim, dtype=int)
    res = []
    for calc, who in ((d, 'original'), (d2, 'copy')):
        try:
            with warnings.catch_warnings():
                warnings.simplefilter('ignore')
                res.append(calc.makesupercells(S))
        except Exception as e:
            res.append(e)
    r1, r2 = res
    if isinstance(r1, Exception):
        mon.count('makesupercells_refused_by_original')
        mon.check(isinstance(r2, Exception) and type(r1) == type(r2), 'C13:VM:makesupercells', 'original raises %r, copy gives %r %s' % (r1, type(r2), ctx))
        return
    if isinstance(r2, Exception):
        mon.check(False, 'C13:VM:makesupercells', 'works on the original (%d states, %d transitions), the copy raises %s: %s %s' % (
            len(r1['states']), len(r1['transitions']), type(r2).__name__, r2, ctx),
                  tags=['reloaded-calculator-lacks-attribute'] if isinstance(r2, AttributeError) else [])
        return

    def digest(r):
        return {'indices': r['indices'], 'state tags': sorted(r['states']), 'transition tags': sorted(r['transitions']),
                'mapping tags': sorted(r['transmapping']), 'reference': r['reference'].POSCAR('ref'),
                'states': {k: v.POSCAR(k) for k, v in r['states'].items()}}
    with mon.guard('C13:VM:makesupercells'):
        report(mon, 'C13:VM:makesupercells', bits(digest(r1), digest(r2)), ctx)


def check_gf(mon, rng, crys, chem, sitelist, jn, ctx, GF=None, Nmax=2):
    from onsager import GFcalc
    with mon.guard('C13:GF:build'):
        if GF is None:
            GF = GFcalc.GFCrystalcalc(crys, chem, sitelist, jn, Nmax)
        f = h5file()
        try:
            GF.addhdf5(f.create_group('GF'))
            GF2 = GFcalc.GFCrystalcalc.loadhdf5(crys, f['GF'])
        except Exception as e:
            mon.check(False, 'C13:GF:roundtrip-raises', '%s: %s %s' % (type(e).__name__, e, ctx))
            f.close()
            return
        f.close()
    mon.count('roundtrip:GFCrystalcalc')
    diffs, missing = structcmp.diff(GF, GF2, 'GF', skip={('GFCrystalcalc', 'D'), ('GFCrystalcalc', 'eta')})
    report(mon, 'C13:GF:struct', diffs, ctx)
    stored = [k for k in GF.__HDF5list__ + ('Taylorjumps', 'jumppairs', 'sitelist', 'crys', 'chem') if not hasattr(GF2, k)]
    mon.check(not stored, 'C13:GF:stored-attrs', lambda: 'missing on the copy: %s %s' % (stored, ctx))
    n, nj = len(sitelist), len(jn)
    N = sum(len(w) for w in sitelist)
    jumps = [(ij, dx) for jl in jn for ij, dx in jl]
    for rep in range(2):
        pre, be = rng.uniform(0.5, 2., size=n), rng.normal(size=n) * 0.5
        preT, beT = rng.uniform(0.5, 2., size=nj), rng.normal(size=nj) * 0.5 + 1.5 + max(be.max(), 0)
        e1 = e2 = None
        try:
            GF.SetRates(pre, be, preT, beT)
        except Exception as e:
            e1 = e
        try:
            GF2.SetRates(pre, be, preT, beT)
        except Exception as e:
            e2 = e
        if e1 is not None or e2 is not None:
            # a network the Green function is not defined for (e.g. no transport in one direction): both must refuse alike
            mon.check(type(e1) == type(e2) and str(e1) == str(e2), 'C13:GF:SetRates-same-outcome', 'original: %r, copy: %r %s' % (e1, e2, ctx))
            mon.count('gf_setrates_refused_by_both')
            return
        report(mon, 'C13:GF:diffusivity', bits((GF.Diffusivity(), GF.biascorrection()), (GF2.Diffusivity(), GF2.biascorrection())), ctx)
        pts = [(i, i, np.zeros(crys.dim)) for i in range(N)]
        for _ in range(6):
            (i, j), dx = jumps[int(rng.integers(len(jumps)))]
            pts.append((i, j, dx.copy()))
            (j2, k2), dx2 = jumps[int(rng.integers(len(jumps)))]
            for (a, b), dy in jumps:
                if a == j:
                    pts.append((i, b, dx + dy))
                    break
        for i, j, dx in pts:
            r = []
            for calc in (GF, GF2):
                try:
                    r.append(calc(i, j, dx))
                except Exception as e:
                    r.append(e)
            v1, v2 = r
            if isinstance(v1, Exception) or isinstance(v2, Exception):
                # a network without transport in some direction makes the original itself refuse: the copy must do the same
                mon.check(type(v1) == type(v2) and str(v1) == str(v2), 'C13:GF:call-same-outcome', 'G(%d,%d,%s): original %r, copy %r %s' % (i, j, dx.tolist(), v1, v2, ctx))
                mon.count('gf_call_refused_by_both')
                break
            mon.check(np.array_equal(v1, v2), 'C13:GF:value-bitwise', lambda: 'G(%d,%d,%s) = %r vs %r %s' % (i, j, dx.tolist(), v1, v2, ctx))
    diffs, missing = structcmp.diff(GF, GF2, 'GF')
    report(mon, 'C13:GF:struct-after-calls', diffs, ctx)


def check_stars(mon, rng, crys, chem, jn, ctx, Nshells=2, originstates=False):
    from onsager import crystalStars as stars
    with mon.guard('C13:StarSet:build'):
        S = stars.StarSet(jn, crys, chem, Nshells, originstates=originstates)
        f = h5file()
        try:
            S.addhdf5(f.create_group('S'))
            S2 = stars.StarSet.loadhdf5(crys, f['S'])
        except Exception as e:
            mon.check(False, 'C13:StarSet:roundtrip-raises', '%s: %s %s' % (type(e).__name__, e, ctx))
            f.close()
            return
        mon.count('roundtrip:StarSet')
        diffs, missing = structcmp.diff(S, S2, 'StarSet', skip=SKIP)
        report(mon, 'C13:StarSet:struct', diffs, ctx)
        need = [k for k in ('crys', 'chem', 'Nshells', 'jumplist', 'jumpnetwork_index', 'states', 'Nstates', 'stars', 'Nstars', 'index', 'indexdict')
                if not hasattr(S2, k)]
        mon.check(not need, 'C13:StarSet:stored-attrs', lambda: 'missing on the copy: %s %s' % (need, ctx))
        # behaviour: indexing of members and non-members, omega networks
        probes = list(S.states) + [-s for s in S.states[:5]]
        if S.Nstates:
            s0 = S.states[-1]
            probes.append(stars.PairState(i=s0.i, j=s0.j, R=s0.R + 7, dx=s0.dx + crys.lattice @ (np.zeros(crys.dim) + 7)))
        r1 = [(S.stateindex(p), S.starindex(p), p in S) for p in probes]
        r2 = [(S2.stateindex(p), S2.starindex(p), p in S2) for p in probes]
        report(mon, 'C13:StarSet:indexing', bits(r1, r2), ctx)
        if S.Nshells >= 1 and S.Nstates:
            report(mon, 'C13:StarSet:omega1', bits(S.jumpnetwork_omega1(), S2.jumpnetwork_omega1()), ctx)
            report(mon, 'C13:StarSet:omega2', bits(S.jumpnetwork_omega2(), S2.jumpnetwork_omega2()), ctx)
        # a reloaded star set can be extended like the original
        if S.Nstates and Nshells <= 1:
            Sa, Sb = S.copy(), S2.copy()
            Sa.generate(Nshells + 1, originstates=originstates)
            Sb.generate(Nshells + 1, originstates=originstates)
            report(mon, 'C13:StarSet:generate-after-load', bits((Sa.states, Sa.stars, Sa.index), (Sb.states, Sb.stars, Sb.index)), ctx)
        # vector stars
        if S.Nstates:
            V = stars.VectorStarSet(S)
            try:
                V.addhdf5(f.create_group('V'))
                V2 = stars.VectorStarSet.loadhdf5(S2, f['V'])
            except Exception as e:
                mon.check(False, 'C13:VectorStarSet:roundtrip-raises', '%s: %s %s' % (type(e).__name__, e, ctx))
                f.close()
                return
            mon.count('roundtrip:VectorStarSet')
            diffs, missing = structcmp.diff(V, V2, 'VectorStarSet', skip=SKIP)
            report(mon, 'C13:VectorStarSet:struct', diffs, ctx)
            need = [k for k in ('starset', 'Nvstars', 'vecpos', 'vecvec', 'outer') if not hasattr(V2, k)]
            mon.check(not need, 'C13:VectorStarSet:stored-attrs', lambda: 'missing on the copy: %s %s' % (need, ctx))
            if V.Nvstars and S.Nshells >= 1:
                om1 = S.jumpnetwork_omega1()
                if om1 and om1[0]:
                    report(mon, 'C13:VectorStarSet:expansions',
                           bits((V.bareexpansions(om1[0], om1[1]), V.rateexpansions(om1[0], om1[1]), V.biasexpansions(om1[0], om1[1])),
                                (V2.bareexpansions(om1[0], om1[1]), V2.rateexpansions(om1[0], om1[1]), V2.biasexpansions(om1[0], om1[1]))), ctx)
                if S.Nstates <= 60:
                    e1, g1 = V.GFexpansion()
                    e2, g2 = V2.GFexpansion()
                    report(mon, 'C13:VectorStarSet:GFexpansion', bits((e1, g1.states, g1.stars), (e2, g2.states, g2.stars)), ctx)
        f.close()


def check_taylor(mon, rng, dim, ctx):
    from onsager import PowerExpansion as PE
    T = PE.Taylor3D if dim == 3 else PE.Taylor2D
    T()
    shape = [(), (2, 2), (3,), (1, 2)][int(rng.integers(4))]
    nl = set()
    while len(nl) < int(rng.integers(1, 7)):
        n, l = int(rng.integers(-2, 12)), int(rng.integers(0, T.Lmax + 1))
        nl.add((n, l))
    nl = [p for p in nl]
    order = rng.permutation(len(nl))
    cplx = rng.uniform() < 0.6
    coeffs = []
    for k in order:
        n, l = nl[k]
        c = rng.normal(size=(T.powlrange[l],) + shape)
        if cplx: c = c + 1j * rng.normal(size=c.shape)
        coeffs.append((n, l, c))
    t = T(coeffs)
    f = h5file()
    try:
        t.addhdf5(f.create_group('T'))
        t2 = T.loadhdf5(f['T'])
    except Exception as e:
        mon.check(False, 'C13:Taylor:roundtrip-raises', '%s: %s nl=%s %s' % (type(e).__name__, e, nl, ctx))
        f.close()
        return
    f.close()
    mon.count('roundtrip:Taylor')
    mon.count('roundtrip:Taylor%dD' % dim)
    c1 = {(n, l): c for n, l, c in t.coefflist}
    c2 = {(int(n), int(l)): c for n, l, c in t2.coefflist}
    mon.check(len(t2.coefflist) == len(t.coefflist), 'C13:Taylor:terms', lambda: '%d vs %d terms %s' % (len(t.coefflist), len(t2.coefflist), ctx))
    report(mon, 'C13:Taylor:coefficients', bits(c1, c2), 'nl=%s %s' % (nl, ctx))
    same_order = [(n, l) for n, l, c in t.coefflist] == [(int(n), int(l)) for n, l, c in t2.coefflist]
    mon.count('taylor_order_preserved' if same_order else 'taylor_order_changed')
    for _ in range(3):
      with mon.guard('C13:Taylor:eval'):
        u = rng.normal(size=dim)
        report(mon, 'C13:Taylor:eval-terms', bits(t(u), {(int(n), int(l)): v for (n, l), v in t2(u).items()}), ctx)
        fnu = {p: (lambda x, p=p: np.exp(-x * x) * x ** p[0] if p[0] >= 0 else np.exp(-x * x) / (1 + x) ** (-p[0])) for p in c1}
        v1, v2 = t(u, fnu), t2(u, {p: fnu[(int(p[0]), int(p[1]))] for p in [(n, l) for n, l, c in t2.coefflist]})
        if same_order:
            mon.check(np.array_equal(v1, v2), 'C13:Taylor:eval-bitwise', lambda: '%r vs %r %s' % (v1, v2, ctx))
        else:
            mon.close(v1, v2, 1e-13, 'C13:Taylor:eval-reordered', ctx, scale=max(1e-300, float(np.max(np.abs(v1)))))


# ------------------------------------------------------------------------------------------
def yaml_rt(x):
    import yaml
    return yaml.load(yaml.dump(x), Loader=yaml.Loader)


def check_yaml(mon, rng, crys, chem, ctx, pairstates=(), vtks=()):
    from onsager import crystal, cluster
    from onsager import crystalStars as stars
    from onsager import OnsagerCalc
    dim = crys.dim

    def rt(x, clause, what):
        try:
            return yaml_rt(x)
        except Exception as e:
            mon.check(False, clause, 'yaml round trip raises %s: %s | %s %s' % (type(e).__name__, e, what, ctx))
            return None

    c2 = rt(crys, 'C13:yaml:Crystal', 'crystal')
    if c2 is not None:
        diffs, missing = structcmp.diff(crys, c2, 'Crystal')
        ok = isinstance(c2, crystal.Crystal)
        report(mon, 'C13:yaml:Crystal', diffs + ([] if ok else [('Crystal', 'type %s' % type(c2).__name__)]) +
               [(p, 'attribute missing on %s' % side) for p, side in missing], ctx)
        with mon.guard('C13:yaml:Crystal-behaviour'):
            mon.check(c2.G == crys.G and len(c2.G) == len(crys.G), 'C13:yaml:Crystal-group', 'group differs as a set ' + ctx)
            # (the order inside a jump network follows the iteration order of the group, a set: not compared)
            def jnset(c):
                return frozenset(frozenset((i, j) + tuple(np.round(dx, 8) + 0.) for (i, j), dx in jl) for jl in c.jumpnetwork(chem, 1.05 * _nn(crys, chem)))
            report(mon, 'C13:yaml:Crystal-behaviour', bits((crys.sitelist(chem), jnset(crys)), (c2.sitelist(chem), jnset(c2))), ctx)
    Gs = sorted(crys.G, key=lambda g: (g.rot.tolist(), np.round(g.trans, 6).tolist()))
    for g in [Gs[k] for k in rng.permutation(len(Gs))[:8]]:
        g2 = rt(g, 'C13:yaml:GroupOp', repr(g))
        if g2 is None: continue
        ok = isinstance(g2, crystal.GroupOp) and not bits(g, g2) and g2 == g and hash(g2) == hash(g) and not (g2 != g)
        mon.check(ok, 'C13:yaml:GroupOp', lambda: '%r -> %r %s' % (g, g2, ctx))
    N = len(crys.basis[chem])
    ps = list(pairstates)
    for _ in range(6):
        i, j, R = int(rng.integers(N)), int(rng.integers(N)), rng.integers(-3, 4, size=dim)
        ps.append(stars.PairState(i=i, j=j, R=R, dx=crys.lattice @ (R + crys.basis[chem][j] - crys.basis[chem][i])))
    ps.append(stars.PairState.zero(0, dim))
    for p in ps:
        p2 = rt(p, 'C13:yaml:PairState', repr(p))
        if p2 is None: continue
        ok = isinstance(p2, stars.PairState) and not bits(p, p2) and p2 == p and hash(p2) == hash(p)
        mon.check(ok, 'C13:yaml:PairState', lambda: '%r -> %r %s' % (p, p2, ctx))
    atoms = crys.atomindices
    sites = []
    for _ in range(6):
        ci = atoms[int(rng.integers(len(atoms)))]
        sites.append(cluster.ClusterSite(ci=ci, R=rng.integers(-2, 3, size=dim)))
    for s in sites:
        s2 = rt(s, 'C13:yaml:ClusterSite', repr(s))
        if s2 is None: continue
        ok = isinstance(s2, cluster.ClusterSite) and not bits(s, s2) and s2 == s and hash(s2) == hash(s)
        mon.check(ok, 'C13:yaml:ClusterSite', lambda: '%r -> %r %s' % (s, s2, ctx))
    kinds = set()
    for rep in range(6):
        n = int(rng.integers(1, 5))
        lis, seen = [], set()
        while len(lis) < n:
            ci = atoms[int(rng.integers(len(atoms)))]
            R = tuple(int(r) for r in rng.integers(-1, 2, size=dim))
            if (ci, R) in seen: continue
            seen.add((ci, R))
            lis.append(cluster.ClusterSite(ci=ci, R=np.array(R)))
        for tr, vac in ((False, False), (True, False), (False, True), (True, True)):
            if (tr and n < 2): continue
            cl = cluster.Cluster(lis, transition=tr, vacancy=vac)
            cl2 = rt(cl, 'C13:yaml:Cluster', str(cl))
            if cl2 is None: continue
            kinds.add((tr, vac))
            same_sites = len(cl.sites) == len(cl2.sites) and all(a.ci == b.ci and np.array_equal(a.R, b.R) for a, b in zip(cl.sites, cl2.sites))
            ok = (isinstance(cl2, cluster.Cluster) and cl2 == cl and cl == cl2 and hash(cl2) == hash(cl) and same_sites and
                  cl2.__transition__ == tr and cl2.__vacancy__ == vac and cl2.Norder == cl.Norder)
            mon.check(ok, 'C13:yaml:Cluster', lambda: 'transition=%s vacancy=%s: %s -> %s %s' % (tr, vac, cl, cl2, ctx))
    mon.obs['yaml_cluster_kinds'] = max(mon.obs.get('yaml_cluster_kinds', 0), len(kinds))
    vTK = OnsagerCalc.vacancyThermoKinetics
    ks = list(vtks)
    n, nj = int(rng.integers(1, 4)), int(rng.integers(1, 5))
    be = rng.normal(size=n)
    ks.append(vTK(pre=rng.uniform(.5, 2, size=n), betaene=be - be.min(), preT=rng.uniform(.5, 2, size=nj), betaeneT=rng.normal(size=nj) + 2))
    for k in ks:
        k2 = rt(k, 'C13:yaml:vTK', repr(k))
        if k2 is None: continue
        ok = isinstance(k2, vTK) and not bits(k, k2) and k2 == k and hash(k2) == hash(k)
        mon.check(ok, 'C13:yaml:vTK', lambda: '%r -> %r %s' % (k, k2, ctx))


def _nn(crys, chem):
    best = np.inf
    import itertools
    for u0 in crys.basis[chem]:
        for u1 in crys.basis[chem]:
            for s in itertools.product((-1, 0, 1), repeat=crys.dim):
                dd = np.linalg.norm(crys.lattice @ (u1 - u0 + np.array(s)))
                if dd > 1e-6: best = min(best, dd)
    return best


# ------------------------------------------------------------------------------------------
def run_case(case):
    from onsager import OnsagerCalc, crystal
    mon = Mon()
    rng = gen.rng_for(case['seed'], case['idx'], 13)
    if case['kind'] == 'vm':
        name = case['name']
        if name == 'bcc-conventional':
            crys, chem, cut = crystal.Crystal(np.eye(3), [np.zeros(3), np.array([.5, .5, .5])]), 0, 0.87
        elif name == 'square-centred':
            crys, chem, cut = crystal.Crystal(np.eye(2), [np.zeros(2), np.array([.5, .5])]), 0, 0.75
        else:
            crys, chem, cut = gen.named(name)
        if isinstance(crys.threshold, np.generic): mon.tag('crystal-threshold-is-numpy-scalar')
        sitelist, jn = crys.sitelist(chem), crys.jumpnetwork(chem, cut)
        ctx = '| crystal %s chem %d cutoff %s Nthermo %d populate %d hashseed %s' % (name, chem, cut, case['Nthermo'], case['populate'], case.get('hashseed'))
        try:
            d = OnsagerCalc.VacancyMediated(crys, chem, sitelist, jn, case['Nthermo'])
        except Exception as e:
            mon.check(False, 'C13:VM:build-raises', '%s: %s %s' % (type(e).__name__, e, ctx))
            return mon.result(sample=case)
        mon.count('dim2_roundtrips', crys.dim == 2)
        mon.count('multisite_roundtrips', d.N > 1)
        mon.count('multiwyckoff_roundtrips', len(sitelist) > 1)
        mon.sig([name, case['Nthermo'], case['populate']])
        check_vm(mon, rng, d, ctx, case['populate'])
        if case['populate']:
            # the calculator's own GF calculator, star sets and cache keys as stand-alone round trips
            check_gf(mon, rng, crys, chem, sitelist, jn, ctx, GF=d.GFcalc)
            check_yaml(mon, rng, crys, chem, ctx, pairstates=[d.kinetic.states[k] for k in rng.permutation(d.kinetic.Nstates)[:6]],
                       vtks=list(d.GFvalues.keys())[:3])
        else:
            check_stars(mon, rng, crys, chem, jn, ctx, Nshells=1 if d.kinetic.Nstates > 80 else 2, originstates=bool(rng.integers(2)))
            check_taylor(mon, rng, crys.dim, ctx)
        sample = {'crystal': name, 'Nthermo': case['Nthermo'], 'populate': case['populate'], 'Nstates_kinetic': d.kinetic.Nstates,
                  'cache_entries': len(d.GFvalues)}
        return mon.result(sample=sample)
    # random crystal: star sets, GF calculator, Taylor, YAML
    crys, spec = gen.rand_crystal(rng, nchem=int(rng.integers(1, 3)), maxatoms=4)
    chem = int(rng.integers(crys.Nchem))
    cut = gen.safe_cutoff(crys, chem, rng, lo=1.01 * _nn(crys, chem), hi=1.6 * _nn(crys, chem))
    ctx = '| random crystal %s lattice %s basis %s chem %d cutoff %r hashseed %s' % (
        spec['kind'], crys.lattice.tolist(), [[u.tolist() for u in l] for l in crys.basis], chem, cut, case.get('hashseed'))
    sitelist, jn = crys.sitelist(chem), crys.jumpnetwork(chem, cut)
    njumps = sum(len(j) for j in jn)
    mon.sig(['rand', spec['kind'], [len(l) for l in crys.basis], len(crys.G), len(jn)])
    if isinstance(crys.threshold, np.generic): mon.tag('crystal-threshold-is-numpy-scalar')
    mon.count('dim2_roundtrips', crys.dim == 2)
    check_yaml(mon, rng, crys, chem, ctx)
    check_taylor(mon, rng, crys.dim, ctx)
    check_taylor(mon, rng, 5 - crys.dim, ctx)
    if 0 < njumps <= 40:
        check_stars(mon, rng, crys, chem, jn, ctx, Nshells=int(rng.integers(1, 3)) if njumps <= 16 else 1, originstates=bool(rng.integers(2)))
        from onsager import GFcalc
        connected = GFcalc.GFCrystalcalc.networkcount(jn, len(crys.basis[chem])) == 1
        if connected:
            check_gf(mon, rng, crys, chem, sitelist, jn, ctx, Nmax=2)
        else:
            mon.count('rand_disconnected_network')
    else:
        mon.count('rand_network_skipped')
    return mon.result(sample={'kind': spec['kind'], 'lattice': crys.lattice, 'basis': crys.basis, 'chem': chem, 'cutoff': cut})
