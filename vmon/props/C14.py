"""C14: vacancy-mediated results depend only on their inputs, not on call history.

Recorded-history monitor (M3): a live VacancyMediated calculator is driven through random and bounded-exhaustive operation
sequences - Lij on a pool of inputs, in-place edits of arrays returned by earlier calls, clearcache, range regeneration
(generate + generatematrices + generatetags, there and back), HDF5 save/reload (continuing on the copy), repeated calls.
Every event is logged; the offline checker compares each Lij event with R10, a calculator constructed freshly for that
range and asked only that one question. The first divergent event and the operations before it are the witness.
"""
import itertools
import numpy as np
from vmon import gen, work_vac
from vmon.util import Mon, jsonable

ID = 'C14'
RULE = ('crystals {sc, square, fcc, honey, hcp, bcc} x pool of 4 inputs per range x histories over the alphabet {Lij(k), edit-returned, '
        'clearcache, regenerate(N'"'"'), reload, repeat; random histories also: near-duplicate input (1e-9..1e-6 away), caller re-using and editing its own argument arrays}: every sequence of length <= 3 (quick) / 4 (thorough) on sc and square, plus random '
        'histories of length 30; non-trivial = history contains at least one state-changing operation before a Lij; distinct = the '
        'operation sequence')
ASSUMPTIONS = ['a fresh calculator for the same crystal/network/range is the sequential model; agreement 1e-11 x scale (same '
               'floating-point operations up to the order of symmetry operations)', 'inputs: sigma 0.7, all groups randomised']
REQUIRED_OBS = {'eval:C14:Lij=fresh': 200, 'op:near': 5, 'op:mine': 5, 'op:edit': 20, 'op:clearcache': 20, 'op:regenerate': 20, 'op:reload': 5, 'op:repeat': 20,
                'histories': 50}
CASE_TIMEOUT = 1500
OPS = ('L0', 'L1', 'L2', 'edit', 'clear', 'regen', 'reload')
# random histories additionally use: 'near' (an input 1e-7 away from pool input 0: a different question, to be answered on its
# own) and 'mine' (the caller keeps its own argument arrays, shifts all barriers in place and asks again with the same objects)
OPS_RANDOM = OPS + ('near', 'mine')


def cases(tier, seed):
    out = []
    depth = 3 if tier == 'quick' else 4
    for name in ('sc', 'square'):
        seqs = [s for n in range(1, depth + 1) for s in itertools.product(OPS, repeat=n)
                if s[-1].startswith('L') and any(not o.startswith('L') or s.count(o) > 1 for o in s)]
        nchunk = 4 if tier == 'quick' else 12
        for c in range(nchunk):
            out.append({'kind': 'exhaustive', 'name': name, 'seed': seed, 'idx': c, 'seqs': [list(s) for s in seqs[c::nchunk]],
                        'hashseed': c % 3})
    rnd = ('fcc', 'honey', 'hcp', 'bcc', 'sc', 'square') if tier == 'quick' else ('fcc', 'honey', 'hcp', 'bcc', 'sc', 'square', 'omega', 'tria', 'dtria')
    for ci, name in enumerate(rnd):
        for rep in range(1 if tier == 'quick' else 4):
            out.append({'kind': 'random', 'name': name, 'seed': seed, 'idx': 100 + ci * 10 + rep, 'nhist': 2 if tier == 'quick' else 4,
                        'length': 30, 'hashseed': (ci + rep) % 3})
    return out


class Model:
    """R10: fresh calculators per range, each asked a question once (memoised by input index)."""

    def __init__(self, name):
        self.name = name
        self.calcs, self.pools, self.answers = {}, {}, {}

    def calc(self, N):
        if N not in self.calcs: self.calcs[N] = work_vac.get_calc(self.name, N, fresh=True)
        return self.calcs[N]

    def pool(self, N, rng):
        if N not in self.pools:
            d = self.calc(N)
            self.pools[N] = [work_vac.rand_args(rng, d, 'VSB012', 0.7) for _ in range(4)]
        return self.pools[N]

    def answer(self, N, k):
        if (N, k) not in self.answers:
            d = work_vac.get_calc(self.name, N, fresh=True)  # a brand-new calculator for every question
            self.answers[(N, k)] = [np.array(x) for x in d.Lij(*[a.copy() for a in self.pools[N][k]])]
        return self.answers[(N, k)]


def play(mon, model, name, seq, rng, sample_holder):
    """Runs one history on a new live calculator; returns the event log."""
    import h5py
    live = work_vac.get_calc(name, 1, fresh=True)
    N = 1
    log = []
    returned = []
    mine = {}
    for step, op in enumerate(seq):
        ev = {'seq': step, 'op': op}
        try:
            if op.startswith('L'):
                k = int(op[1:])
                args = [a.copy() for a in model.pool(N, rng)[k]]
                res = live.Lij(*args)
                returned.append(res)
                ref = model.answer(N, k)
                sc = max(np.abs(ref[0]).max(), np.abs(ref[1]).max(), 1e-300)
                ev.update({'N': N, 'input': k, 'result': [np.array(x).tolist() for x in res]})
                log.append(ev)
                okall = True
                for nm, a, b in zip(('L0vv', 'Lss', 'Lsv', 'L1vv'), res, ref):
                    ok = np.asarray(a).shape == b.shape and np.abs(np.asarray(a) - b).max() <= 1e-11 * max(sc, np.abs(b).max())
                    okall = okall and ok
                mon.check(okall, 'C14:Lij=fresh',
                          lambda: 'history %s: event %d Lij(input %d, Nthermo %d) = %s but a fresh calculator gives %s' % (
                              seq[:step + 1], step, k, N, [np.round(np.asarray(x), 10).tolist() for x in res],
                              [np.round(x, 10).tolist() for x in ref]),
                          tags=['after:' + o for o in set(seq[:step]) if not o.startswith('L')])
                mon.count('op:repeat', op in seq[:step])
                continue
            if op in ('near', 'mine'):
                if op == 'near':
                    args = [a.copy() for a in model.pool(N, rng)[0]]
                    eps = 10 ** float(rng.uniform(-9, -6))
                    args[0] = args[0] * (1 + eps)
                    args[3] = args[3] * (1 + eps)
                    mon.count('op:near')
                else:
                    if mine.get(N) is None: mine[N] = [a.copy() for a in model.pool(N, rng)[1]]
                    shift = float(rng.uniform(0.3, 1.5))
                    for q in (3, 4, 5): mine[N][q] += shift     # all barriers up by `shift` kT, in the caller's own arrays
                    args = mine[N]
                    mon.count('op:mine')
                res = live.Lij(*args)
                returned.append(res)
                fresh = work_vac.get_calc(name, N, fresh=True)
                ref = [np.array(x) for x in fresh.Lij(*[a.copy() for a in args])]
                sc = max(np.abs(ref[0]).max(), np.abs(ref[1]).max(), 1e-300)
                ok = all(np.abs(np.asarray(a) - b).max() <= 1e-11 * max(sc, np.abs(b).max()) for a, b in zip(res, ref))
                mon.check(ok, 'C14:Lij=fresh',
                          lambda: 'history %s: event %d (%s) Lij = %s but a fresh calculator gives %s for the same numbers' % (
                              seq[:step + 1], step, op, [np.round(np.asarray(x), 12).tolist() for x in res], [np.round(x, 12).tolist() for x in ref]),
                          tags=['after:' + o for o in set(seq[:step]) if not o.startswith('L')])
                log.append(ev)
                continue
            if op == 'edit':
                # the caller owns what Lij returned: scribble over every array handed out so far
                for res in returned:
                    for x in res:
                        if isinstance(x, np.ndarray): x[...] = 12345.678
                mon.count('op:edit')
            elif op == 'clear':
                live.clearcache()
                mon.count('op:clearcache')
            elif op == 'regen':
                N = 2 if N == 1 else 1
                live.generate(N)
                live.generatematrices()
                live.tags, live.tagdict, live.tagdicttype = live.generatetags()
                mon.count('op:regenerate')
            elif op == 'reload':
                f = h5py.File('c14-%d.h5' % id(live), 'w', driver='core', backing_store=False)
                live.addhdf5(f)
                live = type(live).loadhdf5(f)
                f.close()
                mon.count('op:reload')
            log.append(ev)
        except Exception as e:
            import traceback
            mon.fail('C14:%s:raises:%s' % (op, type(e).__name__), 'history %s event %d: %s' % (seq[:step + 1], step, traceback.format_exc()[-700:]))
            break
    if sample_holder[0] is None: sample_holder[0] = {'crystal': name, 'history': list(seq)}
    mon.count('histories')
    mon.sig([name] + list(seq))
    return log


def run_case(case):
    mon = Mon()
    rng = gen.rng_for(case['seed'], case['idx'], 14)
    model = Model(case['name'])
    holder = [None]
    if case['kind'] == 'exhaustive':
        for seq in case['seqs']:
            play(mon, model, case['name'], seq, rng, holder)
    else:
        for h in range(case['nhist']):
            w = np.array([3, 3, 3, 1.5, 1.5, 1, 0.7, 1.5, 1.5])
            seq = [OPS_RANDOM[int(i)] for i in rng.choice(len(OPS_RANDOM), size=case['length'], p=w / w.sum())]
            seq.append('L0')
            play(mon, model, case['name'], seq, rng, holder)
    return mon.result(sample=holder[0])
