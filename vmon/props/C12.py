"""C12: internal-friction loss tensors satisfy the relaxation sum rule.

Monitor on Interstitial.losstensors: every reported mode rate is positive and an eigenvalue of the independently assembled
symmetrised rate matrix (R1's Q~); every loss tensor has the index symmetries of an elastic compliance and a positive
semidefinite 6x6 (3x3 in 2-D) matrix; the loss tensors summed over modes equal the equilibrium fluctuation of the populated
site dipole, <P x P> - sum_components w_c <P>_c x <P>_c.
"""
import numpy as np
from vmon import gen, work_inter
from vmon.util import Mon
from vmon.ref import walk

ID = 'C12'
RULE = ('random 2-D/3-D crystals with >= 2 sites of the diffusing species, random safe cutoff, prefactors in [0.5,2], energies '
        'N(0,sigma) sigma in {0.3,1,2}, arbitrary non-symmetric dipoles; non-trivial = at least one relaxation mode reported; '
        'distinct = (kind, sites, Wyckoff sets, jump classes, components, number of modes)')
ASSUMPTIONS = ['the routine drops modes slower than 1e-8 x the mean rate by design: the sum rule is only asserted when the '
               'independent spectrum has no non-zero eigenvalue below 1e-6 x the mean rate (otherwise counted as not explored)',
               'tolerances: eigenvalue 1e-8 x max rate; tensors 1e-9 x |P|^2']
REQUIRED_OBS = {'eval:C12:sum-rule': 20, 'eval:C12:rate-is-eigenvalue': 40, 'eval:C12:psd': 40, 'multi_wyckoff': 3}
PER_CASE = 6


def cases(tier, seed):
    n = 40 if tier == 'quick' else 500
    return [{'seed': seed, 'idx': i, 'hashseed': i % 4} for i in range(n)]


def mandel(L):
    dim = L.shape[0]
    pairs = [(a, a) for a in range(dim)] + [(a, b) for a in range(dim) for b in range(a + 1, dim)]
    M = np.zeros((len(pairs), len(pairs)))
    for m, (a, b) in enumerate(pairs):
        for n, (c, d) in enumerate(pairs):
            M[m, n] = L[a, b, c, d] * (1 if a == b else np.sqrt(2)) * (1 if c == d else np.sqrt(2))
    return M


def run_case(case):
    from onsager import OnsagerCalc
    mon = Mon()
    rng = gen.rng_for(case['seed'], case['idx'], 12)
    sample = None
    for k in range(PER_CASE):
        w = work_inter.draw(rng, maxsites=6, sigmas=(0.3, 1., 2.), need_sites=2, noncentro=0.2)
        if w is None:
            mon.count('skipped')
            continue
        crys, chem, sl, jn, N = w['crys'], w['chem'], w['sl'], w['jn'], w['N']
        dim = crys.dim
        pre, bE, preT, bET = w['pre'], w['bE'], w['preT'], w['bET']
        if sample is None: sample = w['desc']
        p = walk.site_prob(pre, bE, w['inv'])
        jumps = walk.jump_table(jn, pre, bE, preT, bET, w['inv'])
        _, Q, _, _, _ = walk.walk_D(N, dim, p, jumps, full=True)
        ev = -np.linalg.eigvalsh(Q)
        averate = abs(np.trace(Q)) / N
        comps = walk.components(N, jumps)
        with mon.guard('C12:losstensors'):
            diff = OnsagerCalc.Interstitial(crys, chem, sl, jn)
            dip = [rng.normal(size=(dim, dim)) for _ in sl]
            P = diff.siteDipoles(dip)
            res = diff.losstensors(pre, bE, dip, preT, bET)
            mon.count('multi_wyckoff', len(sl) > 1)
            mon.count('disconnected', len(comps) > 1)
            mon.count('modes', len(res))
            if len(res) == 0: continue
            mon.sig([w['spec']['kind'], N, len(sl), len(jn), len(comps), len(res)])
            Psc = max(np.abs(P).max() ** 2, 1e-300)
            total = np.zeros((dim,) * 4)
            for lam, L in res:
                mon.check(lam > 0, 'C12:rate-positive', 'lambda=%s' % lam)
                mon.check(np.abs(ev - lam).min() <= 1e-8 * ev.max(), 'C12:rate-is-eigenvalue',
                          lambda: 'lambda=%.12g spectrum=%s %s' % (lam, ev.tolist(), w['desc']))
                sym = max(np.abs(L - L.transpose(1, 0, 2, 3)).max(), np.abs(L - L.transpose(0, 1, 3, 2)).max(),
                          np.abs(L - L.transpose(2, 3, 0, 1)).max())
                mon.check(sym <= 1e-9 * Psc, 'C12:compliance-symmetry', 'asym=%.3e' % sym)
                mon.check(np.linalg.eigvalsh(mandel(L)).min() >= -1e-9 * Psc, 'C12:psd', lambda: 'L not PSD %s' % w['desc'])
                total += L
            slow = [x for x in ev if 1e-12 * averate < abs(x) < 1e-6 * averate]
            if slow:
                mon.count('sum_rule_not_explored_slow_modes')
                continue
            ref = sum(p[i] * np.einsum('ab,cd->abcd', P[i], P[i]) for i in range(N))
            for c in comps:
                wc = sum(p[i] for i in c)
                Pc = sum(p[i] * P[i] for i in c) / wc
                ref -= wc * np.einsum('ab,cd->abcd', Pc, Pc)
            mon.close(total, ref, 1e-9, 'C12:sum-rule', lambda: str(w['desc']), scale=Psc)
            # number of distinct reported rates never exceeds the number of non-zero eigenvalues
            nz = sum(1 for x in ev if abs(x) > 1e-8 * averate)
            mon.check(len(res) <= nz, 'C12:mode-count', '%d modes, %d non-zero eigenvalues' % (len(res), nz))
    return mon.result(sample=sample)
