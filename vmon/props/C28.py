"""C28: supercell occupancy bookkeeping stays consistent over any edit history.

Recorded-history monitor: every event of a history (setocc, item assignment by index and by
position, item reads, fillperiodic, reorder, *=, *, copy, POSCAR -> POSCAR_occ in direct /
Cartesian / scaled / named / selective-dynamics form, occposlist, ==) is applied to real Supercell
objects (a pool of up to three live objects, so aliasing between copies is visible) and to the
dict model R7 (vmon.ref.supergroup.DictSuper).  After every event each live object must satisfy
__sane__(), occ == model and chemorder == model; species -1..Nchem-1 must be accepted, any other
species must raise IndexError and leave the state untouched.  Workload: bounded-exhaustive
sequences over a small alphabet on 4-site supercells, and random histories of 200 events on
random 3-D supercells.  A failing history is shrunk by event deletion and stored as the witness.
"""
import itertools, json, operator, traceback, warnings, zlib
import numpy as np
from vmon import gen
from vmon.util import Mon
from vmon.ref import geom, supergroup as R

ID = 'C28'
RULE = ('(a) bounded-exhaustive: four 4-site supercells (Nsolute 0/2, interstitial sublattice + 1 solute, NOSYM) x every '
        'sequence of length <= 4 (thorough: <= 5, and <= 4 over a larger alphabet) from an alphabet of 17-30 concrete '
        'events (all declared species and the two nearest undeclared ones on two sites, item/position assignment, '
        'fillperiodic, group operation, reorder, copy + edit of the copy, POSCAR round trip, ==); (b) random: 3-D crystal '
        '(1-2 species, <=4 atoms) x supercell det 1..6 (<= 24 sites) x Nsolute 0..2 x interstitial on/off x NOSYM on/off, '
        '6 histories of 200 random events each on a pool of 3 objects, 12% undeclared species; every history is distinct '
        '(signature = setup + hash of the event list) and non-trivial (it contains edits)')
ASSUMPTIONS = ['model R7: a site that changes species leaves its old list (order of the others kept) and is appended to the new '
               'one; g maps site n to the site at rot.pos[n]+trans (found geometrically, not from indexmap)',
               'fillperiodic: the set of filled sites is checked against brute-force orbits; the order in which the new '
               'sites are appended is not documented and is adopted from the object (old entries must keep their order)',
               'POSCAR variants are produced by an independent re-formatter of the text written by POSCAR(); Cartesian '
               'coordinates are written with scale 1.0; site positions in a POSCAR are displaced by at most 1e-7',
               'reorder with an out-of-range entry may raise ValueError or IndexError (only ValueError is documented); with '
               'a duplicated entry ValueError is required',
               'two-dimensional supercells cannot be constructed (class documented for 3x3 matrices): NOSYM is covered in 3-D']
CASE_TIMEOUT = 900
NSLOTS = 3


def REQUIRED_OBS(tier):
    q = tier == 'quick'
    return {'histories_random': 200 if q else 2000, 'events_random': 40000 if q else 400000,
            'sequences_exhaustive': 100000 if q else 3000000, 'eval:C28:sane': 100000, 'eval:C28:occ=model': 100000,
            'eval:C28:chemorder=model': 100000, 'eval:C28:undeclared-species-rejected': 5000,
            'eval:C28:rejected-op-leaves-state': 5000, 'eval:C28:declared-species-accepted': 20000,
            'last_solute_of_two_placed': 500, 'species_above_range_Nsolute0': 500, 'species_minus2': 1000,
            'eval:C28:copy-equal': 2000, 'eval:C28:POSCAR-text': 2000, 'poscar_cart': 300, 'poscar_direct': 300,
            'poscar_names': 50, 'poscar_noempty': 100, 'eval:C28:fillperiodic-sites': 1000, 'eval:C28:reorder-bad-rejected': 300,
            'ev:imul': 2000, 'ev:mul': 1000, 'ev:reorder': 2000, 'ev:setpos': 1000, 'eval:C28:eq': 2000,
            'histories_nosym': 10, 'histories_interstitial': 30, 'histories_nsolute2': 30, 'histories_nsolute0': 30}


EXH_CONFIGS = ('E0', 'E1', 'E2', 'E3')


def exh_alphabet_size(cfg, big):
    nchem = {'E0': 1, 'E1': 3, 'E2': 3, 'E3': 2}[cfg]
    return 2 * (nchem + 3) + (9 if not big else 18)


def cases(tier, seed):
    out = []
    if tier == 'quick':
        for cfg in EXH_CONFIGS:
            for f in range(exh_alphabet_size(cfg, False)):
                out.append({'seed': seed, 'kind': 'exh', 'cfg': cfg, 'prefix': [f], 'depth': 4, 'big': False, 'hashseed': f % 3})
        for i in range(48):
            out.append({'seed': seed, 'kind': 'rand', 'idx': i, 'nhist': 6, 'hashseed': i % 5})
    else:
        for cfg in EXH_CONFIGS:
            A = exh_alphabet_size(cfg, False)
            for f in range(A):
                for s in range(A):
                    out.append({'seed': seed, 'kind': 'exh', 'cfg': cfg, 'prefix': [f, s], 'depth': 5, 'big': False, 'hashseed': (f + s) % 3})
            B = exh_alphabet_size(cfg, True)
            for f in range(B):
                out.append({'seed': seed, 'kind': 'exh', 'cfg': cfg, 'prefix': [f], 'depth': 4, 'big': True, 'hashseed': f % 3})
        for i in range(480):
            out.append({'seed': seed, 'kind': 'rand', 'idx': i, 'nhist': 8, 'hashseed': i % 7})
    return out


# ------------------------------------------------------------------------------ light-weight recorder
class Probe:
    """Counts oracle evaluations and keeps the FIRST failure of a history (the history stops there)."""

    def __init__(self):
        self.n = {}
        self.first = None

    def check(self, cond, clause, detail=''):
        self.n[clause] = self.n.get(clause, 0) + 1
        if not cond and self.first is None:
            self.first = (clause, detail() if callable(detail) else detail)
        return bool(cond)

    def count(self, key, k=1):
        self.n['#' + key] = self.n.get('#' + key, 0) + k

    def flush(self, mon):
        for k, v in self.n.items():
            if k.startswith('#'): mon.count(k[1:], v)
            else:
                mon.count('eval:' + k, v)
                mon.evals += v
        self.n = {}


# ------------------------------------------------------------------------------ setup
class Ctx:
    def __init__(self, crys, S, interstitial, nsol, nosym, named):
        from onsager import supercell
        self.crys, self.S, self.interstitial, self.nsol, self.nosym, self.named = crys, S, tuple(interstitial), nsol, nosym, named
        with warnings.catch_warnings():
            warnings.simplefilter('ignore')
            self.template = supercell.Supercell(crys, S, interstitial=self.interstitial, Nsolute=nsol, NOSYM=nosym)
            S2 = S.copy()
            S2[:, 0] = S2[:, 0] + S2[:, 1]  # same lattice, different matrix: must compare unequal
            self.other = supercell.Supercell(crys, S2, interstitial=self.interstitial, Nsolute=nsol, NOSYM=True)
        if named:
            for k in range(nsol): self.template.definesolute(crys.Nchem + k, 'X%d' % k)
        t = self.template
        # declared by the caller, not read back from the object: Nchem = native species + solutes, N*|det S| sites
        self.nsites, self.nchem = crys.N * abs(int(round(np.linalg.det(S)))), crys.Nchem + nsol
        self.declared_ok = (t.Nchem == self.nchem and len(t.occ) == self.nsites and len(t.chemorder) == self.nchem
                            and len(t.chemistry) == self.nchem + 1)
        self.pos = np.array(t.pos)
        self.N = crys.N
        self.G = sorted(t.G, key=lambda g: tuple(g.indexmap[0]))
        self._perm = {}
        grp = geom.full_group(crys.lattice, crys.basis)
        orbs = geom.orbits_from_perms([p for _, _, p in grp], [len(l) for l in crys.basis])
        self.orbit = {}
        for o in orbs:
            for ci in o: self.orbit[ci] = sorted(crys.atomindices.index(x) for x in o)
        self.desc = {'lattice': crys.lattice.tolist(), 'basis': [[u.tolist() for u in l] for l in crys.basis], 'S': S.tolist(),
                     'interstitial': list(self.interstitial), 'Nsolute': nsol, 'NOSYM': bool(nosym), 'named': bool(named)}

    def perm(self, gi):
        gi %= len(self.G)
        if gi not in self._perm:
            g = self.G[gi]
            p = R.find_perm(self.pos, g.rot, g.trans)
            if p is None: raise RuntimeError('operation of G is not a permutation of the sites (C27 territory)')
            self._perm[gi] = p
        return self.G[gi], self._perm[gi]

    def fresh(self):
        return [self.template.copy(), R.DictSuper(self.nsites, self.nchem)]

    def poskey(self, site, seed):
        r = np.random.default_rng(seed)
        return self.pos[site] + r.integers(-2, 3, size=3) + 1e-7 * r.uniform(-1, 1, size=3)


def state(sup):
    return ([int(x) for x in sup.occ], [[int(x) for x in l] for l in sup.chemorder])


def check_all(P, ctx, slots, ev):
    for k, (sup, mod) in enumerate(slots):
        try:
            sane = bool(sup.__sane__())
            occ, order = state(sup)
        except Exception as e:
            P.check(False, 'C28:state-readable', 'slot %d after %s: %s: %s' % (k, ev, type(e).__name__, e))
            return
        P.check(sane, 'C28:sane', lambda: 'slot %d after %s: occ=%s chemorder=%s' % (k, ev, occ, order))
        P.check(occ == mod.occlist(), 'C28:occ=model', lambda: 'slot %d after %s: occ=%s model=%s' % (k, ev, occ, mod.occlist()))
        P.check(order == mod.order, 'C28:chemorder=model', lambda: 'slot %d after %s: chemorder=%s model=%s' % (k, ev, order, mod.order))


# ------------------------------------------------------------------------------ POSCAR re-formatter (independent of the class)
def parse_poscar(text):
    lines = text.split('\n')
    name = lines[0]
    scale = float(lines[1])
    rows = np.array([[float(x) for x in lines[2 + k].split()] for k in range(3)])
    counts = [int(x) for x in lines[5].split()]
    mode = lines[6].strip()
    coords = [[float(x) for x in lines[7 + k].split()[:3]] for k in range(sum(counts))]
    tail = lines[7 + sum(counts):]
    return name, scale, rows, counts, mode, np.array(coords).reshape(-1, 3), tail


def reformat_poscar(text, flags, names, seed):
    """Same configuration, other admissible spellings. -> (text, species order read by the reader)"""
    r = np.random.default_rng(seed)
    name, scale, rows, counts, mode, coords, _ = parse_poscar(text)
    order = list(range(len(counts)))
    a0 = 1.0
    if 'scale' in flags and 'cart' not in flags:
        a0 = 2.5
    if 'noise' in flags:
        coords = coords + 1e-7 * r.uniform(-1, 1, size=coords.shape)
    if 'shift' in flags:
        coords = coords + r.integers(-1, 2, size=coords.shape)
    blocks, start = [], 0
    for c in counts:
        blocks.append(coords[start:start + c])
        start += c
    out = [name, repr(a0)]
    out += [' '.join('%.16f' % (x / a0) for x in row) for row in rows * scale]
    if 'names' in flags and names is not None:
        order = [int(c) for c in r.permutation(len(counts))]
        order = [c for c in order if counts[c] > 0 or r.uniform() < 0.5]
        if not order: order = [0]
        out.append(' '.join(names[c] for c in order))
    out.append(' '.join(str(counts[c]) for c in order))
    if 'sel' in flags: out.append('Selective dynamics')
    cart = 'cart' in flags
    key = ('Cartesian' if r.uniform() < 0.5 else ('cartesian' if r.uniform() < 0.5 else 'Kartesian')) if cart else \
        ('Direct' if r.uniform() < 0.6 else 'direct')
    out.append(key)
    for c in order:
        for u in blocks[c]:
            v = (rows * scale).T @ u if cart else u
            out.append(' ' + ' '.join('%.16f' % x for x in v) + (' T T F' if 'sel' in flags else ''))
    return '\n'.join(out) + '\n', order


# ------------------------------------------------------------------------------ executor
def exec_event(P, ctx, slots, ev):
    from onsager import supercell
    op = ev[0]
    P.count('ev:' + op)
    if op in ('set', 'setitem', 'setpos'):
        k, site, c = ev[1], ev[2], ev[3]
        sup, mod = slots[k]
        arg = np.int64(c) if 'np' in ev[4:] else c
        valid = mod.valid(c)
        before = None if valid else state(sup)
        raised, msg = None, ''
        try:
            if op == 'set': sup.setocc(site, arg)
            elif op == 'setitem': sup[np.int64(site) if 'np' in ev[4:] else site] = arg
            else: sup[ctx.poskey(site, ev[4])] = arg
        except Exception as e:
            raised, msg = type(e).__name__, str(e)
        if valid:
            if c == ctx.nchem - 1 and ctx.nsol == 2: P.count('last_solute_of_two_placed')
            P.check(raised is None, 'C28:declared-species-accepted', lambda: '%s raised %s: %s (species -1..%d are declared)' % (ev, raised, msg, ctx.nchem - 1))
            if raised is None: mod.setocc(site, c)
        else:
            if c == -2: P.count('species_minus2')
            if c == ctx.nchem and ctx.nsol == 0: P.count('species_above_range_Nsolute0')
            P.check(raised == 'IndexError', 'C28:undeclared-species-rejected', lambda: '%s: %s (declared species are -1..%d)' % (
                ev, 'no exception' if raised is None else 'raised %s: %s' % (raised, msg), ctx.nchem - 1))
            after = state(sup)
            P.check(after == before, 'C28:rejected-op-leaves-state', lambda: '%s raised %s but changed the state %s -> %s' % (ev, raised, before, after))
    elif op == 'get':
        k, site = ev[1], ev[2]
        sup, mod = slots[k]
        try:
            a, b, c = sup[site], sup[ctx.poskey(site, ev[3])], sup[site:site + 3]
            P.check(int(a) == mod.occ[site] and int(b) == mod.occ[site] and [int(x) for x in c] == mod.occlist()[site:site + 3], 'C28:getitem',
                    lambda: '%s -> %s %s %s, model %s' % (ev, a, b, c, mod.occlist()[site:site + 3]))
        except Exception as e:
            P.check(False, 'C28:getitem:raises:' + type(e).__name__, '%s: %s' % (ev, e))
    elif op == 'fill':
        k, c, i, wyck = ev[1], ev[2], ev[3], ev[4]
        sup, mod = slots[k]
        units = ctx.orbit[(c, i)] if wyck else [ctx.crys.atomindices.index((c, i))]
        T = [n for n in range(ctx.nsites) if n % ctx.N in units]
        old = list(mod.order[c])
        targets = sorted(n for n in T if mod.occ[n] != c)
        try:
            r = sup.fillperiodic((c, i), Wyckoff=wyck) if not wyck or ev[5:] else sup.fillperiodic((c, i))
        except Exception as e:
            P.check(False, 'C28:fillperiodic:raises:' + type(e).__name__, '%s: %s' % (ev, e))
            return
        real = [int(x) for x in sup.chemorder[c]] if c < len(sup.chemorder) else []
        ok = r is sup and real[:len(old)] == old and sorted(real[len(old):]) == targets
        P.check(ok, 'C28:fillperiodic-sites', lambda: '%s: returned self=%s, list before %s, after %s, sites that should have been added %s' % (
            ev, r is sup, old, real, targets))
        for n in (real[len(old):] if ok else targets): mod.setocc(n, c)
    elif op == 'fillbad':
        k, c, i = ev[1], ev[2], ev[3]
        sup, mod = slots[k]
        before = state(sup)
        raised = None
        try: sup.fillperiodic((c, i))
        except Exception as e: raised = type(e).__name__
        P.check(raised == 'IndexError' and state(sup) == before, 'C28:fillperiodic-bad-index', lambda: '%s raised %s, state %s -> %s' % (ev, raised, before, state(sup)))
    elif op == 'reorder':
        k, seed = ev[1], ev[2]
        sup, mod = slots[k]
        if seed == 'rot': mapping = [list(range(1, len(l))) + [0] if l else [] for l in mod.order]
        else:
            r = np.random.default_rng(seed)
            mapping = [[int(x) for x in r.permutation(len(l))] for l in mod.order]
        try:
            ret = sup.reorder(mapping)
            P.check(ret is sup, 'C28:reorder-returns-self', str(ev))
        except Exception as e:
            P.check(False, 'C28:reorder:raises:' + type(e).__name__, '%s mapping %s: %s' % (ev, mapping, e))
            return
        mod.reorder(mapping)
    elif op == 'reorderbad':
        k, seed, kind = ev[1], ev[2], ev[3]
        sup, mod = slots[k]
        r = np.random.default_rng(seed)
        need = 2 if kind == 'dup' else 1
        cands = [c for c, l in enumerate(mod.order) if len(l) >= need]
        if not cands:
            P.count('reorderbad_skipped')
            return
        c = cands[int(r.integers(len(cands)))]
        mapping = [[int(x) for x in r.permutation(len(l))] for l in mod.order]
        j = int(r.integers(len(mapping[c])))
        if kind == 'dup': mapping[c][j] = mapping[c][(j + 1) % len(mapping[c])]
        else: mapping[c][j] = len(mapping[c])
        before = state(sup)
        raised = None
        try: sup.reorder(mapping)
        except Exception as e: raised = type(e).__name__
        allowed = ('ValueError',) if kind == 'dup' else ('ValueError', 'IndexError')
        P.check(raised in allowed and state(sup) == before, 'C28:reorder-bad-rejected', lambda: '%s mapping %s: raised %s, state %s -> %s' % (
            ev, mapping, raised, before, state(sup)))
    elif op == 'imul':
        k, gi = ev[1], ev[2]
        sup, mod = slots[k]
        g, perm = ctx.perm(gi)
        try:
            ret = operator.imul(sup, g)
            P.check(ret is sup, 'C28:imul-in-place', str(ev))
        except Exception as e:
            P.check(False, 'C28:imul:raises:' + type(e).__name__, '%s: %s' % (ev, e))
            return
        mod.apply_perm(perm)
    elif op == 'mul':
        k, gi, dst, side = ev[1], ev[2], ev[3], ev[4]
        sup, mod = slots[k]
        g, perm = ctx.perm(gi)
        try:
            ret = sup * g if side == 'r' else g * sup
            P.check(ret is not sup and isinstance(ret, supercell.Supercell), 'C28:mul-new-object', str(ev))
        except Exception as e:
            P.check(False, 'C28:mul:raises:' + type(e).__name__, '%s: %s' % (ev, e))
            return
        m2 = mod.copy()
        m2.apply_perm(perm)
        slots[dst] = [ret, m2]
    elif op == 'copy':
        k, dst = ev[1], ev[2]
        sup, mod = slots[k]
        try:
            ret = sup.copy()
            P.check(ret is not sup and bool(ret == sup) and not bool(ret != sup) and ret.Nchem == sup.Nchem and ret.chemistry == sup.chemistry,
                    'C28:copy-equal', lambda: '%s: copy %s original %s' % (ev, state(ret), state(sup)))
        except Exception as e:
            P.check(False, 'C28:copy:raises:' + type(e).__name__, '%s: %s' % (ev, e))
            return
        slots[dst] = [ret, mod.copy()]
    elif op == 'fresh':
        slots[ev[1]] = ctx.fresh()
    elif op == 'poscar':
        src, dst, flags, empty, seed = ev[1], ev[2], ev[3].split('+'), ev[4], ev[5]
        sup, mod = slots[src]
        try:
            text = sup.POSCAR(name='hist', stoichiometry=bool(seed % 2))
            name, scale, rows, counts, mode, coords, tail = parse_poscar(text)
            want = np.array([ctx.pos[n] for l in mod.order for n in l]).reshape(-1, 3)
            P.check(scale == 1.0 and np.allclose(rows, sup.lattice.T, atol=1e-14, rtol=0) and counts == [len(l) for l in mod.order]
                    and mode[:1] in 'Dd' and coords.shape == want.shape and np.allclose(coords, want, atol=1e-15, rtol=0) and all(t == '' for t in tail)
                    and name.startswith('hist'), 'C28:POSCAR-text', lambda: '%s: text %r for model order %s' % (ev, text, mod.order))
        except Exception as e:
            P.check(False, 'C28:POSCAR:raises:' + type(e).__name__, '%s: %s' % (ev, e))
            return
        names = [sup.chemistry[c] for c in range(ctx.nchem)] if ctx.named else None
        text2, order = (text, list(range(ctx.nchem))) if flags == ['plain'] else reformat_poscar(text, flags, names, seed)
        P.count('poscar_cart' if 'cart' in flags else 'poscar_direct')
        if 'names' in flags and names is not None: P.count('poscar_names')
        if not empty: P.count('poscar_noempty')
        dsup, dmod = slots[dst]
        srcorder = [list(l) for l in mod.order]
        try:
            ret = dsup.POSCAR_occ(text2) if empty and seed % 3 else dsup.POSCAR_occ(text2, EMPTY_SUPER=bool(empty))
            P.check(ret == text2.split('\n')[0], 'C28:POSCAR_occ-name', lambda: '%s returned %r' % (ev, ret))
        except Exception as e:
            P.check(False, 'C28:POSCAR_occ:raises:' + type(e).__name__, '%s: %s | text %r' % (ev, e, text2))
            return
        if empty: dmod.clear()
        for c in order:
            for n in srcorder[c]: dmod.setocc(n, c)
    elif op == 'occpos':
        sup, mod = slots[ev[1]]
        try:
            lst = sup.occposlist()
            P.check(len(lst) == ctx.nchem and all(len(a) == len(b) and all(np.array_equal(u, ctx.pos[n]) for u, n in zip(a, b)) for a, b in zip(lst, mod.order)),
                    'C28:occposlist', lambda: '%s: %s for model order %s' % (ev, lst, mod.order))
        except Exception as e:
            P.check(False, 'C28:occposlist:raises:' + type(e).__name__, '%s: %s' % (ev, e))
    elif op == 'eq':
        (sa, ma), (sb, mb) = slots[ev[1]], slots[ev[2]]
        want = ma.same(mb)
        try:
            e1, e2, n1 = bool(sa == sb), bool(sb == sa), bool(sa != sb)
            P.check(e1 == want and e2 == want and n1 == (not want) and bool(sa == sa) and not bool(sa == 'x') and not bool(sa == ctx.other)
                    and bool(sa != ctx.other), 'C28:eq', lambda: '%s: == gives %s/%s, != gives %s, models equal: %s; a=%s b=%s' % (ev, e1, e2, n1, want, state(sa), state(sb)))
        except Exception as e:
            P.check(False, 'C28:eq:raises:' + type(e).__name__, '%s: %s' % (ev, e))
    else:
        raise ValueError('unknown event %s' % (ev,))


def run_history(P, ctx, events, nslots, full_every=True):
    """Executes the recorded events; stops at the first failure. -> index of the failing event or None"""
    slots = [ctx.fresh() for _ in range(nslots)]
    P.check(ctx.declared_ok, 'C28:declared-sizes', lambda: 'Nchem=%s, %d sites, %d species lists; declared %d species on %d sites' % (
        ctx.template.Nchem, len(ctx.template.occ), len(ctx.template.chemorder), ctx.nchem, ctx.nsites))
    check_all(P, ctx, slots, 'start')
    if P.first is not None: return -1
    last = len(events) - 1
    for n, ev in enumerate(events):
        exec_event(P, ctx, slots, ev)
        if P.first is None and (full_every or n == last): check_all(P, ctx, slots, ev)
        if P.first is not None: return n
    return None


def shrink(ctx, events, nslots, clause):
    """Greedy one-by-one deletion keeping the same first failing clause."""
    def fails(evs):
        p = Probe()
        try: run_history(p, ctx, evs, nslots)
        except Exception: return False
        return p.first is not None and p.first[0] == clause
    cur = list(events)
    for _ in range(2):
        k = len(cur) - 2
        while k >= 0:
            trial = cur[:k] + cur[k + 1:]
            if fails(trial): cur = trial
            k -= 1
    p = Probe()
    run_history(p, ctx, cur, nslots)
    return cur, (p.first[1] if p.first else '')


def report(mon, ctx, P, events, nfail, nslots, tags, do_shrink):
    clause, detail = P.first
    evs = events[:nfail + 1]
    if do_shrink and len(evs) > 6:
        try:
            evs, d2 = shrink(ctx, evs, nslots, clause)
            detail = d2 or detail
        except Exception:
            pass
    wit = json.dumps({'setup': ctx.desc, 'slots': nslots, 'events': evs}, separators=(',', ':'))
    mon.fail(clause, '%s || witness history (%d events, replay in order on %d empty copies): %s' % (str(detail)[:500], len(evs), nslots, wit), tags)


# ------------------------------------------------------------------------------ (a) bounded-exhaustive
def exh_ctx(cfg, seed):
    from onsager import crystal
    rng = gen.rng_for(seed, 28, EXH_CONFIGS.index(cfg))
    if cfg in ('E0', 'E1', 'E3'):
        kinds = {'E0': 'cubicF', 'E1': 'ortho', 'E3': 'hex'}
        latt = gen.lattice(kinds[cfg], rng)
        crys = crystal.Crystal(latt, [[np.zeros(3)]], chemistry=['Aa'])
        while True:
            S = rng.integers(-2, 3, size=(3, 3))
            if abs(round(np.linalg.det(S))) == 4 and np.any(S - np.diag(np.diag(S))): break
        return Ctx(crys, S, (), {'E0': 0, 'E1': 2, 'E3': 1}[cfg], cfg == 'E3', True)
    latt = gen.lattice('tetP', rng)
    crys = crystal.Crystal(latt, [[np.zeros(3)], [np.array([0.5, 0.5, 0.5])]], chemistry=['Aa', 'Bb'])
    while True:
        S = rng.integers(-1, 2, size=(3, 3))
        if abs(round(np.linalg.det(S))) == 2 and np.any(S - np.diag(np.diag(S))): break
    return Ctx(crys, S, (1,), 1, False, True)


def exh_alphabet(ctx, big):
    nchem = ctx.nchem
    A = []
    for site in (0, 1):
        for c in list(range(-1, nchem)) + [-2, nchem]: A.append(['set', 0, site, c])
    # the operation with the longest cycle
    best, blen = 0, -1
    for gi in range(len(ctx.G)):
        _, p = ctx.perm(gi)
        n, L = 0, 0
        while True:
            n = p[n]
            L += 1
            if n == 0: break
        if L > blen and p != tuple(range(ctx.nsites)): best, blen = gi, L
    ci = ctx.crys.atomindices[0]
    A += [['setitem', 0, 2, nchem - 1], ['setpos', 0, 3, 0, 7], ['fill', 0, ci[0], ci[1], True], ['imul', 0, best], ['reorder', 0, 'rot'],
          ['copy', 0, 1], ['set', 1, 0, nchem - 1], ['poscar', 0, 1, 'plain', True, 3], ['eq', 0, 1]]
    if big:
        cj = ctx.crys.atomindices[-1]
        A += [['mul', 1, best, 0, 'l'], ['poscar', 1, 0, 'cart+sel', False, 5], ['reorderbad', 0, 2, 'dup'], ['fill', 0, cj[0], cj[1], False],
              ['set', 1, 1, -1], ['setitem', 1, 3, 0, 'np'], ['imul', 1, best + 1], ['copy', 1, 0], ['poscar', 0, 0, 'names+noise', True, 4]]
    assert len(A) == exh_alphabet_size({1: 'E0', 2: 'E3', 3: 'E1'}[nchem], big), (len(A), nchem)
    return A


def run_exhaustive(case, mon):
    try:
        ctx = exh_ctx(case['cfg'], case['seed'])
    except Exception as e:
        mon.check(False, 'C28:construct:raises:' + type(e).__name__, 'exhaustive configuration %s: %s' % (case['cfg'], traceback.format_exc()[-800:]), ['exhaustive'])
        return {'exhaustive': case['cfg']}
    A = exh_alphabet(ctx, case['big'])
    prefix = [A[i] for i in case['prefix']]
    depth = case['depth']
    P = Probe()
    tags = ['exhaustive', case['cfg']]
    nfail = 0
    todo = []
    if len(prefix) == 2 and case['prefix'][1] == 0: todo.append([prefix[0]])
    seqs = itertools.chain(todo, (prefix + list(suf) for L in range(0, depth - len(prefix) + 1) for suf in itertools.product(A, repeat=L)))
    for evs in seqs:
        P.first = None
        P.count('sequences_exhaustive')
        bad = run_history(P, ctx, evs, 2, full_every=False)
        if bad is not None:
            report(mon, ctx, P, evs, bad, 2, tags, False)
            nfail += 1
            if nfail >= 6: break
    P.flush(mon)
    mon.count('histories_nosym', ctx.nosym)
    mon.count('histories_interstitial', bool(ctx.interstitial))
    mon.count('histories_nsolute2', ctx.nsol == 2)
    mon.count('histories_nsolute0', ctx.nsol == 0)
    mon.sig(['exh', case['cfg'], ctx.S.tolist(), case['prefix'], depth, case['big']])
    return {'exhaustive': case['cfg'], 'setup': ctx.desc, 'alphabet': A, 'prefix': case['prefix'], 'depth': depth}


# ------------------------------------------------------------------------------ (b) random histories
def rand_species(rng, nchem, pbad=0.12):
    if rng.uniform() < pbad:
        return int(rng.choice([-2, -2, -3, nchem, nchem, nchem + 1, nchem + 4]))
    return int(rng.integers(-1, nchem))


def rand_event(rng, ctx):
    k = int(rng.integers(NSLOTS))
    site = int(rng.integers(ctx.nsites))
    r = rng.uniform()
    ext = ['np'] if rng.uniform() < 0.15 else []
    if r < 0.24: return ['set', k, site, rand_species(rng, ctx.nchem)] + ext
    if r < 0.33: return ['setitem', k, site, rand_species(rng, ctx.nchem)] + ext
    if r < 0.41: return ['setpos', k, site, rand_species(rng, ctx.nchem), int(rng.integers(1 << 30))]
    if r < 0.45: return ['get', k, site, int(rng.integers(1 << 30))]
    if r < 0.51:
        c, i = ctx.crys.atomindices[int(rng.integers(ctx.N))]
        w = bool(rng.uniform() < 0.6)
        return ['fill', k, int(c), int(i), w] + (['kw'] if rng.uniform() < 0.5 else [])
    if r < 0.52:
        c = int(rng.integers(ctx.crys.Nchem))
        return ['fillbad', k, c, len(ctx.crys.basis[c]) + int(rng.integers(2))] if rng.uniform() < 0.7 else ['fillbad', k, ctx.crys.Nchem, 0]
    if r < 0.60: return ['reorder', k, int(rng.integers(1 << 30))]
    if r < 0.63: return ['reorderbad', k, int(rng.integers(1 << 30)), 'dup' if rng.uniform() < 0.6 else 'range']
    if r < 0.71: return ['imul', k, int(rng.integers(len(ctx.G)))]
    if r < 0.76: return ['mul', k, int(rng.integers(len(ctx.G))), int(rng.integers(NSLOTS)), 'l' if rng.uniform() < 0.5 else 'r']
    if r < 0.82: return ['copy', k, int(rng.integers(NSLOTS))]
    if r < 0.83: return ['fresh', k]
    if r < 0.92:
        flags = []
        if rng.uniform() < 0.4: flags.append('cart')
        for f, p in (('scale', 0.3), ('noise', 0.4), ('shift', 0.3), ('names', 0.4), ('sel', 0.3)):
            if rng.uniform() < p: flags.append(f)
        return ['poscar', k, int(rng.integers(NSLOTS)), '+'.join(flags) if flags else 'plain', bool(rng.uniform() < 0.7), int(rng.integers(1 << 30))]
    if r < 0.94: return ['occpos', k]
    return ['eq', k, int(rng.integers(NSLOTS))]


def run_random(case, mon):
    rng = gen.rng_for(case['seed'], case['idx'], 28)
    sample = None
    for h in range(case['nhist']):
        if h % 3 == 0:
            named = bool(rng.uniform() < 0.6)
            nch = int(rng.integers(1, 3))
            spec = gen.rand_crystal_spec(rng, dim=3, nchem=nch, maxatoms=4)
            crys = gen.make_crystal(spec, chemistry=['Aa', 'Bb'][:len(spec['basis'])]) if named else gen.make_crystal(spec)
            while True:
                S = rng.integers(-2, 3, size=(3, 3))
                det = abs(int(round(np.linalg.det(S))))
                if 1 <= det <= 6 and crys.N * det <= 24 and (crys.N * det >= 2) and np.any(S - np.diag(np.diag(S))): break
            nsol = int(rng.integers(0, 3))
            interstitial = ()
            if crys.Nchem > 1 and rng.uniform() < 0.5: interstitial = (int(rng.integers(crys.Nchem)),)
            elif crys.Nchem == 1 and rng.uniform() < 0.1: interstitial = (0,)
            nosym = bool(rng.uniform() < 0.2)
            try:
                ctx = Ctx(crys, S, interstitial, nsol, nosym, named)
            except Exception as e:
                mon.check(False, 'C28:construct:raises:' + type(e).__name__, 'S=%s interstitial=%s Nsolute=%d NOSYM=%s named=%s: %s' % (
                    S.tolist(), interstitial, nsol, nosym, named, traceback.format_exc()[-800:]), ['random'])
                ctx = None
        if ctx is None: continue
        tags = ['random'] + (['NOSYM'] if ctx.nosym else []) + (['interstitial'] if ctx.interstitial else [])
        events = [rand_event(rng, ctx) for _ in range(200)]
        P = Probe()
        bad = run_history(P, ctx, events, NSLOTS)
        P.count('histories_random')
        P.count('events_random', len(events) if bad is None else bad + 1)
        if bad is not None: report(mon, ctx, P, events, bad, NSLOTS, tags, True)
        P.flush(mon)
        mon.count('histories_nosym', ctx.nosym)
        mon.count('histories_interstitial', bool(ctx.interstitial))
        mon.count('histories_nsolute2', ctx.nsol == 2)
        mon.count('histories_nsolute0', ctx.nsol == 0)
        mon.seen('sites', ctx.nsites)
        mon.seen('group_orders', len(ctx.G))
        mon.sig(['rand', ctx.S.tolist(), ctx.nsol, list(ctx.interstitial), ctx.nosym, zlib.crc32(json.dumps(events).encode())])
        if sample is None: sample = {'setup': ctx.desc, 'first_events': events[:12]}
    return sample


def dim2_probe(mon):
    from onsager import crystal, supercell
    c2 = crystal.Crystal(np.eye(2), [np.zeros(2), np.array([0.5, 0.5])])
    for nosym in (False, True):
        try:
            with warnings.catch_warnings():
                warnings.simplefilter('ignore')
                supercell.Supercell(c2, np.array([[2, 1], [0, 1]]), NOSYM=nosym)
            mon.count('dim2_supercell_constructed')
        except Exception as e:
            mon.count('dim2_supercell_unsupported')
            mon.seen('dim2_supercell_exception', type(e).__name__)


def run_case(case):
    mon = Mon()
    if case['kind'] == 'exh':
        sample = run_exhaustive(case, mon)
    else:
        if case['idx'] == 0: dim2_probe(mon)
        sample = run_random(case, mon)
    return mon.result(sample=sample)
