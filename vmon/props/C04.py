"""C04: results are invariant under reference choices and scale with rates.

Metamorphic monitor: every base call (interstitial diffusivity; vacancy-mediated Lij through the public
preene2betafree route) is re-issued under (i) a common shift of all free energies of one species and of every transition
state that species takes part in, (ii) joint scaling of site and transition prefactors, (iii) co-scaling of energies and
temperature, (iv) scaling of every transition prefactor by f (all coefficients x f), and (v, interstitial) displacement
of the diffusing sites inside the cell with the same lattice-form jumps and the same rate on every jump.
"""
import numpy as np
from vmon import gen, work_vac, work_inter
from vmon.util import Mon

ID = 'C04'
RULE = ('interstitial: random crystals/networks/data (as C02) x relations i,ii,iv,v; vacancy: crystal pool x random '
        'prefactors/energies for every input group x relations i(vacancy),i(solute),ii,iii,iv; non-trivial = every relation '
        'instance (the transformed input differs from the base); distinct = (system, base input, relation)')
ASSUMPTIONS = ['relations (i)-(iv) hold to round-off: tolerance 1e-9 x scale (observed <= 1e-13)',
               '(v) interstitial only, tolerance 1e-9: any displacement of a site inside the cell gives the site a non-zero vector '
               'basis, and for the vacancy calculator that regime is covered by known finding F10; displaced crystals keep the '
               'lattice-form jumps; jumps are re-classified under the (lower) symmetry of the displaced crystal',
               'shifts |c| <= 3, scalings f in [0.2, 5] (interstitial rate scalings also log-uniform in 1e-18..1e3, and base barriers shifted by 0/12/25/40 kT: '
               'absolute rates down to 1e-18), lambda in [0.5, 2]']
REQUIRED_OBS = {'eval:C04:inter:shift': 20, 'eval:C04:inter:prefactor': 20, 'eval:C04:inter:ratescale': 20,
                'eval:C04:inter:displace': 15, 'eval:C04:vac:shiftV:Lss': 10, 'eval:C04:vac:shiftS:Lss': 10,
                'eval:C04:vac:prefactor:Lss': 10, 'eval:C04:vac:kT:Lss': 10, 'eval:C04:vac:ratescale:Lss': 10}
CASE_TIMEOUT = 900
QUICK = [('fcc', 1), ('bcc', 1), ('hcp', 1), ('square', 1), ('honey', 1), ('omega', 1), ('lieb', 1), ('diamond', 1),
         ('dtria', 1), ('fcc', 2)]
THOROUGH = QUICK + [('sc', 1), ('tria', 1), ('rumpled', 1), ('b2', 1), ('kagome', 1), ('l12', 1), ('tet', 1), ('rect', 1),
                    ('bcc', 2), ('square', 2), ('honey', 2), ('hcp', 2)]


def cases(tier, seed):
    pool = QUICK if tier == 'quick' else THOROUGH
    out = [{'kind': 'vac', 'seed': seed, 'idx': ci * 10 + rep, 'name': n, 'Nthermo': t, 'ninputs': 3 if tier == 'quick' else 8,
            'hashseed': (ci + rep) % 3} for ci, (n, t) in enumerate(pool) for rep in range(1 if tier == 'quick' else 2)]
    out += [{'kind': 'inter', 'seed': seed, 'idx': 1000 + i, 'hashseed': i % 3} for i in range(24 if tier == 'quick' else 300)]
    return out


def orbit_classes(crys, chem, jumps):
    """Group lattice-form jumps (i, j, dx) into classes closed under crys.G and reversal (input preparation for the
    displaced crystal; uses the crystal's own operations)."""
    keyed = {}
    for n, (i, j, dx) in enumerate(jumps):
        keyed[n] = (i, j, dx)
    unassigned = set(keyed)
    classes = []
    while unassigned:
        n0 = min(unassigned)
        i0, j0, dx0 = keyed[n0]
        members = set()
        for g in crys.G:
            gi, gj = g.indexmap[chem][i0], g.indexmap[chem][j0]
            gdx = g.cartrot @ dx0
            for (a, b, d) in ((gi, gj, gdx), (gj, gi, -gdx)):
                for n in unassigned:
                    i, j, dx = keyed[n]
                    if i == a and j == b and np.allclose(dx, d, atol=1e-7):
                        members.add(n)
        if n0 not in members: raise ValueError('orbit does not contain its seed')
        classes.append(sorted(members))
        unassigned -= members
    return classes


def run_inter(case, mon):
    from onsager import OnsagerCalc, crystal
    rng = gen.rng_for(case['seed'], case['idx'], 4)
    sample = None
    for k in range(4):
        w = work_inter.draw(rng, maxsites=5, noncentro=0.2)
        if w is None: continue
        crys, chem, sl, jn, N = w['crys'], w['chem'], w['sl'], w['jn'], w['N']
        pre, bE, preT, bET = w['pre'], w['bE'], w['preT'], w['bET']
        if sample is None: sample = w['desc']
        with mon.guard('C04:inter'):
            diff = OnsagerCalc.Interstitial(crys, chem, sl, jn)
            D = diff.diffusivity(pre, bE, preT, bET)
            sc = max(np.abs(D).max(), max(r * np.dot(dx, dx) for jl, rl in zip(jn, diff.ratelist(pre, bE, preT, bET))
                                          for ((i, j), dx), r in zip(jl, rl)) / N)
            dt = lambda: str(w['desc'])
            c = float(rng.uniform(-3, 3))
            mon.close(diff.diffusivity(pre, bE + c, preT, bET + c), D, 1e-9, 'C04:inter:shift', dt, scale=sc)
            f = float(np.exp(rng.uniform(np.log(1e-18), np.log(1e3)))) if rng.uniform() < 0.5 else float(rng.uniform(0.2, 5))
            mon.close(diff.diffusivity(pre * f, bE, preT * f, bET), D, 1e-9, 'C04:inter:prefactor', dt, scale=sc)
            mon.close(diff.diffusivity(pre, bE, preT * f, bET), D * f, 1e-9, 'C04:inter:ratescale', dt, scale=sc * f)
            mon.close(diff.diffusivity(pre, bE, preT, bET - np.log(f)), D * f, 1e-9, 'C04:inter:ratescale-energy', dt, scale=sc * f)
            for r in ('shift', 'prefactor', 'ratescale'): mon.sig(['inter', case['idx'], k, r])
            # (v) displacement of the diffusing sites
            basis2 = [[u.copy() for u in lst] for lst in crys.basis]
            delta = [rng.normal(size=crys.dim) * 0.02 for _ in range(N)]
            for i in range(N): basis2[chem][i] = basis2[chem][i] + delta[i]
            c2 = crystal.Crystal(crys.lattice, basis2, noreduce=True)
            if [len(l) for l in c2.basis] != [len(l) for l in crys.basis]: continue
            # identify atoms of c2 with the intended ones (center() may shift everything by a common vector)
            shift = c2.basis[chem][0] - basis2[chem][0]
            ok = all(np.allclose((c2.basis[chem][i] - basis2[chem][i] - shift + 0.5) % 1 - 0.5, 0, atol=1e-9) for i in range(N))
            if not ok:
                mon.count('displace_skipped_reordered')
                continue
            lat = jn and [(i, j, dx, J) for J, jl in enumerate(jn) for (i, j), dx in jl]
            jumps2 = []
            for (i, j, dx, J) in lat:
                R = np.round(np.linalg.solve(crys.lattice, dx) - crys.basis[chem][j] + crys.basis[chem][i])
                dx2 = crys.lattice @ (crys.basis[chem][j] + delta[j] + R - crys.basis[chem][i] - delta[i])
                jumps2.append((i, j, dx2))
            cls = orbit_classes(c2, chem, jumps2)
            jn2 = [[((jumps2[n][0], jumps2[n][1]), jumps2[n][2]) for n in cl] for cl in cls]
            sl2 = c2.sitelist(chem)
            inv = w['inv']
            pre2 = np.array([pre[inv[s[0]]] for s in sl2])
            bE2 = np.array([bE[inv[s[0]]] for s in sl2])
            preT2 = np.array([preT[lat[cl[0]][3]] for cl in cls])
            bET2 = np.array([bET[lat[cl[0]][3]] for cl in cls])
            consistent = all(len({lat[n][3] for n in cl}) == 1 for cl in cls) and all(len({inv[i] for i in s}) == 1 for s in sl2)
            if not consistent:
                mon.count('displace_skipped_symmetry_increase')
                continue
            diff2 = OnsagerCalc.Interstitial(c2, chem, sl2, jn2)
            D2 = diff2.diffusivity(pre2, bE2, preT2, bET2)
            mon.count('displaced_vector_basis', diff2.NV)
            mon.close(D2, D, 1e-9, 'C04:inter:displace', lambda: 'delta=%s %s' % ([d.tolist() for d in delta], w['desc']), scale=sc)
            mon.sig(['inter', case['idx'], k, 'displace'])
    return sample


def rand_thermodict(rng, diff, sigma):
    nW, nst, n0, n1, n2 = len(diff.sitelist), diff.thermo.Nstars, len(diff.om0_jn), len(diff.om1_jn), len(diff.om2_jn)
    d = {'preV': rng.uniform(0.5, 2, nW), 'eneV': rng.normal(size=nW) * sigma,
         'preS': rng.uniform(0.5, 2, nW), 'eneS': rng.normal(size=nW) * sigma,
         'preSV': rng.uniform(0.5, 2, nst), 'eneSV': rng.normal(size=nst) * sigma,
         'preT0': rng.uniform(0.5, 2, n0), 'eneT0': rng.normal(size=n0) * sigma + 3}
    d.update(diff.makeLIMBpreene(**d))
    d['preT1'] = d['preT1'] * rng.uniform(0.5, 2, n1)
    d['eneT1'] = d['eneT1'] + rng.normal(size=n1) * sigma
    d['preT2'] = d['preT2'] * rng.uniform(0.5, 2, n2)
    d['eneT2'] = d['eneT2'] + rng.normal(size=n2) * sigma
    return d


def run_vac(case, mon):
    rng = gen.rng_for(case['seed'], case['idx'], 4)
    name, nth = case['name'], case['Nthermo']
    diff = work_vac.get_calc(name, nth)
    sample = None
    names = ('L0vv', 'Lss', 'Lsv', 'L1vv')
    for k in range(case['ninputs']):
        sigma = float(rng.choice([0.3, 0.7, 1.2]))
        d = rand_thermodict(rng, diff, sigma)
        kT = float(rng.uniform(0.5, 2))
        desc = {'crystal': name, 'Nthermo': nth, 'kT': kT, 'thermodict': d}
        if sample is None: sample = desc

        def L(dd, kt):
            return [np.array(x) for x in diff.Lij(*diff.preene2betafree(kt, **dd))]
        try:
            base = L(d, kT)
            c = float(rng.uniform(-3, 3))
            f = float(rng.uniform(0.2, 5))
            lam = float(rng.uniform(0.5, 2))
            rel = {}
            dd = dict(d)
            for key in ('eneV', 'eneT0', 'eneT1', 'eneT2'): dd[key] = d[key] + c
            rel['shiftV'] = (L(dd, kT), 1.)
            dd = dict(d)
            for key in ('eneS', 'eneT1', 'eneT2'): dd[key] = d[key] + c
            rel['shiftS'] = (L(dd, kT), 1.)
            dd = dict(d)
            for key in ('preV', 'preT0', 'preT1', 'preT2'): dd[key] = d[key] * f
            rel['prefactor'] = (L(dd, kT), 1.)
            dd = dict(d)
            for key in ('preS', 'preT1', 'preT2'): dd[key] = d[key] * f
            rel['prefactorS'] = (L(dd, kT), 1.)
            dd = {key: (v * lam if key.startswith('ene') else v) for key, v in d.items()}
            rel['kT'] = (L(dd, kT * lam), 1.)
            dd = dict(d)
            for key in ('preT0', 'preT1', 'preT2'): dd[key] = d[key] * f
            rel['ratescale'] = (L(dd, kT), f)
        except Exception as e:
            import traceback
            mon.fail('C04:vac:raises:' + type(e).__name__, traceback.format_exc()[-600:] + str(desc))
            continue
        args = list(diff.preene2betafree(kT, **d))
        tags = work_vac.regime_tags(diff, args)
        sc = max(np.abs(base[0]).max(), np.abs(base[1]).max(), 1e-300)
        for rname, (res, fac) in rel.items():
            for nm, a, b in zip(names, res, base):
                mon.close(a, b * fac, 1e-9, 'C04:vac:%s:%s' % (rname, nm),
                          lambda: 'c=%.3f f=%.3f lambda=%.3f %s' % (c, f, lam, desc), tags, scale=max(sc, np.abs(b).max()) * max(fac, 1))
            mon.sig(['vac', name, nth, k, rname])
    diff.clearcache()
    return sample


def run_case(case):
    mon = Mon()
    sample = run_inter(case, mon) if case['kind'] == 'inter' else run_vac(case, mon)
    return mon.result(sample=sample)
