"""C16: Taylor-expansion arithmetic commutes with evaluation.

Monitor: every arithmetic/structural operation of Taylor3D/Taylor2D (+, -, neg, scalar, ldot/rdot, product,
getitem/setitem, truncate, reduce, separate, constructexpansion, powexp) is run on random expansions and the
result is evaluated from its stored coefficients by an independent evaluator (vmon.ref.taylor) and by the
class's own __call__; both must equal the operation applied to the independently evaluated operands.
Index tables (pow2ind/ind2pow, powlrange, directmult, powercoeff, Ylmpow/powYlm, FCpow/powFC, Lproj) are
checked exhaustively against brute-force references in fresh worker processes for Lmax = 2..6.
"""
import os
import numpy as np
from vmon import gen
from vmon.util import Mon
from vmon.ref import taylor as ref

ID = 'C16'
RULE = ('two case kinds, each in a worker process whose class tables are built for Lmax in 2..6 (default 4 most often): '
        '"tables" = exhaustive check of every index/projection table of Taylor3D or Taylor2D for that Lmax; '
        '"ops" = random expansions: 1-3 radial orders n in -2..4, angular orders chosen so that every product stays '
        'within Lmax, coefficient shapes scalar/vector/matrix (1..3), complex order-one coefficients '
        '(15 % of the trials: all operands real float64), operands also in separated form (duplicate n), evaluation points '
        '0.6<=|u|<=1.6 in generic directions; non-trivial = every trial (at least two terms are combined); '
        'distinct = (dim, Lmax, shape mode, (n,l) lists of the operands)')
ASSUMPTIONS = ['radial functions f_(n,l)(x) = x**n (the multiplicative family required for products)',
               'tolerance 1e-10 x natural scale (sum over terms of |u|^n |monomial| max|coefficient|, multiplied for products)',
               'coefficients have modulus 0.3..2.2, so the class threshold 1e-10 for "zero" is never ambiguous',
               'operands of one operation have the same dtype (all complex128 or all float64); real+complex sums are outside the explored set '
               '(they raise UFuncTypeError in sumcoeff; reported separately)',
               'spherical harmonics reference: scipy.special (Condon-Shortley phase, orthonormal), as in the repository tests',
               'harmonic projectors reference: f = h_d + r^2 f_(d-2), Laplace(h_d)=0 solved in the monomial basis',
               'table tolerance 1e-10 x max|table entry|']
REQUIRED_OBS = {'eval:C16:sum': 2000, 'eval:C16:scalar': 1000, 'eval:C16:product': 500, 'eval:C16:ldot-rdot': 800,
                'eval:C16:getitem': 600, 'eval:C16:setitem': 100, 'eval:C16:truncate': 1000, 'eval:C16:reduce': 800,
                'eval:C16:reduce-canonical': 1500, 'eval:C16:separate': 800, 'eval:C16:separate-pure': 200,
                'eval:C16:construct': 500, 'eval:C16:call': 7000, 'eval:C16:call-dict': 300, 'eval:C16:powexp': 400,
                'eval:C16:operands-unchanged': 300, 'eval:C16:layout': 7000,
                # table monitors: one evaluation per (dimension, Lmax) -- all ten table cases must have run
                'eval:C16:table:counts': 10, 'eval:C16:table:pow-bijection': 10, 'eval:C16:table:powlrange': 10,
                'eval:C16:table:directmult': 10, 'eval:C16:table:powercoeff': 10, 'eval:C16:table:Lproj': 10,
                'eval:C16:table:Lproj-support': 10, 'eval:C16:table:Lproj-idempotent': 20, 'eval:C16:table:Lproj-complete': 20,
                'eval:C16:table:Ylmpow': 5, 'eval:C16:table:powYlm': 5, 'eval:C16:table:Ylm-inverse': 5,
                'eval:C16:table:FCpow': 5, 'eval:C16:table:powFC': 5, 'eval:C16:table:FC-inverse': 5,
                'tables_3d': 5, 'tables_2d': 5, 'trials_3d': 100, 'trials_2d': 100,
                'separated_operands_with_duplicate_n': 80, 'real_dtype_trials': 15, 'reduce_lowered_l': 50, 'reduce_deleted_term': 40, 'reduce_duplicate_n': 40, 'products_at_Lmax': 50}
CASE_TIMEOUT = 300
LIMITS = ('expansions that mix real and complex coefficient arrays in one sum, products whose angular order exceeds Lmax, '
          'evaluation at |u|<1e-8 (direction undefined), HDF5 round trips and addterms are not explored')
TOL = 1e-10
ENVKEY = 'VMON_TAYLOR_LMAX'
LMAXES = (2, 3, 4, 5, 6)
PROBE_MIXED_DTYPE = True   # real + complex operands: raises on the unchanged tree (reported as a finding)


def cases(tier, seed):
    cs = []

    def add(kind, L, **kw):
        d = {'seed': seed, 'idx': len(cs), 'kind': kind, 'Lmax': L, 'hashseed': 0, 'env': {ENVKEY: str(L)}}
        d.update(kw)
        cs.append(d)

    for L in LMAXES:
        for dim in (3, 2):
            add('tables', L, dim=dim)
    nops = 40 if tier == 'quick' else 2500
    for i in range(nops):
        L = 4 if i % 2 == 0 else (2, 3, 5, 6)[(i // 2) % 4]
        add('ops', L, trials=(10 if tier == 'quick' else 16))
    return cs


# ------------------------------------------------------------------------------------------ helpers

class Ctx:
    def __init__(self, mon, T, dim, L, rng):
        self.mon, self.T, self.dim, self.L, self.rng = mon, T, dim, L, rng
        self.I2P = [tuple(int(x) for x in t) for t in T.ind2pow]
        self.PLR = [int(x) for x in T.powlrange]
        self.index = {t: i for i, t in enumerate(self.I2P)}
        self.desc = ''

    def A(self, raw, u, shape):
        return ref.evaluate(raw, u, self.I2P, self.PLR, shape=shape)

    def mag(self, raw, u):
        return ref.magnitude(raw, u, self.I2P, self.PLR)


def class_call(t, u, numeric):
    r = float(np.linalg.norm(u))
    if numeric:
        fnu = {(n, l): r ** n for (n, l, c) in t.coefflist}
    else:
        fnu = {(n, l): (lambda x, n=n: x ** n) for (n, l, c) in t.coefflist}
    return t(np.array(u, dtype=float), fnu)


def dot(A, B):
    A, B = np.asarray(A), np.asarray(B)
    if A.ndim == 0 or B.ndim == 0:
        return A * B
    return np.tensordot(A, B, axes=1)


def cmp_at(ctx, clause, t, expected, u, scale, extra=''):
    """result expansion t evaluated (independently and by __call__) at u against the expected value."""
    mon = ctx.mon
    clause = 'C16:' + clause
    detail = lambda: '%s %s u=%s' % (ctx.desc, extra, np.asarray(u).tolist())
    cl = getattr(t, 'coefflist', t)
    prob = ref.check_layout(cl, ctx.PLR)
    if not mon.check(prob is None, 'C16:layout', lambda: '%s: %s %s' % (clause, prob, detail())):
        return
    expected = np.asarray(expected)
    try:
        v = ref.evaluate(cl, u, ctx.I2P, ctx.PLR, shape=expected.shape)
    except Exception as e:
        mon.check(False, clause, 'stored coefficients cannot be evaluated (%s: %s) %s' % (type(e).__name__, e, detail()))
        return
    scale = max(float(scale), 1e-3)
    mon.close(v, expected, TOL, clause, detail, scale=scale)
    if hasattr(t, 'coefflist'):
        with mon.guard('C16:call'):
            vc = np.asarray(class_call(t, u, bool(ctx.rng.integers(2))), dtype=complex)
            if len(cl) == 0 and vc.shape == ():  # the empty expansion evaluates to the number 0
                vc = vc + np.zeros(expected.shape)
            mon.close(vc, expected, TOL, 'C16:call', lambda: clause + ' ' + detail(), scale=scale)


def snapshot(raw):
    return [(n, l, c.copy()) for n, l, c in raw]


def unchanged(t, raw):
    cl = t.coefflist
    return len(cl) == len(raw) and all(a[0] == b[0] and a[1] == b[1] and a[2].shape == b[2].shape and
                                       np.array_equal(a[2], b[2]) for a, b in zip(cl, raw))


_PREF = {}


def pref(ctx):
    key = (ctx.dim, ctx.L)
    if key not in _PREF:
        _PREF[key] = ref.harmonic_projectors(ctx.I2P, ctx.L)
    return _PREF[key]


# ------------------------------------------------------------------------------------------ tables

def check_tables(ctx):
    mon, T, dim, L = ctx.mon, ctx.T, ctx.dim, ctx.L
    I2P, PLR, rng = ctx.I2P, ctx.PLR, ctx.rng
    tag = '%dD Lmax=%d' % (dim, L)
    mon.count('tables_%dd' % dim)
    mon.seen('table_lmax_%dd' % dim, L)
    allp = ref.all_powers(dim, L)
    N = len(allp)
    mon.check(T.Lmax == L and T.Npower == N and len(I2P) == N, 'C16:table:counts', '%s Npower=%s expected %d' % (tag, T.Npower, N))
    # bijection powers <-> indices, ordered by degree, powlrange = cumulative counts
    ok = sorted(I2P) == sorted(allp)
    bad = [t for i, t in enumerate(I2P) if int(T.pow2ind[t]) != i]
    mon.check(ok and not bad, 'C16:table:pow-bijection', '%s ind2pow not a bijection onto degree<=Lmax or pow2ind!=inverse %s' % (tag, bad[:3]))
    deg = [sum(t) for t in I2P]
    mon.check(all(deg[i] <= deg[i + 1] for i in range(N - 1)), 'C16:table:pow-order', tag + ' powers not ordered by degree')
    cum = [sum(1 for d in deg if d <= l) for l in range(L + 1)]
    mon.check(len(PLR) == L + 2 and PLR[:L + 1] == cum and PLR[-1] == 0, 'C16:table:powlrange', '%s %s vs %s' % (tag, PLR, cum))
    # directmult: exhaustively
    index = {t: i for i, t in enumerate(allp)}  # independent of the class order: compare exponents
    bad = []
    for p0 in range(N):
        for p1 in range(N):
            s = tuple(a + b for a, b in zip(I2P[p0], I2P[p1]))
            d = int(T.directmult[p0, p1])
            if sum(s) <= L:
                if not (0 <= d < N and I2P[d] == s): bad.append((I2P[p0], I2P[p1], d))
    mon.check(not bad, 'C16:table:directmult', '%s wrong product index for %s' % (tag, bad[:3]))
    # powercoeff: multinomials
    pc = np.zeros((L + 1, N))
    for p, t in enumerate(I2P):
        pc[sum(t), p] = ref.multinomial(t)
    mon.check(T.powercoeff.shape == pc.shape and np.array_equal(T.powercoeff, pc), 'C16:table:powercoeff',
              lambda: '%s differs at %s' % (tag, np.argwhere(T.powercoeff != pc)[:3].tolist()))
    # sample points
    K = 3 * N + 5
    pts = [ref.rand_unit(rng, dim) for _ in range(K)]
    V = np.array([ref.monomials(p, I2P) for p in pts])  # K x Npower
    if dim == 3:
        NY = (L + 1) ** 2
        lms = [(l, m) for l in range(L + 1) for m in range(-l, l + 1)]
        i2y = [tuple(int(x) for x in r) for r in T.ind2Ylm]
        okb = T.NYlm == NY and sorted(i2y) == sorted(lms) and all(int(T.Ylm2ind[l, m]) == i for i, (l, m) in enumerate(i2y))
        mon.check(okb, 'C16:table:Ylm-bijection', tag)
        if not okb: return
        Yref = np.array([[ref.Ylm(l, m, p) for p in pts] for (l, m) in i2y])  # NYlm x K
        sc = float(np.max(np.abs(T.Ylmpow)))
        mon.close(T.Ylmpow @ V.T, Yref, TOL, 'C16:table:Ylmpow', tag, scale=sc)
        sc2 = float(np.max(np.abs(T.powYlm)))
        mon.close(T.powYlm @ Yref, V.T.astype(complex), TOL, 'C16:table:powYlm', tag, scale=sc2)
        mon.close(T.Ylmpow @ T.powYlm, np.eye(NY, dtype=complex), TOL, 'C16:table:Ylm-inverse', tag, scale=sc * sc2)
        back = (T.powYlm @ T.Ylmpow).T
    else:
        NF = 2 * L + 1
        i2f = [int(x) for x in T.ind2FC]
        okb = T.NFC == NF and sorted(i2f) == list(range(-L, L + 1)) and all(int(T.FC2ind[l]) == i for i, l in enumerate(i2f))
        mon.check(okb, 'C16:table:FC-bijection', tag)
        if not okb: return
        th = np.array([np.arctan2(p[1], p[0]) for p in pts])
        Eref = np.array([np.exp(1j * l * th) for l in i2f])
        sc = float(np.max(np.abs(T.FCpow)))
        mon.close(T.FCpow @ V.T, Eref, TOL, 'C16:table:FCpow', tag, scale=sc)
        sc2 = float(np.max(np.abs(T.powFC)))
        mon.close(T.powFC @ Eref, V.T.astype(complex), TOL, 'C16:table:powFC', tag, scale=sc2)
        mon.close(T.FCpow @ T.powFC, np.eye(NF, dtype=complex), TOL, 'C16:table:FC-inverse', tag, scale=sc * sc2)
        back = (T.powFC @ T.FCpow).T
    # projectors
    P = pref(ctx)
    LP = np.asarray(T.Lproj)
    scp = max(float(np.max(np.abs(P))), float(np.max(np.abs(np.asarray(T.Lproj)))))
    if mon.check(LP.shape == P.shape, 'C16:table:Lproj-shape', '%s %s vs %s' % (tag, LP.shape, P.shape)):
        # same functions on the sphere as the reference projectors (the class stores Y_lm with lower-degree monomials of
        # the same parity instead of powers of r^2, so coefficients are compared through evaluation at >= 3 Npower points)
        VP = np.array([V @ P[l] for l in range(L + 2)])
        VL = np.array([V @ LP[l] for l in range(L + 2)])
        mon.close(VL, VP, TOL, 'C16:table:Lproj', lambda: '%s first difference at (l, point, power) %s' % (tag, np.argwhere(np.abs(VL - VP) > 1e-9)[:3].tolist()),
                  scale=scp)
        # P_l maps into polynomials of degree <= l (separate() truncates the rows above)
        worst = max(float(np.max(np.abs(LP[l][PLR[l]:, :]))) if PLR[l] < N else 0. for l in range(L + 1))
        mon.check(worst <= TOL * scp, 'C16:table:Lproj-support', '%s P_l has weight %.2e on monomials of degree > l' % (tag, worst))
        mon.close(back.real, LP[-1], TOL, 'C16:table:Lproj-from-tables', tag + ' pow->harmonic->pow differs from Lproj[-1]', scale=scp)
        mon.close(back.imag, np.zeros_like(LP[-1]), TOL, 'C16:table:Lproj-from-tables', tag + ' imaginary part', scale=scp)
        worst = 0.
        for l in range(L + 1):
            for l2 in range(L + 1):
                worst = max(worst, float(np.max(np.abs(LP[l] @ LP[l2] - (LP[l] if l == l2 else 0)))))
        mon.check(worst <= TOL * scp * scp * N, 'C16:table:Lproj-idempotent', '%s worst |P_l P_l2 - delta P_l| = %.2e' % (tag, worst))
        mon.close(LP[:L + 1].sum(axis=0), LP[-1], TOL, 'C16:table:Lproj-complete', tag + ' sum_l P_l != P_-1', scale=scp)
        # completeness on the sphere: (P_-1 c).mon(u) == c.mon(u) for every c
        mon.close(V @ LP[-1], V, TOL, 'C16:table:Lproj-complete', tag + ' projection changes the function on the sphere', scale=scp)
        mon.check(float(np.max(np.abs(LP[-1] @ LP[-1] - LP[-1]))) <= TOL * scp * scp * N, 'C16:table:Lproj-idempotent', tag + ' P_-1')


# ------------------------------------------------------------------------------------------ random operations

def rand_scalar(rng):
    k = int(rng.integers(5))
    x = float(rng.uniform(0.4, 2.) * rng.choice([-1, 1]))
    if k == 0: return x
    if k == 1: return complex(x, float(rng.uniform(0.4, 2.)))
    if k == 2: return int(rng.integers(2, 5))
    if k == 3: return np.float64(x)
    return np.complex128(complex(x, -0.7))


def trial_ops(ctx):
    mon, T, dim, L, rng = ctx.mon, ctx.T, ctx.dim, ctx.L, ctx.rng
    I2P, PLR = ctx.I2P, ctx.PLR
    mon.count('trials_%dd' % dim)
    k, m, j, q = (int(x) for x in rng.integers(1, 4, size=4))
    mode = ['ss', 'sm', 'ms', 'mm', 'mm', 'mv', 'vv', 'vm'][int(rng.integers(8))]
    sa, sc = {'ss': ((), ()), 'sm': ((), (k, m)), 'ms': ((k, m), ()), 'mm': ((k, m), (m, j)), 'mv': ((k, m), (m,)),
              'vv': ((m,), (m,)), 'vm': ((m,), (m, j))}[mode]
    la = int(rng.integers(0, L + 1))
    lc = int(rng.integers(0, L - la + 1))
    if rng.uniform() < 0.35: lc = L - la  # products that reach Lmax exactly
    ld = int(rng.integers(0, L - la - lc + 1))
    nla = ref.rand_nl(rng, L, la)
    nla[-1] = (nla[-1][0], la)
    nlc = ref.rand_nl(rng, L, lc)
    nlc[-1] = (nlc[-1][0], lc)
    nl2 = ref.rand_nl(rng, L, L)
    if rng.uniform() < 0.5:  # make the second summand overlap the first in at least one n with a different l
        nl2 = sorted(set([(nla[0][0], int(rng.integers(0, L + 1)))] + [x for x in nl2 if x[0] != nla[0][0]]))
    nl3 = ref.rand_nl(rng, L, L)
    real = bool(rng.uniform() < 0.15)  # all operands of the trial real-valued (float64 arrays) instead of complex
    if real: mon.count('real_dtype_trials')
    a_raw = ref.rand_coefflist(rng, PLR, nla, sa, real)
    a2_raw = ref.rand_coefflist(rng, PLR, nl2, sa, real)
    a3_raw = ref.rand_coefflist(rng, PLR, nl3, sa, real)
    c_raw = ref.rand_coefflist(rng, PLR, nlc, sc, real)
    ctx.desc = '%dD Lmax=%d mode=%s%s a=%s%s a2=%s c=%s%s' % (dim, L, mode, ' real' if real else '', nla, sa, nl2, nlc, sc)
    mon.sig([dim, L, mode, nla, nlc, nl2])
    mon.seen('shape_modes', mode)
    a, a2, a3, c = T(a_raw), T(a2_raw), T(a3_raw), T(c_raw)
    mon.check(unchanged(a, a_raw) and all(x[2] is not y[2] for x, y in zip(a.coefflist, a_raw)), 'C16:construct-copy',
              ctx.desc + ' constructor did not deep-copy')
    us = [ref.rand_point(rng, dim) for _ in range(2)]
    ev = lambda raw, u, shape=sa: ctx.A(raw, u, shape)

    # the class evaluates its own operands like the reference (dictionary mode as well)
    with mon.guard('C16:call'):
        for u in us[:1]:
            cmp_at(ctx, 'operand', a, ev(a_raw, u), u, ctx.mag(a_raw, u))
            dct = a(np.array(u), None)
            ang = ref.angular(a_raw, u / np.linalg.norm(u), I2P, PLR, shape=sa)
            okd = sorted(dct.keys()) == sorted((n, l) for n, l, _ in a_raw)
            mon.check(okd, 'C16:call-dict', ctx.desc + ' keys %s' % sorted(dct.keys()))
            if okd:
                for n, l, _ in a_raw:
                    mon.close(np.asarray(dct[(n, l)], dtype=complex), ang[n], TOL, 'C16:call-dict', ctx.desc,
                              scale=ctx.mag([x for x in a_raw if x[0] == n], u / np.linalg.norm(u)))
        with mon.guard('C16:nl'):
            mon.check(list(a.nl()) == sorted((n, l) for n, l, _ in a_raw), 'C16:nl', ctx.desc)

    # powexp
    with mon.guard('C16:powexp'):
        u = us[0]
        pw, r = T.powexp(np.array(u))
        mon.close(pw, ref.monomials(u / np.linalg.norm(u), I2P), TOL, 'C16:powexp', ctx.desc)
        mon.close(r, np.linalg.norm(u), TOL, 'C16:powexp', ctx.desc)
        mon.close(T.powexp(np.array(u), normalize=False), ref.monomials(u, I2P), TOL, 'C16:powexp', ctx.desc,
                  scale=max(1., np.linalg.norm(u) ** L))
        mon.check(np.array_equal(u, us[0]), 'C16:powexp', 'powexp modified its argument')

    # ---- sums, differences, negation, scalars
    with mon.guard('C16:sum'):
        res = [('a+a2', a + a2, 1, 1), ('a-a2', a - a2, 1, -1), ('a2+a', a2 + a, 1, 1), ('a2-a', a2 - a, -1, 1)]
        t = a.copy(); t0 = t; t += a2
        mon.check(t is t0, 'C16:sum', 'iadd does not return self')
        res.append(('a+=a2', t, 1, 1))
        t = a.copy(); t -= a2
        res.append(('a-=a2', t, 1, -1))
        e = T([]) + a2
        res.append(('empty+a2', e, 0, 1))
        res.append(('a+empty', a + T([]), 1, 0))
        # an empty LEFT operand with a non-trivial weight on the right one: difference, reduced exact cancellation, in place, weighted sums
        res.append(('empty-a2', T([]) - a2, 0, -1))
        res.append(('(a-a).reduce()-a2', (a - a).reduce() - a2, 0, -1))
        res.append(('a-empty', a - T([]), 1, 0))
        t = T([]); t -= a2
        res.append(('empty-=a2', t, 0, -1))
        al, be = float(rng.uniform(0.4, 2.) * rng.choice([-1, 1])), float(rng.uniform(0.4, 2.) * rng.choice([-1, 1]))  # real weights (mixed dtypes: F18)
        for nm, lhs, rhs, w1, w2 in (('sumcoeff(empty,a2)', [], a2.coefflist, 0, be), ('sumcoeff(a,empty)', a.coefflist, [], al, 0),
                                     ('sumcoeff(a,a2)', a.coefflist, a2.coefflist, al, be)):
            res.append(('%s alpha=%r beta=%r' % (nm, al, be), T(T.sumcoeff(lhs, rhs, al, be)), w1, w2))
        mon.count('empty_left_operand_ops', 3)
        for name, t, s1, s2 in res:
            for u in us:
                cmp_at(ctx, 'sum', t, s1 * ev(a_raw, u) + s2 * ev(a2_raw, u), u, ctx.mag(a_raw, u) + ctx.mag(a2_raw, u), name)
        t = sum([a, a2, a3])
        for u in us:
            cmp_at(ctx, 'sum', t, ev(a_raw, u) + ev(a2_raw, u) + ev(a3_raw, u), u,
                   ctx.mag(a_raw, u) + ctx.mag(a2_raw, u) + ctx.mag(a3_raw, u), 'sum([a,a2,a3])')
        arr = np.asarray(ref.rand_array(rng, sa, real))
        for name, t, s in (('a+array', a + arr, 1), ('a-array', a - arr, -1)):
            for u in us:
                cmp_at(ctx, 'sum', t, ev(a_raw, u) + s * arr, u, ctx.mag(a_raw, u) + 3., name)
    with mon.guard('C16:scalar'):
        s = rand_scalar(rng)
        res = [('-a', -a, -1), ('+a', +a, 1), ('a*s', a * s, s)]
        if not isinstance(s, np.generic):
            res.append(('s*a', s * a, s))
        for name, t, f in res:
            for u in us:
                cmp_at(ctx, 'scalar', t, f * ev(a_raw, u), u, abs(f) * ctx.mag(a_raw, u), '%s s=%r' % (name, s))
        sd = {(n, l): rand_scalar(rng) for n, l in nla}
        scaled = [(n, l, sd[(n, l)] * cc) for n, l, cc in a_raw]
        for name, t in (('a*dict', a * sd), ('a.ldot(dict of numbers)', a.ldot(sd))):
            for u in us:
                cmp_at(ctx, 'scalar', t, ev(scaled, u), u, ctx.mag(scaled, u), name)

    # ---- ldot / rdot
    if len(sa) >= 1:
        with mon.guard('C16:ldot-rdot'):
            Cl = ref.rand_array(rng, (q, sa[0]))
            Cr = ref.rand_array(rng, (sa[-1], q))
            t3 = a.copy(); t3.ildot(Cl)
            t4 = a.copy(); t4.irdot(Cr)
            dl = {(n, l): ref.rand_array(rng, (q, sa[0])) for n, l in nla}
            dleft = [(n, l, np.array([np.tensordot(dl[(n, l)], cc[p], axes=1) for p in range(cc.shape[0])])) for n, l, cc in a_raw]
            for u in us:
                Au = ev(a_raw, u)
                cmp_at(ctx, 'ldot-rdot', a.ldot(Cl), np.tensordot(Cl, Au, axes=1), u, ctx.mag(a_raw, u) * 2.2 * sa[0], 'ldot')
                cmp_at(ctx, 'ldot-rdot', a.rdot(Cr), np.tensordot(Au, Cr, axes=1), u, ctx.mag(a_raw, u) * 2.2 * sa[-1], 'rdot')
                cmp_at(ctx, 'ldot-rdot', t3, np.tensordot(Cl, Au, axes=1), u, ctx.mag(a_raw, u) * 2.2 * sa[0], 'ildot')
                cmp_at(ctx, 'ldot-rdot', t4, np.tensordot(Au, Cr, axes=1), u, ctx.mag(a_raw, u) * 2.2 * sa[-1], 'irdot')
                cmp_at(ctx, 'ldot-rdot', a.ldot(dl), ev(dleft, u, (q,) + sa[1:]), u, ctx.mag(a_raw, u) * 2.2 * sa[0], 'ldot(dict)')
                cmp_at(ctx, 'ldot-rdot', a.ldot(2.5), 2.5 * Au, u, ctx.mag(a_raw, u) * 2.5, 'ldot(number)')

    # ---- products
    inner = sa[-1] if (len(sa) and len(sc)) else 1
    ac = None
    with mon.guard('C16:product'):
        ac = a * c
        if la + lc == L: mon.count('products_at_Lmax')
        mon.note_max('product_l', la + lc)
        for u in us:
            cmp_at(ctx, 'product', ac, dot(ev(a_raw, u), ev(c_raw, u, sc)), u, ctx.mag(a_raw, u) * ctx.mag(c_raw, u) * inner, 'a*c')
        cmp_at(ctx, 'product', a * T([]), np.zeros(()), us[0], 1., 'a*empty')
        # third factor
        sac = np.shape(dot(np.zeros(sa), np.zeros(sc)))
        sd_ = () if (not sac or rng.uniform() < 0.4) else (sac[-1], q)
        nld = ref.rand_nl(rng, L, ld)
        d_raw = ref.rand_coefflist(rng, PLR, nld, sd_, real)
        d = T(d_raw)
        inner2 = sac[-1] if (len(sac) and len(sd_)) else 1
        acd = ac * d
        a_cd = a * (c * d) if (sd_ == () or sc == () or len(sc) == 2) else None  # (c*d) needs compatible shapes on its own
        for u in us[:1]:
            exp3 = dot(dot(ev(a_raw, u), ev(c_raw, u, sc)), ev(d_raw, u, sd_))
            sc3 = ctx.mag(a_raw, u) * ctx.mag(c_raw, u) * ctx.mag(d_raw, u) * inner * inner2
            cmp_at(ctx, 'product', acd, exp3, u, sc3, '(a*c)*d d=%s%s' % (nld, sd_))
            if a_cd is not None:
                cmp_at(ctx, 'product', a_cd, exp3, u, sc3, 'a*(c*d) d=%s%s' % (nld, sd_))

    # ---- operands in separated form (several entries with the same n, as left behind by separate())
    with mon.guard('C16:separated-operands'):
        asep, a2sep, csep = T(a_raw).reduce().separate(), T(a2_raw).reduce().separate(), T(c_raw).reduce().separate()
        ndup = max(len(asep.coefflist) - len(set(x[0] for x in asep.coefflist)), len(csep.coefflist) - len(set(x[0] for x in csep.coefflist)))
        if ndup > 0: mon.count('separated_operands_with_duplicate_n')
        tt = a2sep.copy(); tt += asep
        for u in us[:1]:
            sA, sA2, sC = ev(a_raw, u), ev(a2_raw, u), ev(c_raw, u, sc)
            ssum = ctx.mag(a_raw, u) + ctx.mag(a2_raw, u)
            cmp_at(ctx, 'sum', asep + a2sep, sA + sA2, u, ssum, 'separated a+a2')
            cmp_at(ctx, 'sum', asep - a2sep, sA - sA2, u, ssum, 'separated a-a2')
            cmp_at(ctx, 'sum', tt, sA + sA2, u, ssum, 'separated a2+=a')
            cmp_at(ctx, 'sum', (asep + a2sep).reduce(), sA + sA2, u, ssum, 'separated (a+a2).reduce()')
            cmp_at(ctx, 'product', asep * csep, dot(sA, sC), u, ctx.mag(a_raw, u) * ctx.mag(c_raw, u) * inner, 'separated a*c')
            cmp_at(ctx, 'product', (asep * csep).reduce().separate(), dot(sA, sC), u, ctx.mag(a_raw, u) * ctx.mag(c_raw, u) * inner,
                   'separated (a*c).reduce().separate()')

    # ---- indexing and slicing
    if len(sa) >= 1:
        with mon.guard('C16:getitem'):
            keys = [int(rng.integers(sa[0])), slice(0, max(1, sa[0] - 1))]
            if len(sa) == 2:
                keys += [(int(rng.integers(sa[0])), int(rng.integers(sa[1]))), (slice(None), int(rng.integers(sa[1]))),
                         (slice(0, 1), slice(None)), (Ellipsis, 0)]
            for key in keys:
                t = a[key]
                for u in us[:1]:
                    cmp_at(ctx, 'getitem', t, ev(a_raw, u)[key], u, ctx.mag(a_raw, u), 'key=%r' % (key,))
                t2 = a[key].copy().reduce()
                cmp_at(ctx, 'getitem', t2, ev(a_raw, us[0])[key], us[0], ctx.mag(a_raw, us[0]), 'key=%r copy().reduce()' % (key,))
        with mon.guard('C16:setitem'):
            nmin, nmax = min(n for n, l in nla) - int(rng.integers(2)), max(n for n, l in nla) + int(rng.integers(2))
            big = tuple(x + int(rng.integers(0, 2)) for x in sa)
            z = T.zeros(nmin, nmax, big)
            off = tuple(int(rng.integers(0, b - s + 1)) for b, s in zip(big, sa))
            key = tuple(slice(o, o + s) for o, s in zip(off, sa))
            z[key if len(key) > 1 else key[0]] = a
            for u in us[:1]:
                Z = np.zeros(big, dtype=complex)
                Z[key] = ev(a_raw, u)
                cmp_at(ctx, 'setitem', z, Z, u, ctx.mag(a_raw, u), 'zeros(%d,%d,%s)[%s]=a' % (nmin, nmax, big, key))
                zr = z.copy().reduce()
                cmp_at(ctx, 'setitem', zr, Z, u, ctx.mag(a_raw, u), 'zeros[...]=a then reduce')

    # ---- truncate
    with mon.guard('C16:truncate'):
        src_raw = snapshot(ac.coefflist) if ac is not None else a_raw
        src = T(src_raw)
        ns = sorted(set(n for n, l, cc in src_raw))
        for N in (ns[int(rng.integers(len(ns)))], ns[0] - 1, ns[-1]):
            kept = [x for x in src_raw if x[0] <= N]
            t = src.truncate(N)
            t2 = src.copy(); r2 = t2.truncate(N, inplace=True)
            mon.check(r2 is t2, 'C16:truncate', 'inplace truncate does not return self')
            mon.check(all(n <= N for n, l, cc in t.coefflist) and sorted(n for n, l, cc in t.coefflist) == sorted(x[0] for x in kept),
                      'C16:truncate', lambda: '%s N=%d kept orders %s' % (ctx.desc, N, [x[0] for x in t.coefflist]))
            for u in us[:1]:
                shape = src_raw[0][2].shape[1:]
                cmp_at(ctx, 'truncate', t, ev(kept, u, shape), u, ctx.mag(src_raw, u), 'N=%d' % N)
                cmp_at(ctx, 'truncate', t2, ev(kept, u, shape), u, ctx.mag(src_raw, u), 'N=%d inplace' % N)
        mon.check(unchanged(src, src_raw), 'C16:operands-unchanged', ctx.desc + ' truncate modified its operand')

    # ---- reduce / separate
    P = pref(ctx)
    Npow = len(I2P)
    sep_inputs = []
    with mon.guard('C16:reduce'):
        inputs = []
        if ac is not None:
            inputs.append(('product', snapshot(ac.coefflist)))
        # lifted terms: r^2 g stored at order l (function on the sphere has order l-2), a vanishing term, duplicates of n
        lifted = []
        for n in (0, 1, 2, 3):
            l = int(rng.integers(0, L + 1))
            if l >= 2 and rng.uniform() < 0.7:
                g = ref.rand_array(rng, (PLR[l - 2],) + sa)
                cc = ref.lift_r2(g, I2P, PLR[l])
                if n == 3 or rng.uniform() < 0.3:
                    cc[:PLR[l - 2]] -= g  # r^2 g - g == 0 on the sphere
                elif rng.uniform() < 0.5:
                    cc = cc + ref.pad_rows(ref.rand_array(rng, (PLR[l - 1],) + sa), PLR[l])
                lifted.append((n, l, cc))
            else:
                lifted.append((n, l, ref.rand_array(rng, (PLR[l],) + sa)))
        if rng.uniform() < 0.6:  # a second entry with an order n that is already present (as left behind by separate())
            lifted.append((lifted[0][0], int(rng.integers(0, L + 1)), None))
            lifted[-1] = lifted[-1][:2] + (ref.rand_array(rng, (PLR[lifted[-1][1]],) + sa),)
            mon.count('reduce_duplicate_n')
        inputs.append(('lifted', lifted))
        for name, raw in inputs:
            shape = raw[0][2].shape[1:]
            t = T(raw)
            r = t.reduce()
            mon.check(r is t, 'C16:reduce', 'reduce does not return self')
            for u in us:
                cmp_at(ctx, 'reduce', t, ev(raw, u, shape), u, ctx.mag(raw, u), name)
            # canonical form: one entry per n, deleted iff the angular function vanishes, minimal l, and the stored
            # coefficients depend only on the function (a different representation of the same function reduces identically)
            summed = {}
            for n, l, cc in raw:
                summed[n] = summed.get(n, 0) + ref.pad_rows(cc, Npow)
            scl = max(float(np.max(np.abs(cc))) for n, l, cc in raw) * 3
            harm = {n: np.array([np.tensordot(P[l], v, axes=1) for l in range(L + 1)]) for n, v in summed.items()}
            lexp = {}
            for n, h in harm.items():
                ls = [l for l in range(L + 1) if np.max(np.abs(h[l])) > 1e-7 * scl]
                if ls: lexp[n] = max(ls)
            got = {}
            dup = False
            for n, l, cc in t.coefflist:
                dup = dup or n in got
                got[n] = l
            mon.check((not dup) and got == lexp, 'C16:reduce-canonical',
                      lambda: '%s %s (n,l) after reduce %s expected %s' % (ctx.desc, name, [x[:2] for x in t.coefflist], sorted(lexp.items())))
            for n in lexp:
                lin = max(l for nn, l, cc in raw if nn == n)
                if lexp[n] < lin: mon.count('reduce_lowered_l')
            if len(lexp) < len(summed): mon.count('reduce_deleted_term')
            alt = [(n, lexp[n], harm[n].sum(axis=0)[:PLR[lexp[n]]]) for n in sorted(lexp)]  # homogeneous harmonic representation
            talt = T(alt).reduce()
            okalt = [x[:2] for x in talt.coefflist] == [x[:2] for x in t.coefflist]
            mon.check(okalt, 'C16:reduce-canonical', lambda: '%s %s other representation reduces to %s, original to %s' % (
                ctx.desc, name, [x[:2] for x in talt.coefflist], [x[:2] for x in t.coefflist]))
            if okalt:
                for x, y in zip(talt.coefflist, t.coefflist):
                    mon.close(x[2], y[2], TOL, 'C16:reduce-canonical', lambda: '%s %s n=%d two representations of one function reduce differently' % (ctx.desc, name, x[0]), scale=scl)
            # idempotent
            before = snapshot(t.coefflist)
            t.reduce()
            mon.check(len(before) == len(t.coefflist) and all(x[:2] == y[:2] and np.allclose(x[2], y[2], atol=1e-9 * scl, rtol=0)
                                                              for x, y in zip(before, t.coefflist)),
                      'C16:reduce-canonical', ctx.desc + ' reduce not idempotent')
            sep_inputs.append((name, raw, shape, snapshot(t.coefflist), scl))
    with mon.guard('C16:separate'):
        for name, raw, shape, red, scl in sep_inputs:
            t = T(red)
            r = t.separate()
            mon.check(r is t, 'C16:separate', 'separate does not return self')
            for u in us:
                cmp_at(ctx, 'separate', t, ev(raw, u, shape), u, ctx.mag(raw, u), name)
            nls = [(n, l) for n, l, cc in t.coefflist]
            mon.check(len(set(nls)) == len(nls), 'C16:separate', lambda: '%s duplicate (n,l) after separate: %s' % (ctx.desc, nls))
            mon.note_max('separate_terms', len(nls))
            # every (n,l) entry is a pure-l function on the sphere: its harmonic components of other orders vanish
            worst = 0.
            for n, l, cc in t.coefflist:
                v = ref.pad_rows(cc, Npow)
                for l2 in range(L + 1):
                    if l2 != l: worst = max(worst, float(np.max(np.abs(np.tensordot(P[l2], v, axes=1)))))
            mon.check(worst <= 1e-9 * scl, 'C16:separate-pure', lambda: '%s %s entries not pure-l harmonics: %.2e' % (ctx.desc, name, worst))
            # separate then reduce gives the reduced form back
            t.reduce()
            for u in us[:1]:
                cmp_at(ctx, 'reduce', t, ev(raw, u, shape), u, ctx.mag(raw, u), name + ' separate().reduce()')
            mon.check(sorted(x[:2] for x in t.coefflist) == sorted(x[:2] for x in red), 'C16:reduce-canonical',
                      lambda: '%s %s separate().reduce() orders %s vs %s' % (ctx.desc, name, [x[:2] for x in t.coefflist], [x[:2] for x in red]))

    # ---- constructexpansion
    with mon.guard('C16:construct'):
        nb = int(rng.integers(1, 5))
        basis = [(np.asarray(ref.rand_array(rng, sa, real=bool(rng.integers(2)))), rng.normal(size=dim)) for _ in range(nb)]
        Nc = int(rng.integers(-1, L + 1))
        Neff = L if Nc < 0 else Nc
        pre = None if rng.uniform() < 0.4 else [complex(rng.normal(), rng.normal()) for _ in range(Neff + 1)]
        cexp = T.constructexpansion(basis, N=Nc, pre=pre) if rng.uniform() < 0.7 or Nc >= 0 else T.constructexpansion(basis, pre=pre)
        if mon.check(len(cexp) == Neff + 1, 'C16:construct', '%s N=%d returned %d orders' % (ctx.desc, Nc, len(cexp))):
            u = us[0]
            tot, totscale, alln = 0, 0., []
            for n in range(Neff + 1):
                pn = 1 if pre is None else pre[n]
                direct = sum(pn * cf * np.dot(v, u) ** n for cf, v in basis)
                scale_n = sum(abs(pn) * 2.2 * (np.linalg.norm(v) * np.linalg.norm(u)) ** n for cf, v in basis) * max(1, dim ** (n / 2))
                cmp_at(ctx, 'construct', T(cexp[n]), direct, u, scale_n, 'order %d of N=%d nb=%d' % (n, Nc, nb))
                tot = tot + direct; totscale += scale_n
                alln += list(cexp[n])
            cmp_at(ctx, 'construct', T(alln), tot, u, totscale, 'all orders N=%d' % Nc)

    # ---- nothing above may have modified the operands
    mon.check(unchanged(a, a_raw) and unchanged(a2, a2_raw) and unchanged(a3, a3_raw) and unchanged(c, c_raw),
              'C16:operands-unchanged', ctx.desc)
    cp = a.copy()
    mon.check(unchanged(cp, a_raw) and all(x[2] is not y[2] for x, y in zip(cp.coefflist, a.coefflist)), 'C16:operands-unchanged',
              ctx.desc + ' copy() shares arrays')

    if PROBE_MIXED_DTYPE:
        mon.tag('mixed-dtype')
        ar = T(ref.rand_coefflist(rng, PLR, nla, sa, real=True))
        with mon.guard('C16:mixed-dtype'):
            t = ar + a2
            cmp_at(ctx, 'mixed-dtype', t, ev(ar.coefflist, us[0]) + ev(a2_raw, us[0]), us[0], ctx.mag(a_raw, us[0]) + ctx.mag(a2_raw, us[0]))
    return ctx.desc


def run_case(case):
    from onsager import PowerExpansion as PE
    mon = Mon()
    L = int(case['Lmax'])
    rng = gen.rng_for(case['seed'], case['idx'], 16)
    PE.Taylor3D(Lmax=L)
    PE.Taylor2D(Lmax=L)
    if PE.Taylor3D.Lmax != L or PE.Taylor2D.Lmax != L:
        # the class tables are fixed at first use: this worker was already initialised for another Lmax
        return mon.result(inconclusive='worker already initialised with Lmax=%s, case needs %s' % (PE.Taylor3D.Lmax, L))
    sample = None
    if case['kind'] == 'tables':
        T = PE.Taylor3D if case['dim'] == 3 else PE.Taylor2D
        ctx = Ctx(mon, T, case['dim'], L, rng)
        with mon.guard('C16:table'):
            check_tables(ctx)
        mon.sig(['tables', case['dim'], L])
        sample = {'kind': 'tables', 'dim': case['dim'], 'Lmax': L}
    else:
        for k in range(int(case.get('trials', 4))):
            dim = 3 if (k + case['idx']) % 2 == 0 else 2
            T = PE.Taylor3D if dim == 3 else PE.Taylor2D
            ctx = Ctx(mon, T, dim, L, rng)
            desc = trial_ops(ctx)
            if sample is None: sample = {'kind': 'ops', 'operands': desc}
    return mon.result(sample=sample)
