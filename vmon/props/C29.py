"""C29: calculation-setup supercells contain the right defects and mappings.

Monitor over the dictionaries returned by Interstitial.makesupercells and VacancyMediated.makesupercells for
random calculators x random supercell matrices.  Oracles (all independent of the repository's supercell code,
vmon.ref.supercells): the R12 tag parser + geometric site look-up decide which sites carry which defect; the
defect-free occupation is rebuilt from (crystal, matrix); transition pairs are compared atom by atom in
presentation order; every recorded mapping is applied to the *positions* (rot, trans, permutation) as well as
through the repository API; absent mappings are confirmed by a brute-force space-group search; the
"too small" RuntimeWarning is compared with a brute-force minimum-image analysis of the kinetic states.
"""
import re, warnings
import numpy as np
from vmon import gen
from vmon.util import Mon
from vmon.ref import geom
from vmon.ref import supercells as R

ID = 'C29'
RULE = ('case = one random calculator (vacancy-mediated: named 3-D crystals sc/fcc/bcc/diamond/hcp/omega/rumpled/b2/l12/tet '
        'or a random 3-D crystal, random species, 1-2 neighbour shells, Nthermo 1-2; interstitial: the same hosts plus 1-2 '
        'Wyckoff orbits of interstitial sites added with addbasis, the interstitial species at a random chemistry index in half of the cases) x 4 supercell matrices (n*I, diagonal, general '
        'non-diagonal incl. symmetry-breaking ones, a diagonal one fitted to contain every kinetic state, and in every fifth case a '
        'skewed one searched so that all states are inside the half cell although one has a closer periodic image); '
        'non-trivial = the dictionary has at least one transition; distinct = (calculator kind, crystal, species, '
        'cutoff shell, Nthermo, matrix)')
ASSUMPTIONS = ['tags carry 3 decimals: a tag position is matched to the unique site within 5.5e-4 (unit-cell coordinates)',
               'displacements and mapped positions compared to 1e-8',
               'supercells so small that two defects named by one tag fall on the same site are not judged (counted as degenerate_*); they must still warn',
               'warning oracle: must warn when a kinetic state lies outside the half cell by > 1e-6 (documented test) or has a periodic image '
               'shorter by > 1e-6; must not warn when every state is inside the half cell by > 1e-6 and is its unique minimum image; '
               'states within 1e-6 of the half-cell boundary or with an equally long image are ties and are not judged',
               'Supercell is three-dimensional only (3x3 matrices): 2-D calculators are outside the domain of makesupercells',
               'equivalence for absent mappings uses the brute-force space group of vmon.ref.geom (tolerance 1e-6), skipped when its order differs from len(crys.G)']
REQUIRED_OBS = {'superdicts_checked': 40, 'eval:C29:state-defects': 100, 'eval:C29:transition-single-mover': 100,
                'eval:C29:transition-dx': 100, 'eval:C29:mapping-geom': 100, 'eval:C29:mapping-api': 100,
                'eval:C29:mapping-complete': 20, 'warn_required_cells': 10, 'warn_forbidden_cells': 5,
                'interstitial_dicts': 10, 'vacancy_dicts': 10, 'eval:C29:warn-classes': 10, 'skewed_cells_with_hidden_image': 2}
CASE_TIMEOUT = 600
LIMITS = ['3-D crystals only (Supercell takes 3x3 matrices); at most 130 (quick) / 200 (thorough) sites per supercell',
          'Nthermo <= 2, at most 420 kinetic states, at most 40 jumps per vacancy network',
          'ties (states on the half-cell boundary or with an equally long image) and cells in which two defects of one tag coincide are counted, not judged',
          'known finding F16 (half cell is not a minimum-image test) is exercised deliberately in every fifth case']
MAXSITES = {'quick': 130, 'thorough': 200}


def cases(tier, seed):
    n = 48 if tier == 'quick' else 1400
    return [{'seed': seed, 'idx': i, 'hashseed': i % 5, 'tier': tier, 'kind': 'vacancy' if i % 5 < 3 else 'interstitial'}
            for i in range(n)]


def wrap1(x):
    return x - np.round(x)


def tag_sites(mon, table, defects, chem, tag):
    """site index of every defect named in a (parsed) tag; None if some look-up fails"""
    out = []
    for typ, u in defects:
        hits = table.find(u)
        ok = len(hits) == 1 and table.atoms[hits[0] % table.N][0] == chem
        mon.check(ok, 'C29:tag-site', lambda: 'tag %s: position %s matches sites %s (species %s), expected one site of species %d'
                                              % (tag, u, hits, [table.atoms[h % table.N][0] for h in hits], chem))
        if not ok: return None
        out.append(hits[0])
    return out


def expected_occ(base, defects, sites, species):
    occ = base.copy()
    for (typ, _), ind in zip(defects, sites):
        occ[ind] = species[typ]
    return occ


def check_supercell(mon, sup, S, table, occ, nspecies, clause, what):
    ok = np.array_equal(np.asarray(sup.superlatt), S) and sup.pos.shape == table.pos.shape and np.allclose(sup.pos, table.pos, atol=1e-12)
    mon.check(ok, 'C29:same-cell', lambda: '%s: supercell matrix/positions differ from the other supercells of the dictionary' % what)
    if not ok: return False
    good = np.array_equal(np.asarray(sup.occ), occ)
    mon.check(good, clause, lambda: '%s: occupation differs from the tag at sites %s: found %s expected %s' % (
        what, np.nonzero(np.asarray(sup.occ) != occ)[0][:8].tolist(), np.asarray(sup.occ)[np.asarray(sup.occ) != occ][:8].tolist(),
        occ[np.asarray(sup.occ) != occ][:8].tolist()))
    prob = R.chemorder_problem(sup.occ, sup.chemorder, nspecies)
    mon.check(prob is None, 'C29:order-lists', lambda: '%s: %s' % (what, prob))
    return good and prob is None


def run_case(case):
    mon = Mon()
    rng = gen.rng_for(case['seed'], case['idx'], 29)
    kind = case['kind']
    maxsites = MAXSITES.get(case.get('tier', 'quick'), 130)
    if kind == 'vacancy':
        calc, desc = R.vacancy_calculator(rng)
    else:
        calc, desc = R.interstitial_calculator(rng, permute_chem=True)
    crys = calc.crys
    group = geom.full_group(crys.lattice, crys.basis)
    if len(group) != len(crys.G):
        mon.count('independent_group_differs')
        group = None
    need = R.kinetic_need(calc) if kind == 'vacancy' else np.ones(3)
    sample = None
    modes = ('scalar', 'diag', 'general', 'fit') + (('hidden',) if (kind == 'vacancy' and case['idx'] % 5 == 0) else ())
    for mode in modes:
        if mode == 'hidden':
            # deliberately skewed cell: too small by the minimum-image criterion, invisible to the half-cell test (finding F16)
            S = R.hidden_image_matrix(rng, calc, maxsites)
            if S is None:
                mon.count('hidden_image_matrix_not_found')
                continue
        else:
            S = R.rand_supermatrix(rng, crys, maxsites, mode=mode, need=need)
        if S is None:
            mon.count('fit_matrix_too_large')
            continue
        info = dict(desc, kind=kind, S=S, mode=mode, hashseed=case.get('hashseed'))
        if sample is None or mode == 'general': sample = info
        sd = None
        with warnings.catch_warnings(record=True) as rec:
            warnings.simplefilter('always')
            with mon.guard('C29:makesupercells'):
                sd = calc.makesupercells(S)
        if sd is None: continue
        mon.count('superdicts_checked')
        mon.count(kind + '_dicts')
        mon.seen('modes', mode)
        mon.seen('crystals', desc['crystal'])
        check_superdict(mon, calc, kind, S, sd, list(rec), group, info)
        if sd.get('transitions'):
            mon.sig([kind, desc['crystal'], desc['chem'], round(desc['cutoff'], 4), desc.get('Nthermo'), S.tolist()])
    return mon.result(sample=sample)


def check_superdict(mon, calc, kind, S, sd, rec, group, info):
    crys, chem = calc.crys, calc.chem
    L = crys.lattice @ S
    small = [w for w in rec if issubclass(w.category, RuntimeWarning) and 'too small' in str(w.message)]
    broken = any('Broken symmetry' in str(w.message) for w in rec)
    mon.count('broken_symmetry_cells', broken)
    where = lambda: ' | %s' % {k: (v.tolist() if hasattr(v, 'tolist') else v) for k, v in info.items() if k not in ('basis', 'lattice')}
    # ---- shape of the dictionary ---------------------------------------------------------
    keys = ('states', 'transitions', 'transmapping', 'indices') + (('reference',) if kind == 'vacancy' else ())
    ok = isinstance(sd, dict) and all(k in sd for k in keys)
    mon.check(ok, 'C29:dict-keys', lambda: 'keys %s%s' % (sorted(sd) if isinstance(sd, dict) else type(sd), where()))
    if not ok: return
    if kind == 'vacancy':
        statetypes, transtypes = ('vacancy', 'solute', 'solute-vacancy'), ('omega0', 'omega1', 'omega2')
        species = {'v': -1, 's': crys.Nchem}
        nspecies = crys.Nchem + 1
    else:
        statetypes, transtypes = ('states',), ('transitions',)
        species = {'i': chem}
        nspecies = crys.Nchem
    # one supercell per symmetry class, under the tag of the class representative (first tag of the class)
    reps = {}
    for t in statetypes + transtypes:
        for n, taglist in enumerate(calc.tags[t]):
            reps[taglist[0]] = (t, n)
    want_states = set(k for k, (t, n) in reps.items() if t in statetypes)
    want_trans = set(k for k, (t, n) in reps.items() if t in transtypes)
    mon.check(set(sd['states']) == want_states, 'C29:state-keys', lambda: 'missing %s extra %s%s' % (
        sorted(want_states - set(sd['states']))[:4], sorted(set(sd['states']) - want_states)[:4], where()))
    mon.check(set(sd['transitions']) == want_trans and set(sd['transmapping']) == set(sd['transitions']), 'C29:transition-keys',
              lambda: 'missing %s extra %s%s' % (sorted(want_trans - set(sd['transitions']))[:4],
                                                 sorted(set(sd['transitions']) - want_trans)[:4], where()))
    okidx = set(sd['indices']) == set(sd['states']) | set(sd['transitions'])
    for k, v in sd['indices'].items():
        if k not in reps: okidx = False
        elif kind == 'vacancy': okidx = okidx and tuple(v) == reps[k]
        else: okidx = okidx and v == reps[k][1]
    mon.check(okidx, 'C29:indices', lambda: 'indices do not list (type, class index) of exactly the tags present' + where())
    allsup = list(sd['states'].values()) + [s for pair in sd['transitions'].values() for s in pair]
    if not allsup: return
    # ---- sites ---------------------------------------------------------------------------
    table = R.SiteTable(crys, S, allsup[0].pos)
    prob = table.check_positions()
    mon.check(prob is None, 'C29:site-positions', lambda: str(prob) + where())
    if prob is not None: return
    base = table.base_occ(empty_chems=() if kind == 'vacancy' else (chem,))
    if kind == 'vacancy':
        check_supercell(mon, sd['reference'], S, table, base, nspecies, 'C29:reference', 'reference' + where())
    # ---- states --------------------------------------------------------------------------
    stateconf = {}
    for tag, sup in sd['states'].items():
        try:
            p = R.parse_tag(tag)
        except R.TagError as e:
            mon.check(False, 'C29:tag-parse', '%s%s' % (e, where()))
            continue
        goodkind = p['final'] is None and (p['kind'] == 'i' if kind == 'interstitial' else p['kind'] in ('v', 's', 's-v'))
        mon.check(goodkind, 'C29:tag-parse', lambda: 'state tag %s of kind %s in a %s calculator' % (tag, p['kind'], kind))
        if not goodkind: continue
        sites = tag_sites(mon, table, p['initial'], chem, tag)
        if sites is None: continue
        if len(set(sites)) < len(sites):
            mon.count('degenerate_states')
            continue
        mon.seen('state_kinds', p['kind'])
        if check_supercell(mon, sup, S, table, expected_occ(base, p['initial'], sites, species), nspecies, 'C29:state-defects',
                           'state %s%s' % (tag, where())):
            stateconf[tag] = [(t, table.unit[ind]) for (t, _), ind in zip(p['initial'], sites)]
    # ---- transitions ---------------------------------------------------------------------
    ops = R.compatible_ops(crys, S, group) if group is not None else None
    jumpnets = {'transitions': getattr(calc, 'jumpnetwork', None), 'omega0': getattr(calc, 'om0_jn', None),
                'omega1': getattr(calc, 'om1_jn', None), 'omega2': getattr(calc, 'om2_jn', None)}
    for tag, pair in sd['transitions'].items():
        try:
            p = R.parse_tag(tag)
        except R.TagError as e:
            mon.check(False, 'C29:tag-parse', '%s%s' % (e, where()))
            continue
        goodkind = p['final'] is not None and (p['kind'] == 'i^i' if kind == 'interstitial' else p['kind'] in ('omega0', 'omega1', 'omega2'))
        goodkind = goodkind and tag in reps and (reps[tag][0] == p['kind'] or kind == 'interstitial')
        mon.check(goodkind and len(pair) == 2, 'C29:tag-parse', lambda: 'transition tag %s of kind %s in a %s calculator' % (tag, p['kind'], kind))
        if not (goodkind and len(pair) == 2): continue
        s0, s1 = pair
        si, sf = tag_sites(mon, table, p['initial'], chem, tag), tag_sites(mon, table, p['final'], chem, tag)
        if si is None or sf is None: continue
        if p['kind'] == 'omega2':
            # the second half of an omega2 tag is the label of the exchanged *pair state* (solute back in cell 0), i.e. the
            # exchanged complex up to one lattice translation T: s' = v - T, v' = s - T
            T1, T2 = p['initial'][1][1] - p['final'][0][1], p['initial'][0][1] - p['final'][1][1]
            okx = np.max(np.abs(T1 - np.round(T1))) < 2.1e-3 and np.max(np.abs(T1 - T2)) < 2.1e-3
            mon.check(okx, 'C29:tag-omega2-exchange', lambda: '%s: final complex is not the exchanged initial complex up to a lattice translation (%s vs %s)%s'
                                                              % (tag, T1, T2, where()))
            if not okx: continue
            p = dict(p, final=[('s', p['initial'][1][1]), ('v', p['initial'][0][1])])
            sf = [si[1], si[0]]
        mon.seen('transition_kinds', p['kind'])
        degenerate = len(set(si)) < len(si) or len(set(sf)) < len(sf) or (p['kind'] != 'omega2' and set(si) == set(sf))
        if degenerate:
            mon.count('degenerate_transitions')
            continue
        ok0 = check_supercell(mon, s0, S, table, expected_occ(base, p['initial'], si, species), nspecies, 'C29:transition-defects',
                              'initial of %s%s' % (tag, where()))
        ok1 = check_supercell(mon, s1, S, table, expected_occ(base, p['final'], sf, species), nspecies, 'C29:transition-defects',
                              'final of %s%s' % (tag, where()))
        if not (ok0 and ok1): continue
        # a single moving atom, in the same place of the presentation order of both endpoints
        diffs = [(c, k) for c in range(nspecies) for k in range(min(len(s0.chemorder[c]), len(s1.chemorder[c])))
                 if s0.chemorder[c][k] != s1.chemorder[c][k]]
        samelen = all(len(a) == len(b) for a, b in zip(s0.chemorder, s1.chemorder))
        mover = {'i^i': chem, 'omega0': chem, 'omega1': chem, 'omega2': crys.Nchem}[p['kind']]
        single = samelen and len(diffs) == 1 and diffs[0][0] == mover
        mon.check(single, 'C29:transition-single-mover', lambda: '%s: ordered atom lists differ at %s (species, place); expected one atom of species %d%s'
                                                                 % (tag, diffs[:6], mover, where()))
        if not single: continue
        c, k = diffs[0]
        disp = table.sep_cart(s0.chemorder[c][k], s1.chemorder[c][k])
        t, n = reps[tag]
        dxclass = np.asarray(jumpnets[t][n][0][1], dtype=float)
        # the defect moves by dx; for vacancy jumps (omega0/1/2) the atom moves the other way
        expect = dxclass if p['kind'] == 'i^i' else -dxclass
        nn = np.linalg.solve(L, disp - expect)
        err = float(np.max(np.abs(L @ (nn - np.round(nn)))))
        mon.check(err < 1e-8, 'C29:transition-dx', lambda: '%s: moving atom displaced by %s, class dx %s (atom should move %s); residual modulo the superlattice %.2e%s'
                                                           % (tag, disp, dxclass, expect, err, where()))
        mon.note_max('transition_dx_residual', err)
        # the tag itself names the same jump (3 decimals)
        if p['kind'] in ('i^i', 'omega0'):
            dtag = crys.lattice @ (p['final'][0][1] - p['initial'][0][1])
        elif p['kind'] == 'omega1':
            dtag = crys.lattice @ (p['final'][1][1] - p['initial'][1][1])
        else:
            dtag = crys.lattice @ (p['initial'][0][1] - p['initial'][1][1])
        mon.check(np.linalg.norm(dtag - dxclass) < 2e-3 * max(1., np.abs(crys.lattice).sum()), 'C29:transition-tag-dx',
                  lambda: '%s: tag displacement %s vs class dx %s%s' % (tag, dtag, dxclass, where()))
        # ---- mappings -----------------------------------------------------------------------
        tm = sd['transmapping'].get(tag)
        shape = isinstance(tm, tuple) and len(tm) == 2
        mon.check(shape, 'C29:transmapping-shape', lambda: '%s: transmapping has %s entries, documented: one per endpoint (initial, final)%s'
                                                           % (tag, len(tm) if isinstance(tm, tuple) else type(tm), where()),
                  tags=['interstitial-broken-symmetry'] if (kind == 'interstitial' and broken) else [])
        if not shape: continue
        for entry, end, defects, sites, name in ((tm[0], s0, p['initial'], si, 'initial'), (tm[1], s1, p['final'], sf, 'final')):
            endconf = [(tt, table.unit[ind]) for (tt, _), ind in zip(defects, sites)]
            if entry is None:
                mon.count('endpoints_without_map')
                if ops is None: continue
                equiv = [k for k, conf in stateconf.items() if R.configs_equivalent(ops, S, conf, endconf)]
                mon.check(not equiv, 'C29:mapping-complete', lambda: '%s %s: no mapping recorded, but the endpoint is symmetry-equivalent to state(s) %s%s'
                                                                       % (tag, name, equiv[:3], where()))
                continue
            okentry = isinstance(entry, tuple) and len(entry) == 3 and entry[0] in sd['states']
            mon.check(okentry, 'C29:mapping-entry', lambda: '%s %s: entry %s%s' % (tag, name, str(entry)[:200], where()))
            if not okentry: continue
            k, g, mapping = entry
            state = sd['states'][k]
            mon.count('endpoints_with_map')
            if ops is not None and k in stateconf:
                mon.check(R.configs_equivalent(ops, S, stateconf[k], endconf), 'C29:mapping-complete',
                          lambda: '%s %s: mapped from state %s which is not symmetry-equivalent to the endpoint%s' % (tag, name, k, where()))
            # (1) through the repository API
            res = None
            with mon.guard('C29:mapping-api'):
                res = (g * state).reorder(mapping) == end
            if res is not None:
                mon.check(bool(res), 'C29:mapping-api', lambda: '%s %s: (g*state[%s]).reorder(mapping) != endpoint%s' % (tag, name, k, where()))
            # (2) on the positions: rot, trans and the permutation only
            rot, trans = np.asarray(g.rot), np.asarray(g.trans)
            cart = L @ rot @ np.linalg.inv(L)
            iso = rot.shape == (3, 3) and np.allclose(cart @ cart.T, np.eye(3), atol=1e-8) and np.allclose(cart, g.cartrot, atol=1e-8)
            mon.check(iso, 'C29:mapping-isometry', lambda: '%s %s: rot %s is not an isometry of the supercell / cartrot inconsistent%s'
                                                           % (tag, name, rot.tolist(), where()))
            good, worst = len(mapping) == nspecies, 0.
            for cc in range(nspecies):
                if not good: break
                src, dst, mp = state.chemorder[cc], end.chemorder[cc], list(mapping[cc])
                if sorted(mp) != list(range(len(src))) or len(dst) != len(src):
                    good = False
                    break
                if not src: continue
                img = table.pos[src] @ rot.T + trans
                d = np.abs(wrap1(img[mp] - table.pos[dst]))
                worst = max(worst, float(d.max()))
            good = good and worst < 1e-8
            mon.check(good, 'C29:mapping-geom', lambda: '%s %s: rot/trans/permutation applied to the ordered atoms of state %s do not give the '
                                                        'ordered atoms of the endpoint (max deviation %.2e)%s' % (tag, name, k, worst, where()))
    # ---- the "too small" warning ---------------------------------------------------------------
    if kind == 'interstitial':
        mon.check(not small, 'C29:warn-spurious', lambda: 'interstitial calculator warned: %s%s' % (str(small[0].message)[-80:], where()))
        return
    b = crys.basis[chem]
    states = list(calc.kinetic.states)
    dxs = np.array([crys.lattice @ (b[PS.j] + np.asarray(PS.R) - b[PS.i]) for PS in states])
    coords, shorter, tie = R.image_analysis(L, dxs)
    amax = np.abs(coords).max(axis=1)
    out, inside = amax > 0.5 + 1e-6, amax < 0.5 - 1e-6
    unique = ~(shorter | tie)
    detail = lambda: 'warnings %d; states outside half cell %d, on its boundary %d, with shorter image %d, tie %d%s' % (
        len(small), out.sum(), (~out & ~inside).sum(), shorter.sum(), tie.sum(), where())
    if out.any():
        mon.count('warn_required_cells')
        mon.check(len(small) > 0, 'C29:warn-missing', detail)
    elif inside.all() and shorter.any():
        mon.count('warn_required_cells')
        mon.count('skewed_cells_with_hidden_image')
        k = int(np.nonzero(shorter)[0][0])
        mon.check(len(small) > 0, 'C29:warn-missing-minimage', lambda: 'state %s (supercell coordinates %s) has a closer periodic image but no warning; %s'
                                                                        % (states[k], coords[k], detail()), tags=['halfcell-not-minimum-image'])
    elif inside.all() and unique.all():
        mon.count('warn_forbidden_cells')
        mon.check(len(small) == 0, 'C29:warn-spurious', lambda: 'first: %s; %s' % (str(small[0].message)[-60:], detail()))
    else:
        mon.count('warn_tie_cells')
    # documented classes of warnings, judged on the states that are clearly outside and map unambiguously
    thermo = set((PS.i, PS.j, tuple(int(x) for x in PS.R)) for PS in calc.thermo.states)
    frac = np.abs(coords - np.floor(coords) - 0.5)  # distance of each coordinate from the half-cell boundary (mod 1)
    clear = out & (frac.min(axis=1) > 1e-6)
    mapped = (coords - np.floor(coords + 0.5)) @ L.T
    r2, m2 = (dxs ** 2).sum(axis=1), (mapped ** 2).sum(axis=1)
    expected, judged = set(), 0
    for k in np.nonzero(clear)[0]:
        if abs(r2[k] - m2[k]) < 1e-9: ftype = 'multiplicity issue'
        elif abs(r2[k] - m2[k]) > 1e-3 * max(r2[k], 1e-3): ftype = 'mapping error'
        else: continue
        judged += 1
        PS = states[k]
        expected.add(('thermodynamic range' if (PS.i, PS.j, tuple(int(x) for x in PS.R)) in thermo else 'escape endpoint', ftype))
    got = set()
    for w in small:
        m = re.search(r'too small: (.+) has (.+)$', str(w.message))
        got.add((m.group(1), m.group(2)) if m else ('?', str(w.message)[-40:]))
    if judged:
        exact = bool(clear.sum() == (~inside).sum() == judged)  # every failing state was judged
        good = expected <= got and (not exact or (got == expected and len(small) == judged))
        mon.check(good, 'C29:warn-classes', lambda: 'warnings issued %s (%d); independently expected %s from %d clearly failing states%s; %s'
                                                    % (sorted(got), len(small), sorted(expected), judged, ' (exhaustive)' if exact else '', detail()))
        for e in expected: mon.seen('warning_classes', '%s/%s' % e)
