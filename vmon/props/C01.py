"""C01: vacancy-mediated transport coefficients are exact in the dilute limit.

Monitors on VacancyMediated.Lij, three layers: (a) pipeline exactness - with the torus Green function R3' substituted for
the Green-function evaluation, Lij must equal the exact one-solute/one-vacancy torus Markov chain R3 to round-off, and
L0vv the lone-vacancy walk R1; (b) end to end - the unmodified calculator against R3 extrapolated from two torus sizes,
to integration accuracy; (c) gauge invariance - adding C sqrt(p_i p_j) to the real Green function (still a solution of the
lattice equation) must not change any coefficient.
"""
import numpy as np
from vmon import gen, work_vac, contracts
from vmon.util import Mon
from vmon.ref import torus as T

ID = 'C01'
RULE = ('named crystal pool (Bravais and multi-site, 2-D and 3-D, with and without site vector basis / origin states, one and '
        'several Wyckoff sets, low-symmetry point groups 1bar, 2, 2/m, 4/m where the solute-vacancy tensor is not symmetric) x Nthermo in {1,2} x input masks (one input group randomised at a time, or all) x sigma in '
        '{0.3,0.7,1.5}; non-trivial = every case (a solute is present); distinct = (crystal, Nthermo, mask, sigma, input index)')
ASSUMPTIONS = ['(a) algebraic tolerance 1e-9 x max|L0vv|; the torus is large enough that kinetic states and their one-jump '
               'neighbours stay distinct (Torus.needed_L)',
               '(b) finite-size extrapolation a/L^d + b/L^(d+2) from three torus sizes; tolerance 3e-3 x scale; a quantity is compared only when the three-point value agrees with the leading-order value of the two largest tori within 1e-3 x scale (otherwise counted e2e_extrapolation_unresolved: strong binding makes the finite-size series converge slowly), and a mismatch at the default k-point density is re-decided with the densest mesh (e2e_mesh_escalations)',
               '(c) tolerance 1e-7 x scale, 1e-6 on crystals with origin states, 1e-5 where several Wyckoff sets carry them (observed 4.5e-7 and 1.2e-6 with sigma 1.5 on dtria_spec; the defect this clause is for, F10, changed the result by 1e-1) (the constant is 0.5-3 / fastest rate, i.e. 10-50 x the Green function itself; observed 7e-8 on a compound with two polar sites)',
               'crystals in which several Wyckoff sets carry origin states (dtria_spec: two inequivalent polar sites): the calculator with a finite-torus Green function substituted does not reproduce the torus chain (3-20 %, erratic in L, dependent on an added constant), while with its own Green function it is independent of the constant to 1e-8 and equals the L -> infinity limit of the chain to 1e-6 (Lss 0.095113 / 0.147214 against the extrapolated 0.095112 / 0.147214); layer (a) is therefore not evaluated there and layers (b) and (c) decide',
               'energies |beta F| <= ~6; the classification of omega1/omega2/thermodynamic states read from the calculator is '
               'checked separately (C24-C26)']
REQUIRED_OBS = {'eval:C01:stub:Lss': 20, 'eval:C01:stub:Lsv': 20, 'eval:C01:stub:L1vv': 20, 'eval:C01:L0vv=R1': 20,
                'eval:C01:gauge:Lss': 10, 'eval:C01:e2e:Lss': 4, 'multi_wyckoff': 4, 'dim2': 4, 'multisite': 6, 'axial_crystals': 8}
CASE_TIMEOUT = 900

QUICK = [('fcc', 1), ('bcc', 1), ('sc', 1), ('hcp', 1), ('square', 1), ('honey', 1), ('omega', 1), ('diamond', 1),
         ('tria', 1), ('b2', 1), ('lieb', 1), ('dtria', 1), ('rumpled', 1), ('fcc', 2), ('square', 2), ('honey', 2),
         ('tric', 1), ('mono', 1), ('p4m', 1), ('p2', 1), ('mono2', 1), ('sc', 2), ('bcc', 2), ('dhcp', 1), ('omega_perm', 1), ('rumpled_spec', 1), ('dtria_spec', 1), ('p2two', 1)]
THOROUGH = QUICK + [('kagome', 1), ('l12', 1), ('tet', 1), ('rect', 1), ('hcp', 2), ('tria', 2),
                    ('dtria', 2), ('diamond', 2), ('rect', 2), ('lieb', 2), ('p2', 2), ('mono', 2)]
E2E = {('dtria_spec', 1), ('fcc', 1), ('bcc', 1), ('sc', 1), ('square', 1), ('tria', 1), ('honey', 1), ('dtria', 1), ('p2', 1)}
E2E_THOROUGH = E2E | {('rumpled_spec', 1), ('hcp', 1), ('square', 2), ('lieb', 1), ('rect', 1), ('tet', 1)}


def cases(tier, seed):
    out = []
    pool = QUICK if tier == 'quick' else THOROUGH
    ninp = 4 if tier == 'quick' else 14
    for ci, (name, nth) in enumerate(pool):
        for rep in range(1 if tier == 'quick' else 3):
            out.append({'seed': seed, 'idx': ci * 10 + rep, 'name': name, 'Nthermo': nth, 'ninputs': ninp,
                        'hashseed': (ci + rep) % 3, 'e2e': (name, nth) in (E2E if tier == 'quick' else E2E_THOROUGH) and rep == 0})
    return out


def scale_of(L0vv, *others):
    return max([np.abs(L0vv).max()] + [np.abs(o).max() for o in others] + [1e-300])


def run_case(case):
    mon = Mon()
    rng = gen.rng_for(case['seed'], case['idx'], 1)
    name, nth = case['name'], case['Nthermo']
    diff = work_vac.get_calc(name, nth)
    real = diff.GFcalc
    # the unmodified calculator is evaluated on a second object whose caches are never cleared between the inputs of a case: that is how
    # a calculator is used (one object, many temperatures / data sets), and a stale or colliding cache entry shows up as a wrong result
    hist = work_vac.get_calc(name, nth, slot='history')
    hist.clearcache()
    L = max(T.Torus.needed_L(diff), 5)
    tor = T.Torus(diff, L)
    sample = None
    masks = list(work_vac.MASKS)
    for k in range(case['ninputs']):
        mask = masks[int(rng.integers(len(masks)))] if k > 0 else 'VSB012'
        sigma = float(rng.choice([0.3, 0.7, 1.5]))
        args = work_vac.rand_args(rng, diff, mask, sigma)
        tags = work_vac.regime_tags(diff, args)
        desc = {'crystal': name, 'Nthermo': nth, 'mask': mask, 'sigma': sigma, 'torus_L': L, 'args': args}
        if sample is None: sample = desc
        mon.sig([name, nth, mask, sigma, k])
        for t in ('multi_wyckoff', 'dim2', 'multisite', 'origin_states', 'Nthermo2'):
            mon.count(t, t in tags)
        mon.count('axial_crystals', contracts.axial_point_group(diff.crys))
        # exact chain
        L0c, Lssc, Lsvc, L1c = tor.predict(args)
        mon.count('chain_states', tor.nstates)
        mon.count('om1_classes_used', len(tor.used1))
        mon.count('om2_classes_used', len(tor.used2))
        # real calculator
        try:
            Lr = [np.array(x) for x in hist.Lij(*args)]
            mon.count('inputs_on_uncleared_calculator', k > 0)
            # (a) stub
            stub = T.GFstub(real, tor, exact_eta=True)
            if len(diff.OSindices) >= 2 and len(diff.sitelist) >= 2:
                # torus stand-in not usable (several Wyckoff sets carry origin states: the origin-state block can even be singular
                # in the torus gauge); only its bias correction is compared, the clauses on Ls are skipped below
                stub.SetRates(np.ones(len(args[0])), args[0], np.ones(len(args[3])), args[3])
                Ls = Lr
            else:
                diff.GFcalc = stub
                diff.clearcache()
                Ls = [np.array(x) for x in diff.Lij(*args)]
            # (c) gauge
            C = float(rng.uniform(0.5, 3)) * np.exp(np.min(args[3]))
            diff.GFcalc = T.GaugeGF(real, C)
            diff.clearcache()
            Lg = [np.array(x) for x in diff.Lij(*args)]
        except Exception as e:
            import traceback
            mon.fail('C01:Lij:raises:' + type(e).__name__, traceback.format_exc()[-800:] + str(desc), tags)
            continue
        finally:
            diff.GFcalc = real
            diff.clearcache()
        sc = scale_of(L0c, Lssc)
        mon.close(real.biascorrection() if False else stub.real.eta, stub.eta_exact, 1e-5, 'C01:biascorrection=R1', lambda: str(desc), tags,
                  scale=max(np.abs(stub.eta_exact).max(), np.sqrt(sc)))
        det = lambda nm, a, b: (lambda: '%s calc=%s chain=%s %s' % (nm, np.round(a, 10).tolist(), np.round(b, 10).tolist(), desc))
        mon.close(Ls[0], L0c, 1e-9, 'C01:L0vv=R1', det('L0vv', Ls[0], L0c), tags, scale=sc)
        # the torus Green function is not a usable stand-in when several Wyckoff sets carry origin states (see ASSUMPTIONS): there the
        # end-to-end comparison (b) and the gauge clause (c) decide
        stub_ok = not (len(diff.OSindices) >= 2 and len(diff.sitelist) >= 2)
        mon.count('stub_not_applicable', not stub_ok)
        if stub_ok:
            mon.close(Ls[1], Lssc, 1e-9, 'C01:stub:Lss', det('Lss', Ls[1], Lssc), tags, scale=sc)
            mon.close(Ls[2], Lsvc, 1e-9, 'C01:stub:Lsv', det('Lsv', Ls[2], Lsvc), tags, scale=sc)
        # crystals with origin states: the origin-state term of L1vv is built from the infinite-lattice bias correction, so
        # equivalence with a *finite* torus only holds up to O(L^-4) there (observed 2e-6 at L=5, 4.5e-7 at L=7 with uniform rates)
        tol1 = 1e-9 * tor.M if 'origin_states' not in tags else 1e-4
        if stub_ok: mon.close(Ls[3], L1c, tol1, 'C01:stub:L1vv', det('L1vv', Ls[3], L1c), tags, scale=sc)
        for nm, a, b in zip(('L0vv', 'Lss', 'Lsv', 'L1vv'), Lg, Lr):
            mon.close(a, b, (1e-5 if not stub_ok else 1e-6) if 'origin_states' in tags else 1e-7, 'C01:gauge:' + nm, det(nm + ' C=%g' % C, a, b), tags, scale=max(sc, np.abs(b).max()))
        contracts.tensor2_contract(mon, diff.crys, Lr[0], 'L0vv', True, scale=sc, prefix='C01')
        work_vac.psd_contract_with_mesh_rule(mon, diff, name, nth, args, Lr[1], 1, 'Lss', sc, 1e-9, 'C01', tags, desc)
        contracts.tensor2_contract(mon, diff.crys, Lr[2], 'Lsv', False, scale=max(sc, np.abs(Lr[2]).max()), prefix='C01', symmetric=False)
        contracts.tensor2_contract(mon, diff.crys, Lr[3], 'L1vv', False, scale=max(sc, np.abs(Lr[3]).max()), prefix='C01', tol=1e-8)
        # (b) end to end with finite-size extrapolation X(L) = X + a L^-d + b L^-(d+2) from three torus sizes
        if case.get('e2e') and k < 2:
            dpow = diff.crys.dim
            L0 = max(T.Torus.needed_L(diff), 7 if dpow == 2 else 6)
            sizes = [L0, L0 + (4 if dpow == 2 else 2), L0 + (8 if dpow == 2 else 4)]
            res = [T.Torus(diff, LL).predict(args) for LL in sizes]
            A = np.array([[1., LL ** -dpow, LL ** -(dpow + 2)] for LL in sizes])
            coef = np.linalg.inv(A)[0]
            ext = [sum(cf * r[q] for cf, r in zip(coef, res)) for q in range(4)]
            # internal error estimate of the extrapolation: three-point value against the leading-order value of the two largest tori
            A2 = np.array([[1., LL ** -dpow] for LL in sizes[1:]])
            coef2 = np.linalg.inv(A2)[0]
            ext2 = [sum(cf * r[q] for cf, r in zip(coef2, res[1:])) for q in range(4)]
            Lfine = None
            for nm, a, b, b2 in zip(('L0vv', 'Lss', 'Lsv', 'L1vv'), Lr, ext, ext2):
                sce = max(sc, np.abs(b).max())
                est = float(np.abs(np.asarray(b) - np.asarray(b2)).max())
                if est > 1e-3 * sce:
                    # finite-size series not converged at these sizes (strong binding): the reference is not decisive for this quantity
                    mon.count('e2e_extrapolation_unresolved:' + nm)
                    continue
                if float(np.abs(np.asarray(a) - np.asarray(b)).max()) > 3e-3 * sce:
                    # Brillouin-zone integration accuracy of the real Green function: repeat with the densest mesh before deciding
                    if Lfine is None:
                        dfine = work_vac.get_calc(name, nth, NGFmax=12)
                        Lfine = [np.array(x) for x in dfine.Lij(*args)]
                        dfine.clearcache()
                        mon.count('e2e_mesh_escalations')
                    a = Lfine[('L0vv', 'Lss', 'Lsv', 'L1vv').index(nm)]
                mon.close(a, b, 3e-3, 'C01:e2e:' + nm, det(nm + ' real vs extrapolated chain L=%s' % sizes, a, b), tags, scale=sce)
    hist.clearcache()
    return mon.result(sample=sample)
