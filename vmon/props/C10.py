"""C10: the lattice Green function solves the diffusion equation.

Monitors on GFCrystalcalc.__call__ after SetRates with random rates: (R4) the lattice-equation residual
sum_k W~_ik g(k,j,x-dx) - escape_i g(i,j,x) - delta at random (i,j,R); endpoint-swap symmetry g(i,j,x)=g(j,i,-x); invariance under
every space-group operation; uniform rate scaling (g/lambda, D lambda); in 3-D the continuum far field
-sqrt(p_i p_j) V / (4 pi sqrt(det D) sqrt(x D^-1 x)) with D from the reference walk R1; the bias-correction vector against R1;
and convergence of the residual when the k-point density parameter is raised.
"""
import itertools
import numpy as np
from vmon import gen, work_inter
from vmon.util import Mon
from vmon.ref import walk

ID = 'C10'
RULE = ('random 2-D/3-D crystals (all lattice systems, one or several Wyckoff sets, incl. disconnected networks) and named crystals, '
        'random prefactors/energies (sigma 0.3..1.5), random endpoint pairs with |R|<=3; far field at separations 3..mesh/4 cells; '
        'only networks with a non-singular exact D (lambda_min > 0.02 |D|) - a Green function does not exist otherwise; '
        'non-trivial = every evaluated (i,j,R); distinct = (kind, sites, classes, components, sigma)')
ASSUMPTIONS = ['integration tolerances (Nmax=4): lattice-equation residual 1e-3 (observed 1e-10..3.3e-4 typically), or - for rate ratios that the fixed '
               'mesh cannot resolve (observed 5e-2 at Nmax=4 -> 1e-2 at Nmax=8 -> 5e-3 at 12) - reduced to at most 0.7 of it at Nmax=8 (2-D meshes converge like 1/N_k), or - convergence is not monotonic - at most half of the larger of the Nmax=4 and Nmax=8 residuals at Nmax=16 (2-D) / 12 (3-D); whenever the largest residual of a network exceeds 1e-6 it must fall to at most half, or below 2e-4, at Nmax=16 (2-D) / 12 (3-D) - the calculator has a mesh-independent error of its own from the Gaussian cut-off of the pole (pmaxerror=1e-8 gives 4.5e-5 on a centred rectangular lattice with D anisotropy 11, 7.7e-6 with 1e-10, 5e-8 with 1e-16); symmetry / space-group invariance 1e-6 relative, scaling 1e-9, bias correction 1e-5',
               'far field: evaluated with mild rates (ratios <= 2) because a nearly decoupled sub-network pushes the continuum regime beyond '
               'the mesh; g/pole within 10 % (named nearest-neighbour crystals, strong site-energy differences) or 25 % (random crystals with '
               'long jumps) at mesh/4 cells, within twice that at 3 cells (observed 10.4 % on rumpled omega), and not drifting away with distance - catches a wrong volume / sqrt(p) / factor 2 / additive constant',
               'networks that only connect a sublattice of the crystal are skipped (no unique Green function)',
               'anisotropy of the exact D limited to 50 (condition number) so that the fixed k-mesh resolves the pole']
REQUIRED_OBS = {'eval:C10:lattice-equation': 100, 'eval:C10:swap-symmetry': 100, 'eval:C10:group-invariance': 100,
                'eval:C10:rate-scaling:g': 20, 'eval:C10:far-field': 10, 'eval:C10:biascorrection': 10, 'multi_wyckoff': 3, 'dim2': 3,
                'directed_slow_long_axis': 10, 'eval:C10:converges-with-mesh': 15, 'eval:C10:reuse=fresh': 30, 'reuse:site_energies_moved_oppositely': 2}
CASE_TIMEOUT = 900
PER_CASE = 3


def cases(tier, seed):
    n = 32 if tier == 'quick' else 320
    return [{'seed': seed, 'idx': i, 'hashseed': i % 3} for i in range(n)]


def sym_rates(w):
    """[(i, k, dx, symmetric rate)], escape_i"""
    inv, pre, bE, preT, bET = w['inv'], w['pre'], w['bE'], w['preT'], w['bET']
    N = w['N']
    lst, esc = [], np.zeros(N)
    for J, jl in enumerate(w['jn']):
        for (i, k), dx in jl:
            lst.append((i, k, dx, preT[J] * np.exp(0.5 * (bE[inv[i]] + bE[inv[k]]) - bET[J]) / np.sqrt(pre[inv[i]] * pre[inv[k]])))
            esc[i] += preT[J] * np.exp(bE[inv[i]] - bET[J]) / pre[inv[i]]
    return lst, esc


def run_case(case):
    from onsager import GFcalc
    mon = Mon()
    rng = gen.rng_for(case['seed'], case['idx'], 10)
    sample = None
    done = 0
    for attempt in range(12):
        if done >= PER_CASE: break
        if attempt == 0 and case['idx'] % 2 == 0:
            # directed: uniaxial / orthorhombic cells whose long axis (short reciprocal vector) is the slow diffusion direction
            from onsager import crystal
            kind = ('hcp-slow-c', 'tet-slow-c', 'rect-slow-b', 'ortho-slow-c')[int(rng.integers(4))]
            if kind == 'hcp-slow-c':
                crys = crystal.Crystal.HCP(1., float(rng.uniform(1.5, 1.9))); cutoff = 1.01 * max(1., np.sqrt(1 / 3 + crys.lattice[2, 2] ** 2 / 4))
            elif kind == 'tet-slow-c':
                c = float(rng.uniform(1.15, 1.35)); crys = crystal.Crystal(np.diag([1., 1., c]), [[np.zeros(3)]]); cutoff = c + 0.01
            elif kind == 'rect-slow-b':
                c = float(rng.uniform(1.15, 1.35)); crys = crystal.Crystal(np.diag([1., c]), [[np.zeros(2)]]); cutoff = c + 0.01
            else:
                b_, c = sorted(rng.uniform(1.08, 1.38, size=2)); crys = crystal.Crystal(np.diag([1., float(b_), float(c)]), [[np.zeros(3)]]); cutoff = float(c) + 0.01
            chem = 0
            jn, sl = crys.jumpnetwork(chem, cutoff), crys.sitelist(chem)
            N = len(crys.basis[chem])
            pre, bE, preT, bET = gen.rand_thermo_interstitial(rng, len(sl), len(jn), 0.3)
            ratio = float(np.exp(rng.uniform(np.log(0.04), np.log(0.25))))
            zmax = [max(abs(dx[-1]) for (i, j), dx in jl) for jl in jn]
            bET = np.array([e_ - np.log(ratio) if z > 1e-8 else e_ for e_, z in zip(bET, zmax)])
            mon.count('directed_slow_long_axis')
            w = {'crys': crys, 'chem': chem, 'jn': jn, 'sl': sl, 'N': N, 'inv': gen.invmap(sl, N), 'pre': pre, 'bE': bE, 'preT': preT,
                 'bET': bET, 'spec': {'kind': kind}, 'desc': {'kind': kind, 'lattice': crys.lattice, 'ratio': ratio, 'pre': pre, 'bE': bE, 'preT': preT, 'bET': bET}}
        elif attempt % 3 == 2:
            name = ('fcc', 'hcp', 'omega', 'honey', 'bcc', 'rumpled', 'lieb', 'diamond')[int(rng.integers(8))]
            crys, chem, cutoff = gen.named(name)
            jn, sl = crys.jumpnetwork(chem, cutoff), crys.sitelist(chem)
            N = len(crys.basis[chem])
            pre, bE, preT, bET = gen.rand_thermo_interstitial(rng, len(sl), len(jn), float(rng.choice([0.3, 1., 1.5])))
            w = {'crys': crys, 'chem': chem, 'jn': jn, 'sl': sl, 'N': N, 'inv': gen.invmap(sl, N), 'pre': pre, 'bE': bE, 'preT': preT,
                 'bET': bET, 'spec': {'kind': name}, 'desc': {'kind': name, 'pre': pre, 'bE': bE, 'preT': preT, 'bET': bET}}
        else:
            w = work_inter.draw(rng, maxsites=4, sigmas=(0.3, 1., 1.5), maxjumps=120)
        if w is None: continue
        crys, chem, sl, jn, N = w['crys'], w['chem'], w['sl'], w['jn'], w['N']
        dim = crys.dim
        p = walk.site_prob(w['pre'], w['bE'], w['inv'])
        jumps = walk.jump_table(jn, w['pre'], w['bE'], w['preT'], w['bET'], w['inv'])
        Dref, Q, b, D0, eta = walk.walk_D(N, dim, p, jumps, full=True)
        ev = np.linalg.eigvalsh(Dref)
        comps = walk.components(N, jumps)
        if ev.min() < 0.02 * ev.max():
            mon.count('skipped_singular_or_anisotropic_D')
            continue
        if not work_inter.lattice_connected(crys, chem, jn):
            mon.count('skipped_network_confined_to_sublattice')
            continue
        if len(comps) > 1:
            cs = [frozenset(c) for c in comps]
            if not all(any(frozenset(g.indexmap[chem][i] for i in cs[0]) == c for g in crys.G) for c in cs[1:]):
                mon.count('skipped_unrelated_components')
                continue
        done += 1
        if sample is None: sample = w['desc']
        mon.count('multi_wyckoff', len(sl) > 1)
        mon.count('dim2', dim == 2)
        mon.count('disconnected', len(comps) > 1)
        mon.sig([w['spec']['kind'], N, len(sl), len(jn), len(comps), w.get('sigma', 0)])
        dt = lambda: str(w['desc'])
        try:
            GF = GFcalc.GFCrystalcalc(crys, chem, sl, jn, 4)
            GF.SetRates(w['pre'], w['bE'], w['preT'], w['bET'])
        except Exception as e:
            import traceback
            mon.fail('C10:SetRates:raises:' + type(e).__name__, traceback.format_exc()[-600:] + dt())
            continue
        rates, esc = sym_rates(w)
        gsc = 1. / max(esc.max(), 1e-300)
        basis = crys.basis[chem]

        def pos(i, R):
            return crys.lattice @ (basis[i] + np.array(R))
        # sample of endpoint pairs
        pairs = []
        for _ in range(6):
            i, j = int(rng.integers(N)), int(rng.integers(N))
            R = rng.integers(-3, 4, size=dim)
            pairs.append((i, j, R))
        pairs.append((0, 0, np.zeros(dim, dtype=int)))
        resids = []
        GF8 = [None]
        GF12 = [None]
        for (i, j, R) in pairs:
            x = pos(j, R) - pos(i, np.zeros(dim))
            try:
                gij = GF(i, j, x)
                res = -esc[i] * gij - (1. if (i == j and not np.any(R)) else 0.)
                for (a, k, dx, wr) in rates:
                    if a == i: res += wr * GF(k, j, x - dx)
                gji = GF(j, i, -x)
            except Exception as e:
                mon.fail('C10:call:raises:' + type(e).__name__, str(e)[:300] + dt())
                continue
            resids.append(abs(res))
            if abs(res) > 1e-3:
                # hard case for the fixed mesh (rates spanning orders of magnitude): the property qualifies the equation by the
                # integration accuracy, so decide by convergence - the residual must at least halve on a mesh twice as dense
                try:
                    if GF8[0] is None:
                        GF8[0] = GFcalc.GFCrystalcalc(crys, chem, sl, jn, 8)
                        GF8[0].SetRates(w['pre'], w['bE'], w['preT'], w['bET'])
                    r8 = -esc[i] * GF8[0](i, j, x) - (1. if (i == j and not np.any(R)) else 0.)
                    for (a, k, dx, wr) in rates:
                        if a == i: r8 += wr * GF8[0](k, j, x - dx)
                except Exception as e:
                    r8 = np.inf
                mon.count('slowly_converging_residuals')
                r12 = None
                okres = abs(r8) <= 0.7 * abs(res)
                if not okres:
                    # convergence is not monotonic in the mesh density (observed 1.9e-3, 2.2e-3, 1.4e-3, 6.8e-4, 3.8e-4 and
                    # 2.0e-3, 5.8e-3, 3.9e-3, 1.7e-3, 9.7e-4 at Nmax 4, 6, 8, 12, 16 on anisotropic 2-D networks): a much denser mesh decides -
                    # at most half of the larger of the two coarse residuals
                    Nfine = 16 if dim == 2 else 12
                    try:
                        if GF12[0] is None:
                            GF12[0] = GFcalc.GFCrystalcalc(crys, chem, sl, jn, Nfine)
                            GF12[0].SetRates(w['pre'], w['bE'], w['preT'], w['bET'])
                        r12 = -esc[i] * GF12[0](i, j, x) - (1. if (i == j and not np.any(R)) else 0.)
                        for (a, k, dx, wr) in rates:
                            if a == i: r12 += wr * GF12[0](k, j, x - dx)
                    except Exception as e:
                        r12 = np.inf
                    mon.count('residuals_decided_on_finest_mesh')
                    okres = abs(r12) <= 0.5 * max(abs(res), abs(r8))
                mon.check(okres, 'C10:lattice-equation',
                          lambda: 'residual %.3e (Nmax=4) -> %.3e (Nmax=8) -> %s (Nmax=16 in 2-D, 12 in 3-D) at (i,j,R)=(%d,%d,%s) %s' % (res, r8, r12, i, j, R.tolist(), dt()))
            else:
                mon.check(True, 'C10:lattice-equation')
            mon.note_max('lattice_residual', abs(res))
            mon.check(abs(gij - gji) <= 1e-6 * gsc, 'C10:swap-symmetry', lambda: 'g(i,j,x)=%.10g g(j,i,-x)=%.10g %s' % (gij, gji, dt()))
            worst = 0.
            for g in list(crys.G)[:12]:
                gi, gj = g.indexmap[chem][i], g.indexmap[chem][j]
                worst = max(worst, abs(GF(gi, gj, g.cartrot @ x) - gij))
            mon.check(worst <= 1e-6 * gsc, 'C10:group-invariance', lambda: 'max_g |g(gi,gj,gx)-g(i,j,x)| = %.3e (scale %.3e) %s' % (worst, gsc, dt()))
        # bias correction vs R1: -Q~^+ b~ (normalised p)
        mon.close(GF.biascorrection(), -eta, 1e-5, 'C10:biascorrection', dt, scale=max(np.abs(eta).max(), np.sqrt(np.abs(D0).max() * gsc)))
        mon.close(GF.D, Dref, 1e-8, 'C10:D=R1', dt, scale=np.abs(D0).max())
        # uniform rate scaling
        lam = float(rng.uniform(0.1, 10))
        i, j, R = pairs[0]
        x = pos(j, R) - pos(i, np.zeros(dim))
        g1 = GF(i, j, x)
        GF.SetRates(w['pre'], w['bE'], w['preT'] * lam, w['bET'])
        mon.close(GF(i, j, x) * lam, g1, 1e-9, 'C10:rate-scaling:g', dt, scale=gsc)
        mon.close(GF.D / lam, Dref, 1e-8, 'C10:rate-scaling:D', dt, scale=np.abs(D0).max())
        GF.SetRates(w['pre'], w['bE'], w['preT'], w['bET'])
        # far field (3-D), evaluated with mild rates (ratios <= e^0.7 on random crystals, sigma <= 1 on the named nearest-neighbour
        # networks): with a nearly decoupled sub-network the continuum regime starts far beyond what the mesh resolves
        if dim == 3 and len(comps) == 1:
            named = 'lattice' not in w['desc']
            if named:
                pre2, bE2 = w['pre'], w['bE'] * min(1., 1. / max(w.get('sigma', 1.5), 1e-9))
                preT2, bET2 = w['preT'], bE2.max() + 1 + rng.uniform(0, 0.7, size=len(jn))
            else:
                pre2, bE2 = w['pre'], w['bE'] * 0.2 / max(w.get('sigma', 0.3), 0.2)
                preT2, bET2 = np.ones(len(jn)), bE2.max() + 1 + rng.uniform(0, 0.7, size=len(jn))
            p2 = walk.site_prob(pre2, bE2, w['inv'])
            D2 = walk.walk_D(N, dim, p2, walk.jump_table(jn, pre2, bE2, preT2, bET2, w['inv']))
            GF.SetRates(pre2, bE2, preT2, bET2)
            Dinv = np.linalg.inv(D2)
            pref = crys.volume / (4 * np.pi * np.sqrt(np.linalg.det(D2)))
            a = int(rng.integers(3))
            n2 = max(4, int(GF.kptgrid[a]) // 4)
            i, j = int(rng.integers(N)), int(rng.integers(N))
            devs = []
            for n in (3, n2):
                R = np.zeros(3, dtype=int)
                R[a] = n
                x = pos(j, R) - pos(i, np.zeros(3))
                pred = -np.sqrt(p2[i] * p2[j]) * pref / np.sqrt(x @ Dinv @ x)
                devs.append(abs(GF(i, j, x) / pred - 1))
            lim = 0.10 if named else 0.25
            mon.note_max('far_field_dev_named' if named else 'far_field_dev_random', max(devs))
            mon.check(devs[1] <= lim and devs[0] <= 2 * lim and devs[1] <= max(1.2 * devs[0] + 0.05, 0.5 * lim), 'C10:far-field',
                      lambda: 'deviations of g/pole from 1 at n=3,%d along a%d (i,j)=(%d,%d): %s (limit %.2f) pre=%s bE=%s preT=%s bET=%s %s'
                      % (n2, a, i, j, devs, lim, pre2, bE2, preT2, bET2, dt()))
            GF.SetRates(w['pre'], w['bE'], w['preT'], w['bET'])
        # reuse: the same calculator object given new data (site energies of the Wyckoff sets moved in opposite directions with the transition
        # states fixed - the symmetrised rates then stay the same although the Green function changes - or an entirely new random set) must
        # agree with a fresh calculator at separations it has already evaluated
        if done <= 2:
            try:
                nW = len(sl)
                if nW > 1 and rng.uniform() < 0.9:
                    dE = float(rng.uniform(0.3, 0.9)) * np.array([1. if q % 2 == 0 else -1. for q in range(nW)])
                    new = (w['pre'], w['bE'] + dE, w['preT'], w['bET'])
                    how = 'site energies moved oppositely'
                else:
                    new = (w['pre'], w['bE'], w['preT'], w['bET'] + rng.normal(size=len(w['bET'])) * 0.4)
                    how = 'new transition energies'
                GF.SetRates(*new)
                GFn = GFcalc.GFCrystalcalc(crys, chem, sl, jn, 4)
                GFn.SetRates(*new)
                worst, wpair = 0., None
                for (i, j, R) in pairs:
                    x = pos(j, R) - pos(i, np.zeros(dim))
                    a_, b_ = GF(i, j, x), GFn(i, j, x)
                    if abs(a_ - b_) > worst: worst, wpair = abs(a_ - b_), (i, j, R.tolist(), a_, b_)
                mon.count('reuse:' + how.replace(' ', '_'))
                mon.check(worst <= 1e-9 * max(abs(GFn(0, 0, np.zeros(dim))), 1e-300), 'C10:reuse=fresh',
                          lambda: 'after SetRates with %s the reused calculator differs from a fresh one by %.3e at %s %s' % (how, worst, wpair, dt()))
                GF.SetRates(w['pre'], w['bE'], w['preT'], w['bET'])
            except Exception as e:
                import traceback
                mon.fail('C10:reuse:raises:' + type(e).__name__, traceback.format_exc()[-400:] + dt())
        # convergence with the k-point density: whatever residual the default mesh leaves must be integration error, i.e. shrink on a much
        # denser mesh (an error of the analytic pole / cut-off treatment stays on every mesh)
        if done <= 2 and resids and max(resids) > 1e-6:
            Nfine = 16 if dim == 2 else 12
            try:
                GFf = GF12[0]
                if GFf is None:
                    GFf = GFcalc.GFCrystalcalc(crys, chem, sl, jn, Nfine)
                    GFf.SetRates(w['pre'], w['bE'], w['preT'], w['bET'])
                rf = []
                for (i, j, R) in pairs:
                    x = pos(j, R) - pos(i, np.zeros(dim))
                    res = -esc[i] * GFf(i, j, x) - (1. if (i == j and not np.any(R)) else 0.)
                    for (a, k, dx, wr) in rates:
                        if a == i: res += wr * GFf(k, j, x - dx)
                    rf.append(abs(res))
                mon.note_max('residual_fine/coarse', max(rf) / max(resids))
                mon.check(max(rf) <= max(0.5 * max(resids), 2e-4), 'C10:converges-with-mesh',
                          lambda: 'max residual Nmax=4: %.3e, Nmax=%d: %.3e %s' % (max(resids), Nfine, max(rf), dt()))
            except Exception as e:
                mon.fail('C10:Nfine:raises:' + type(e).__name__, str(e)[:300] + dt())
    return mon.result(sample=sample)
