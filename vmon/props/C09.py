"""C09: equivalent descriptions of the same crystal give the same transport.

Monitor: a crystal P and a re-description Q (another primitive basis given to the constructor, permuted atoms, a
non-reduced conventional cell / supercell) receive physically identical data - every site, jump, pair-state and
omega1/omega2 class of Q takes the value of the class of P that contains a member with the same Cartesian geometry
(matching by positions modulo P's lattice, never through tags) - and the interstitial diffusivity (algebraic tolerance)
and the four vacancy-mediated tensors (Green-function integration tolerance) must coincide.
"""
import numpy as np
from vmon import gen, work_vac, work_inter
from vmon.util import Mon
from vmon.ref import equiv

ID = 'C09'
RULE = ('interstitial: random crystals (as C02) x {unimodular re-basing + atom permutation through the reducing constructor, '
        'non-reduced supercell |det| 2..3 with permuted atoms (noreduce=True), the same supercell given to the reducing constructor}; vacancy: {fcc, bcc, sc, hcp, honey, square, tria, diamond, omega, b2} x '
        '{re-basing + permutation, conventional/super cell (thorough: fcc cubic cell, hcp orthohexagonal, 2-D doubled cells)} x random '
        'inputs; non-trivial = Q differs from P in lattice vectors, atom order or cell size; distinct = (crystal, description, input)')
ASSUMPTIONS = ['interstitial D: 1e-9 x scale; vacancy tensors: 1e-4 x scale (different k-point meshes for different cells; observed <= 2e-6 typically; a larger mismatch - 1.7e-4 on hcp in a sqrt2 x sqrt2 cell with rate spread 1e3 - is accepted only if it at least halves when both descriptions use NGFmax=8)',
               'supercell descriptions are built with noreduce=True from integer matrices that keep an orthogonal or already reduced cell '
               'shape, so that the symmetry search (entries -1..1) remains complete for them',
               'classes of Q are always unions of geometric images of classes of P (checked: clause C09:class-consistency)']
REQUIRED_OBS = {'eval:C09:inter:D': 30, 'eval:C09:vac:Lss': 10, 'desc:rebase': 10, 'desc:supercell': 5, 'desc:supercell-reduced': 5}
CASE_TIMEOUT = 2400
VQUICK = ['fcc', 'bcc', 'hcp', 'honey', 'square', 'diamond', 'omega', 'tria']
VTHOROUGH = VQUICK + ['sc', 'b2', 'lieb', 'kagome', 'rect', 'tet']
SUPER = {'fcc': np.array([[-1, 1, 1], [1, -1, 1], [1, 1, -1]]), 'bcc': np.array([[0, 1, 1], [1, 0, 1], [1, 1, 0]]),
         'square': np.array([[1, -1], [1, 1]]), 'tria': np.array([[1, 1], [-1, 1]]), 'honey': np.array([[1, 1], [-1, 1]]),
         'hcp': np.array([[1, 1, 0], [-1, 1, 0], [0, 0, 1]]), 'sc': np.array([[0, 1, 1], [1, 0, 1], [1, 1, 0]])}


def cases(tier, seed):
    out = [{'kind': 'inter', 'seed': seed, 'idx': i, 'hashseed': i % 3} for i in range(24 if tier == 'quick' else 300)]
    names = VQUICK if tier == 'quick' else VTHOROUGH
    for ci, n in enumerate(names):
        out.append({'kind': 'vac', 'seed': seed, 'idx': 1000 + ci, 'name': n, 'desc': 'rebase', 'ninputs': 2 if tier == 'quick' else 5,
                    'hashseed': ci % 3})
    for ci, n in enumerate(['hcp', 'honey', 'diamond'] if tier == 'quick' else ['hcp', 'honey', 'diamond', 'omega', 'lieb', 'b2', 'kagome']):
        out.append({'kind': 'vac', 'seed': seed, 'idx': 3000 + ci, 'name': n, 'desc': 'supercell-reduced', 'ninputs': 2 if tier == 'quick' else 4,
                    'hashseed': ci % 3})
    for ci, n in enumerate(['square', 'tria', 'fcc'] if tier == 'quick' else list(SUPER)):
        out.append({'kind': 'vac', 'seed': seed, 'idx': 2000 + ci, 'name': n, 'desc': 'supercell', 'ninputs': 2 if tier == 'quick' else 4,
                    'hashseed': ci % 3})
    return out


def rand_unimodular(rng, dim):
    while True:
        U = np.eye(dim, dtype=int)
        for _ in range(3):
            a, b = rng.choice(dim, size=2, replace=False)
            E = np.eye(dim, dtype=int)
            E[a, b] = int(rng.choice([-1, 1]))
            U = U @ E
        if not np.array_equal(U, np.eye(dim, dtype=int)): return U


def redescribe(P, rng, how, S=None):
    from onsager import crystal
    if how == 'rebase':
        U = rand_unimodular(rng, P.dim)
        latt = P.lattice @ U
        Ui = np.linalg.inv(U)
        basis = [[(Ui @ u) % 1.0 for u in lst] for lst in P.basis]
        basis = [[lst[k] for k in rng.permutation(len(lst))] for lst in basis]
        return crystal.Crystal(latt, basis), {'how': how, 'U': U}
    latt, basis = equiv.supercell_description(P, S, rng)
    if how == 'supercell-reduced':  # the default constructor has to reduce the cell back to a primitive one
        return crystal.Crystal(latt, basis), {'how': how, 'S': S}
    return crystal.Crystal(latt, basis, noreduce=True), {'how': how, 'S': S}


def run_inter(case, mon):
    from onsager import OnsagerCalc
    rng = gen.rng_for(case['seed'], case['idx'], 9)
    sample = None
    for k in range(4):
        w = work_inter.draw(rng, maxsites=4)
        if w is None: continue
        P, chem, sl, jn, N = w['crys'], w['chem'], w['sl'], w['jn'], w['N']
        how = ('rebase', 'supercell', 'supercell-reduced', 'supercell')[k % 4]
        S = None
        if how != 'rebase':
            S = np.diag([int(x) for x in rng.permutation([2] + [1] * (P.dim - 1))])
            if rng.uniform() < 0.3: S[S == 2] = 3
        with mon.guard('C09:inter'):
            Q, d = redescribe(P, rng, how, S)
            t, mp = equiv.site_map(P, Q)
            if mp is None or (how != 'supercell' and Q.N != P.N):
                mon.check(False, 'C09:same-crystal', 'description Q does not describe P: %s %s' % (d, w['desc']))
                continue
            mon.count('desc:' + how)
            slQ = Q.sitelist(chem)
            jnQ = Q.jumpnetwork(chem, w['cutoff'])
            look = equiv.jump_class_lookup(jn)
            ok = True
            preQ, bEQ, preTQ, bETQ = [], [], [], []
            for s in slQ:
                cl = {equiv.class_of_site(sl, mp[(chem, i)][1]) for i in s}
                ok &= len(cl) == 1
                c0 = cl.pop()
                preQ.append(w['pre'][c0])
                bEQ.append(w['bE'][c0])
            for jl in jnQ:
                cl = {look(mp[(chem, i)][1], mp[(chem, j)][1], dx) for (i, j), dx in jl}
                ok &= len(cl) == 1 and None not in cl
                c0 = cl.pop()
                if c0 is None: break
                preTQ.append(w['preT'][c0])
                bETQ.append(w['bET'][c0])
            nQ = sum(len(j) for j in jnQ) * P.N // Q.N if Q.N else 0
            ok &= len(preTQ) == len(jnQ) and sum(len(j) for j in jnQ) * len(P.basis[chem]) == sum(len(j) for j in jn) * len(Q.basis[chem])
            if not mon.check(ok, 'C09:class-consistency', lambda: 'classes of Q are not images of classes of P %s %s' % (d, w['desc'])):
                continue
            DP = OnsagerCalc.Interstitial(P, chem, sl, jn).diffusivity(w['pre'], w['bE'], w['preT'], w['bET'])
            DQ = OnsagerCalc.Interstitial(Q, chem, slQ, jnQ).diffusivity(np.array(preQ), np.array(bEQ), np.array(preTQ), np.array(bETQ))
            rates = [r for rl in OnsagerCalc.Interstitial(P, chem, sl, jn).ratelist(w['pre'], w['bE'], w['preT'], w['bET']) for r in rl]
            sc = max(np.abs(DP).max(), max(rates) * w['cutoff'] ** 2 / N * 1e-3)
            mon.close(DQ, DP, 1e-9, 'C09:inter:D', lambda: '%s |G_P|=%d |G_Q|=%d %s' % (d, len(P.G), len(Q.G), w['desc']), scale=sc)
            mon.seen('group_orders_PQ', [len(P.G), len(Q.G)])
            mon.sig(['inter', case['idx'], k, how])
            if sample is None: sample = {'P': w['desc'], 'Q': d}
    return sample


def state_key(PS):
    return (PS.i, PS.j, tuple(np.round(PS.dx, 6)))


def run_vac(case, mon):
    from onsager import OnsagerCalc
    rng = gen.rng_for(case['seed'], case['idx'], 9)
    name = case['name']
    dP = work_vac.get_calc(name, 1)
    P, chem = dP.crys, dP.chem
    crys0, chem0, cutoff = gen.named(name)
    S = SUPER.get(name)
    if case['desc'] == 'supercell-reduced':
        S = np.diag([int(x) for x in rng.permutation([int(rng.integers(2, 4))] + [1] * (P.dim - 1))])
    Q, d = redescribe(P, rng, case['desc'], S)
    t, mp = equiv.site_map(P, Q)
    sample = {'crystal': name, 'Q': d}
    if mp is None or (case['desc'] != 'supercell' and Q.N != P.N):
        mon.check(False, 'C09:same-crystal', 'description Q does not describe P (|Q|=%d atoms, |P|=%d): %s' % (Q.N, P.N, d))
        return sample
    mon.count('desc:' + case['desc'])
    slQ, jnQ = Q.sitelist(chem), Q.jumpnetwork(chem, cutoff)
    dQ = OnsagerCalc.VacancyMediated(Q, chem, slQ, jnQ, 1)
    m = lambda i: mp[(chem, i)][1]
    # lookups in P
    starP = {}
    for k, star in enumerate(dP.thermo.stars):
        for s in star: starP[state_key(dP.thermo.states[s])] = k
    om1P, om2P = {}, {}
    for k, jl in enumerate(dP.om1_jn):
        for (a, b), dx in jl:
            om1P[(state_key(dP.kinetic.states[a]), state_key(dP.kinetic.states[b]))] = k
    for k, jl in enumerate(dP.om2_jn):
        for (a, b), dx in jl:
            om2P[(state_key(dP.kinetic.states[a]), state_key(dP.kinetic.states[b]))] = k
    look0 = equiv.jump_class_lookup(dP.om0_jn)

    def keyQ(PS):
        return (m(PS.i), m(PS.j), tuple(np.round(PS.dx, 6)))
    ok = True
    mapW = []
    for s in slQ:
        cl = {equiv.class_of_site(dP.sitelist, m(i)) for i in s}
        ok &= len(cl) == 1
        mapW.append(cl.pop())
    map0 = []
    for jl in dQ.om0_jn:
        cl = {look0(m(i), m(j), dx) for (i, j), dx in jl}
        ok &= len(cl) == 1 and None not in cl
        map0.append(cl.pop())
    mapSV = []
    for star in dQ.thermo.stars:
        cl = {starP.get(keyQ(dQ.thermo.states[s])) for s in star}
        ok &= len(cl) == 1 and None not in cl
        mapSV.append(cl.pop())
    map1 = []
    for jl in dQ.om1_jn:
        cl = {om1P.get((keyQ(dQ.kinetic.states[a]), keyQ(dQ.kinetic.states[b]))) for (a, b), dx in jl}
        ok &= len(cl) == 1 and None not in cl
        map1.append(cl.pop())
    map2 = []
    for jl in dQ.om2_jn:
        cl = {om2P.get((keyQ(dQ.kinetic.states[a]), keyQ(dQ.kinetic.states[b]))) for (a, b), dx in jl}
        ok &= len(cl) == 1 and None not in cl
        map2.append(cl.pop())
    if not mon.check(ok, 'C09:class-consistency', 'classes of Q are not geometric images of classes of P: %s %s' % (name, d)):
        return sample
    mon.seen('group_orders_PQ', [len(P.G), len(Q.G)])
    for k in range(case['ninputs']):
        args = work_vac.rand_args(rng, dP, 'VSB012', float(rng.choice([0.3, 0.7, 1.2])))
        tags = work_vac.regime_tags(dP, args)
        aQ = [np.array([args[0][w] for w in mapW]), np.array([args[1][w] for w in mapW]), np.array([args[2][w] for w in mapSV]),
              np.array([args[3][w] for w in map0]), np.array([args[4][w] for w in map1]), np.array([args[5][w] for w in map2])]
        try:
            LP = [np.array(x) for x in dP.Lij(*args)]
            LQ = [np.array(x) for x in dQ.Lij(*aQ)]
        except Exception as e:
            import traceback
            mon.fail('C09:vac:raises:' + type(e).__name__, traceback.format_exc()[-500:], tags)
            continue
        sc = max(np.abs(LP[0]).max(), np.abs(LP[1]).max(), 1e-300)
        fine = None
        for q, (nm, a, b) in enumerate(zip(('L0vv', 'Lss', 'Lsv', 'L1vv'), LQ, LP)):
            scq = max(sc, np.abs(b).max())
            e4 = float(np.abs(a - b).max()) / scq
            if e4 > 1e-4:
                # the two cells get different k-point meshes: a mismatch at the default density counts only if it does not shrink on
                # denser meshes (both descriptions recomputed with NGFmax=8)
                if fine is None:
                    try:
                        dP8 = work_vac.get_calc(name, 1, NGFmax=8)
                        dQ8 = OnsagerCalc.VacancyMediated(Q, chem, slQ, jnQ, 1, 8)
                        fine = ([np.array(x) for x in dQ8.Lij(*aQ)], [np.array(x) for x in dP8.Lij(*args)])
                        dP8.clearcache()
                    except Exception:
                        fine = False
                    mon.count('checked_by_mesh_convergence')
                if fine:
                    e8 = float(np.abs(fine[0][q] - fine[1][q]).max()) / max(sc, np.abs(fine[1][q]).max())
                    if e8 <= 0.5 * e4:
                        mon.check(True, 'C09:vac:' + nm)
                        mon.note_max('mesh_mismatch_resolved:' + nm, e4)
                        continue
            mon.close(a, b, 1e-4, 'C09:vac:' + nm, lambda: '%s %s Q=%s P=%s args=%s' % (name, d, a.tolist(), b.tolist(), args), tags, scale=scq)
        mon.sig(['vac', name, case['desc'], k])
    dP.clearcache()
    return sample


def run_case(case):
    mon = Mon()
    sample = run_inter(case, mon) if case['kind'] == 'inter' else run_vac(case, mon)
    return mon.result(sample=sample)
