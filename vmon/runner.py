"""Runner: fans the cases of one property out to worker subprocesses, collects what the
monitors observed, classifies violations against known_findings.json, writes evidence and
replay files and sets the exit status.

Verdicts are three valued:
  exit 0  held on everything explored (KNOWN-FINDING lines possible)
  exit 1  VIOLATION property=<id> replay=<path>   (a monitor fired, not a listed finding)
  exit 2  INCONCLUSIVE ...                          (watchdog, or a deciding monitor never ran)
"""
import os, sys, json, time, importlib, subprocess, fnmatch, hashlib, threading
from concurrent.futures import ThreadPoolExecutor

ROOT = os.path.dirname(os.path.dirname(os.path.abspath(__file__)))
REPO = os.environ.get('VERIF_REPO', '/repo')
PY = os.environ.get('VERIF_PY', '/venv/bin/python')
NPROC = int(os.environ.get('VERIF_JOBS', str(min(16, os.cpu_count() or 4))))
MARK = '@@VMON '


def load_module(pid):
    return importlib.import_module('vmon.props.' + pid)


def worker_env(hashseed, extra):
    env = dict(os.environ)
    env['PYTHONPATH'] = os.pathsep.join([REPO, ROOT, os.path.join(ROOT, '.deps')])
    env['PYTHONHASHSEED'] = str(hashseed)
    env['ONSAGER_VERIF'] = '1'
    env['VERIF_REPO'] = REPO
    env['PYTHONDONTWRITEBYTECODE'] = '1'
    env['PYTHONWARNINGS'] = 'ignore::SyntaxWarning'
    for k in ('OMP_NUM_THREADS', 'OPENBLAS_NUM_THREADS', 'MKL_NUM_THREADS', 'NUMBA_NUM_THREADS'):
        env[k] = '1'
    env.setdefault('NUMBA_CACHE_DIR', os.path.join(ROOT, 'scratch', 'numba_cache'))
    for k, v in (extra or {}).items():
        env[k] = str(v)
    return env


def run_chunk(pid, chunk, hashseed, extra, timeout):
    """chunk: list of (index, case). Returns dict index -> result-or-status."""
    out = {}
    pending = list(chunk)
    while pending:
        inp = ''.join(json.dumps({'index': i, 'case': c}) + '\n' for i, c in pending)
        proc = subprocess.Popen([PY, '-X', 'faulthandler', '-m', 'vmon.worker', pid], stdin=subprocess.PIPE,
                                stdout=subprocess.PIPE, stderr=subprocess.PIPE, text=True,
                                env=worker_env(hashseed, extra), cwd=ROOT)
        timedout = False
        try:
            # wall-clock watchdog only (its firing is INCONCLUSIVE, never a verdict): stretched on an oversubscribed machine
            scale = max(1.0, 2.0 * os.getloadavg()[0] / (os.cpu_count() or 1))
            so, se = proc.communicate(inp, timeout=timeout * len(pending) * scale + 60)
        except subprocess.TimeoutExpired:
            proc.kill()
            so, se = proc.communicate()
            timedout = True
        started = None
        done = set()
        for line in so.splitlines():
            if not line.startswith(MARK):
                continue
            msg = json.loads(line[len(MARK):])
            if msg['t'] == 'start':
                started = msg['index']
            elif msg['t'] == 'result':
                out[msg['index']] = msg['result']
                done.add(msg['index'])
                started = None
        rest = [(i, c) for i, c in pending if i not in done]
        if not rest:
            break
        # worker stopped before finishing: the case in flight is the culprit
        if started is None:
            started = rest[0][0]
        if timedout:
            out[started] = {'status': 'timeout', 'stderr': se[-2000:]}
        else:
            out[started] = {'status': 'crash', 'returncode': proc.returncode, 'stderr': se[-4000:]}
        pending = [(i, c) for i, c in rest if i != started]
    return out


def agg_obs(total, obs):
    for k, v in (obs or {}).items():
        if isinstance(v, bool):
            v = int(v)
        if k.startswith('max_'):
            total[k] = v if k not in total else max(total[k], v)
        elif k.startswith('min_'):
            total[k] = v if k not in total else min(total[k], v)
        elif isinstance(v, (int, float)):
            total[k] = total.get(k, 0) + v
        elif isinstance(v, (list, tuple)):
            s = set(total.get(k, []))
            s.update(json.dumps(x, sort_keys=True) if not isinstance(x, (str, int, float)) else x for x in v)
            total[k] = sorted(s, key=str)[:60]
        elif isinstance(v, dict):
            d = total.setdefault(k, {})
            agg_obs(d, v)
    return total


def load_findings(pid):
    path = os.path.join(ROOT, 'known_findings.json')
    if not os.path.exists(path):
        return []
    with open(path) as f:
        data = json.load(f)
    return [x for x in data.get('findings', []) if x.get('property') == pid]


def match_finding(findings, viol, casetags):
    tags = set(viol.get('tags', [])) | set(casetags or [])
    for f in findings:
        if any(fnmatch.fnmatch(viol['clause'], pat) for pat in f['clauses']) and set(f.get('requires', [])) <= tags \
                and not (set(f.get('excludes', [])) & tags):
            return f
    return None


def main(pid, tier, seed, replay=None, only=None):
    t0 = time.time()
    mod = load_module(pid)
    level = getattr(mod, 'LEVEL', 'exploration')
    if replay:
        with open(replay) as f:
            rp = json.load(f)
        cases = [rp['case']]
    else:
        cases = mod.cases(tier, seed)
        if only is not None:
            cases = [cases[i] for i in only]
    timeout = getattr(mod, 'CASE_TIMEOUT', 600)
    # group by (hashseed, env)
    groups = {}
    for idx, c in enumerate(cases):
        key = (c.get('hashseed', 0), json.dumps(c.get('env', {}), sort_keys=True))
        groups.setdefault(key, []).append((idx, c))
    chunksz = getattr(mod, 'CHUNK', None)
    jobs = []
    for (hs, envs), lst in groups.items():
        n = chunksz or max(1, min(40, -(-len(lst) // (NPROC * 2))))
        for a in range(0, len(lst), n):
            jobs.append((hs, json.loads(envs), lst[a:a + n]))
    results = {}
    lock = threading.Lock()

    def do(job):
        hs, env, chunk = job
        r = run_chunk(pid, chunk, hs, env, timeout)
        with lock:
            results.update(r)

    os.makedirs(os.path.join(ROOT, 'scratch', 'numba_cache'), exist_ok=True)
    with ThreadPoolExecutor(max_workers=NPROC) as ex:
        list(ex.map(do, jobs))

    findings = load_findings(pid)
    total_obs, sigs, samples = {}, set(), []
    nviol, known, inconclusive, evals = 0, {}, [], 0
    vlines = []
    os.makedirs(os.path.join(ROOT, 'replay'), exist_ok=True)
    for idx, c in enumerate(cases):
        r = results.get(idx)
        if r is None:
            inconclusive.append('case %d produced no result' % idx)
            continue
        viols = []
        if r.get('status') == 'timeout':
            inconclusive.append('case %d watchdog timeout' % idx)
            continue
        if r.get('status') == 'crash':
            viols = [{'clause': 'crash', 'detail': 'worker died rc=%s: %s' % (r.get('returncode'), r.get('stderr', '')[-1500:]),
                      'tags': []}]
            r = {'violations': viols}
        evals += int(r.get('evals', 1))
        agg_obs(total_obs, r.get('obs'))
        if r.get('nontrivial', True) and r.get('sig') is not None:
            for s in (r['sig'] if isinstance(r['sig'], list) else [r['sig']]):
                sigs.add(json.dumps(s, sort_keys=True))
        if r.get('sample') is not None and len(samples) < 4:
            samples.append(r['sample'])
        if r.get('inconclusive'):
            inconclusive.append('case %d: %s' % (idx, r['inconclusive']))
        unknown = []
        for v in r.get('violations', []):
            f = match_finding(findings, v, r.get('tags', []))
            if f is not None:
                k = known.setdefault(f['id'], {'count': 0, 'what': f['what'], 'example': v.get('detail', '')[:300]})
                k['count'] += 1
            else:
                unknown.append(v)
        if unknown:
            nviol += len(unknown)
            h = hashlib.sha1(json.dumps(c, sort_keys=True).encode()).hexdigest()[:10]
            path = os.path.join(ROOT, 'replay', '%s-%s.json' % (pid, h))
            with open(path, 'w') as f:
                json.dump({'property': pid, 'tier': tier, 'seed': seed, 'case': c, 'violations': unknown,
                           'replay_cmd': './check %s --replay %s' % (pid, path)}, f, indent=1, default=str)
            vlines.append((path, unknown))
    if not samples:
        samples = cases[:3]
    # required observations: deciding monitors must have run
    req = getattr(mod, 'REQUIRED_OBS', {})
    if callable(req):
        req = req(tier)
    if not replay and only is None:
        for k, mn in req.items():
            if total_obs.get(k, 0) < mn:
                inconclusive.append('monitor counter %s=%s below required %s' % (k, total_obs.get(k, 0), mn))
    wall = time.time() - t0
    cov = {'evaluations': max(evals, 0), 'distinct_nontrivial': len(sigs),
           'rule': getattr(mod, 'RULE', ''), 'samples': samples, 'observed': total_obs,
           'cases': len(cases), 'inconclusive': inconclusive[:20],
           'known_findings_seen': known, 'exhaustive': bool(getattr(mod, 'EXHAUSTIVE', False))}
    if hasattr(mod, 'LIMITS'):
        cov['limits'] = mod.LIMITS
    ev = {'property_id': pid, 'tier': tier, 'seed': int(seed), 'level': level, 'coverage': cov,
          'assumptions': getattr(mod, 'ASSUMPTIONS', []), 'wall_s': round(wall, 2), 'violations': nviol}
    if not replay and only is None:
        # evidence describes /repo only: runs against another tree (VERIF_REPO, used for seeded changes) go to scratch/
        evdir = os.path.join(ROOT, 'evidence') if os.path.realpath(REPO) == '/repo' else os.path.join(ROOT, 'scratch', 'evidence-other-tree')
        os.makedirs(evdir, exist_ok=True)
        with open(os.path.join(evdir, pid + '.json'), 'w') as f:
            json.dump(ev, f, indent=1, default=str)
    for fid, k in sorted(known.items()):
        print('KNOWN-FINDING: property=%s %s: %s (seen %d times this run)' % (pid, fid, k['what'], k['count']))
    for path, unknown in vlines:
        for v in unknown[:2]:
            print('  witness clause=%s %s' % (v['clause'], str(v.get('detail', ''))[-300:].replace('\n', ' | ')))
        print('VIOLATION property=%s replay=%s' % (pid, path))
    print('%s tier=%s seed=%s cases=%d evaluations=%d distinct_nontrivial=%d violations=%d known=%d wall=%.1fs' % (
        pid, tier, seed, len(cases), evals, len(sigs), nviol, sum(k['count'] for k in known.values()), wall))
    if os.environ.get('VERIF_VERBOSE'):
        print(json.dumps(total_obs, indent=1, default=str))
    if nviol:
        return 1
    if inconclusive:
        for s in inconclusive[:10]:
            print('INCONCLUSIVE property=%s %s' % (pid, s))
        return 2
    return 0
