"""R5 for clusters: brute-force enumeration of site clusters and of their symmetry orbits.

Independent of onsager.cluster: a site is the plain tuple (c, i, R) (R a tuple of ints), a group
operation is a Cartesian isometry x -> Q x + t, applied to the Cartesian position of every site and
mapped back to (c, i, R) by matching positions against the basis.  Cluster identity is the set of
sites modulo a common lattice translation; the canonical forms below are

  plain    ('p', sorted sites)                       translated so that the result is minimal
  vacancy  ('v', vacancy site, sorted other sites)   translated so that the vacancy is in cell 0
  ts       ('t', a, b, sorted other sites)           unordered {a, b}: minimum of the two orientations,
                                                     each translated so that its first site is in cell 0
  tsvac    ('tv', a, b, sorted other sites)          ordered (a = vacancy), a in cell 0; the other
                                                     sites may contain b (``with end point'' variant)
"""
import itertools
import numpy as np
from vmon.ref import geom


def site(c, i, R):
    return (int(c), int(i), tuple(int(x) for x in R))


def shift(s, R0):
    return (s[0], s[1], tuple(a - b for a, b in zip(s[2], R0)))


def canon_plain(sites):
    sites = list(sites)
    best = None
    for s0 in sites:
        t = tuple(sorted(shift(s, s0[2]) for s in sites))
        if best is None or t < best: best = t
    return ('p', best)


def canon_vac(v, others):
    return ('v', shift(v, v[2]), tuple(sorted(shift(s, v[2]) for s in others)))


def canon_tsvac(a, b, others):
    return ('tv', shift(a, a[2]), shift(b, a[2]), tuple(sorted(shift(s, a[2]) for s in others)))


def canon_ts(a, b, others):
    f = (shift(a, a[2]), shift(b, a[2]), tuple(sorted(shift(s, a[2]) for s in others)))
    r = (shift(b, b[2]), shift(a, b[2]), tuple(sorted(shift(s, b[2]) for s in others)))
    return ('t',) + min(f, r)


def canon_of_repo_cluster(cl):
    """Canonical form of an onsager.cluster.Cluster, read from its public data only
    (sites, transition / vacancy flags)."""
    ss = [site(cs.ci[0], cs.ci[1], cs.R) for cs in cl.sites]
    tr, va = bool(cl.__transition__), bool(cl.__vacancy__)
    if tr and va: return canon_tsvac(ss[0], ss[1], ss[2:])
    if tr: return canon_ts(ss[0], ss[1], ss[2:])
    if va: return canon_vac(ss[0], ss[1:])
    return canon_plain(ss)


class Geometry:
    """Positions <-> sites for one crystal, and the reference symmetry operations."""

    def __init__(self, crys, tol=1e-6):
        self.latt = np.array(crys.lattice, dtype=float)
        self.invlatt = np.linalg.inv(self.latt)
        self.basis = [[np.array(u, dtype=float) for u in lst] for lst in crys.basis]
        self.dim = self.latt.shape[0]
        self.tol = tol
        self.flat = [(c, i) for c, lst in enumerate(self.basis) for i in range(len(lst))]
        self._cache = {}

    def cart(self, s):
        return self.latt @ (self.basis[s[0]][s[1]] + np.array(s[2]))

    def find(self, x):
        """site at Cartesian position x (brute-force match against every basis atom)"""
        u = self.invlatt @ x
        hits = []
        for (c, i) in self.flat:
            d = u - self.basis[c][i]
            R = np.round(d)
            if np.all(np.abs(d - R) < self.tol):
                hits.append((c, i, tuple(int(r) for r in R)))
        if len(hits) != 1:
            raise LookupError('position %s matches %d sites' % (x, len(hits)))
        return hits[0]

    def ops_full(self):
        """Cartesian (Q, t) from the independent brute-force space group."""
        G = geom.full_group(self.latt, self.basis)
        return [(self.latt @ M @ self.invlatt, self.latt @ t) for (M, t, _) in G]

    @staticmethod
    def ops_from_crystal(crys):
        """Cartesian (Q, t) of the operations the crystal reports (applied geometrically)."""
        return [(np.array(g.cartrot, dtype=float), crys.lattice @ np.array(g.trans, dtype=float)) for g in crys.G]

    def apply(self, k, op, s):
        key = (k, s)
        r = self._cache.get(key)
        if r is None:
            Q, t = op
            r = self.find(Q @ self.cart(s) + t)
            self._cache[key] = r
        return r

    # -- neighbours -------------------------------------------------------------------
    def neighbours(self, cutoff, allowed):
        """nn[(c,i)] = set of (c', i', R) with 0 < |x(c',i',R) - x(c,i,0)| < cutoff, both species allowed.
        The image range is the rigorous bound |n_d| <= cutoff |b_d| + |du_d| (+2)."""
        nmax = [int(np.ceil(cutoff * np.linalg.norm(self.invlatt[d]))) + 3 for d in range(self.dim)]
        grid = np.array(list(itertools.product(*[range(-n, n + 1) for n in nmax])), dtype=int)
        nn = {}
        c2 = cutoff * cutoff
        sites = [(c, i) for (c, i) in self.flat if c in allowed]
        for (c0, i0) in sites:
            lst = set()
            for (c1, i1) in sites:
                du = self.basis[c1][i1] - self.basis[c0][i0]
                dx = (grid + du) @ self.latt.T
                d2 = np.einsum('ij,ij->i', dx, dx)
                for k in np.nonzero((d2 > 1e-16) & (d2 < c2))[0]:
                    lst.add((c1, i1, tuple(int(x) for x in grid[k])))
            nn[(c0, i0)] = lst
        return nn

    def pair_distances(self, allowed, rmax):
        """sorted distinct distances (< rmax) between allowed sites"""
        nmax = [int(np.ceil(rmax * np.linalg.norm(self.invlatt[d]))) + 2 for d in range(self.dim)]
        grid = np.array(list(itertools.product(*[range(-n, n + 1) for n in nmax])), dtype=int)
        out = []
        sites = [(c, i) for (c, i) in self.flat if c in allowed]
        for a, (c0, i0) in enumerate(sites):
            for (c1, i1) in sites[a:]:
                du = self.basis[c1][i1] - self.basis[c0][i0]
                dx = (grid + du) @ self.latt.T
                d = np.sqrt(np.einsum('ij,ij->i', dx, dx))
                out.append(d[(d > 1e-8) & (d < rmax)])
        return np.sort(np.concatenate(out)) if out else np.zeros(0)

    def coordination(self, allowed, cutoff):
        """largest number of allowed neighbours within cutoff of any allowed site"""
        nn = self.neighbours(cutoff, allowed)
        return max([len(v) for v in nn.values()] + [0])


def enumerate_clusters(geo, cutoff, maxorder, exclude=()):
    """All sets of 1..maxorder distinct sites of non-excluded species that are pairwise closer
    than cutoff, modulo lattice translations: set of canonical plain clusters."""
    allowed = set(c for c in range(len(geo.basis)) if c not in set(exclude))
    nn = geo.neighbours(cutoff, allowed) if maxorder >= 2 else {}

    def adjacent(a, b):
        return (b[0], b[1], tuple(x - y for x, y in zip(b[2], a[2]))) in nn[(a[0], a[1])]

    zero = (0,) * geo.dim
    out = set()
    for (c, i) in geo.flat:
        if c not in allowed: continue
        s0 = (c, i, zero)
        out.add(canon_plain([s0]))
        if maxorder < 2: continue
        cand = sorted(nn[(c, i)])
        # cliques containing s0: depth-first extension with candidates in increasing order
        stack = [([s0], cand)]
        while stack:
            members, cands = stack.pop()
            for k, s in enumerate(cands):
                new = members + [s]
                out.add(canon_plain(new))
                if len(new) < maxorder:
                    rest = [t for t in cands[k + 1:] if adjacent(s, t)]
                    if rest: stack.append((new, rest))
    return out


def transform(geo, ops, k, canon):
    """image of a canonical cluster under operation number k"""
    op = ops[k]
    kind = canon[0]
    ap = lambda s: geo.apply(k, op, s)
    if kind == 'p':
        return canon_plain([ap(s) for s in canon[1]])
    if kind == 'v':
        return canon_vac(ap(canon[1]), [ap(s) for s in canon[2]])
    if kind == 't':
        return canon_ts(ap(canon[1]), ap(canon[2]), [ap(s) for s in canon[3]])
    if kind == 'tv':
        return canon_tsvac(ap(canon[1]), ap(canon[2]), [ap(s) for s in canon[3]])
    raise ValueError(kind)


def reverse_tsvac(canon):
    """reversal of a vacancy transition: the vacancy sits on b and hops to a; the atom that sat on b
    now sits on a.  Variant without end point stays without, variant with end point stays with."""
    _, a, b, others = canon
    others = list(others)
    if b in others:
        others = [s for s in others if s != b] + [a]
    return canon_tsvac(b, a, others)


def orbit(geo, ops, canon, reversal=False):
    """orbit of a canonical cluster under all operations (and reversal of vacancy transitions)"""
    orb = set()
    todo = [canon]
    while todo:
        x = todo.pop()
        if x in orb: continue
        orb.add(x)
        for k in range(len(ops)):
            y = transform(geo, ops, k, x)
            if y not in orb: todo.append(y)
        if reversal and x[0] == 'tv':
            y = reverse_tsvac(x)
            if y not in orb: todo.append(y)
    return orb


def jump_pairs(geo, chem, jumpnetwork):
    """set of ordered site pairs ((chem,i,0), (chem,j,R)) of a jump network given as ((i,j),dx) lists,
    found geometrically: the end point is the site at x_i + dx."""
    zero = (0,) * geo.dim
    out = set()
    for jn in jumpnetwork:
        for (i, j), dx in jn:
            a = (chem, int(i), zero)
            b = geo.find(geo.cart(a) + np.asarray(dx, dtype=float))
            out.add((a, b))
    return out


def vacancy_clusters(plain, chem):
    """every way of declaring one site of species chem of a plain cluster the vacancy"""
    out = set()
    for cl in plain:
        sites = cl[1]
        for k, s in enumerate(sites):
            if s[0] == chem:
                out.add(canon_vac(s, sites[:k] + sites[k + 1:]))
    return out


def ts_clusters(plain, jumps):
    """plain clusters that contain both end points of a jump: (unordered jump, remaining sites)"""
    out = set()
    for cl in plain:
        sites = cl[1]
        for a in sites:
            for b in sites:
                if a is b: continue
                if (shift(a, a[2]), shift(b, a[2])) in jumps:
                    out.add(canon_ts(a, b, [s for s in sites if s != a and s != b]))
    return out


def tsvac_clusters(vac, jumps):
    """vacancy clusters whose vacancy can hop onto one of the cluster's sites: without and with
    the end point kept as an occupied site"""
    out = set()
    for cl in vac:
        v, others = cl[1], cl[2]
        for b in others:
            if (v, b) in jumps:
                rest = [s for s in others if s != b]
                out.add(canon_tsvac(v, b, rest))
                out.add(canon_tsvac(v, b, rest + [b]))
    return out


# ---------------------------------------------------------------------------------------------
# workload helpers shared by the cluster drivers (C31, C32)
# ---------------------------------------------------------------------------------------------
def safe(dists, c, margin=1e-4):
    return not np.any(np.abs(dists - c) < margin)


def choose_cutoff(geo, allowed, order, rng, coord_limit, kmin=1):
    """random cut-off inside a gap between neighbour shells (shell number drawn at random, lowered until the
    coordination is below the limit for this order); no pair distance within 1e-4 of it"""
    dists = geo.pair_distances(allowed, 2.6)
    shells = np.unique(np.round(dists, 6))
    if len(shells) == 0:
        return 0.5
    kmax = int(rng.integers(kmin, 6))
    for k in range(min(kmax, len(shells) - 1), 0, -1):
        lo, hi = shells[k - 1], shells[k]
        if hi - lo < 4e-4: continue
        c = float(rng.uniform(lo + 2e-4, hi - 2e-4))
        if not safe(dists, c): continue
        if order >= 2 and k > 1 and geo.coordination(allowed, c) > coord_limit[order]: continue
        return c
    if rng.uniform() < 0.5 or len(shells) < 2:
        return float(shells[0] * rng.uniform(0.5, 0.95))  # below the first shell: only single-site clusters
    return float(0.5 * (shells[0] + shells[1])) if shells[1] - shells[0] > 4e-4 else float(shells[0] * 0.9)
