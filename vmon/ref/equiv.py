"""Physical (Cartesian) matching between two descriptions P and Q of the same crystal (R5-style, no tags, no symmetry)."""
import itertools
import numpy as np


def frac_close(P, x, tol=1e-6):
    u = np.linalg.solve(P.lattice, x)
    return np.all(np.abs(u - np.round(u)) < tol)


def site_map(P, Q, tol=1e-6):
    """Returns (t, {(c,iQ): (c,iP)}) with x_Q - t == x_P modulo P's lattice; None if the descriptions differ."""
    cmin = min(range(len(Q.basis)), key=lambda c: len(Q.basis[c]))
    x0 = Q.lattice @ Q.basis[cmin][0]
    for uP in P.basis[cmin]:
        t = x0 - P.lattice @ uP
        mp = {}
        ok = True
        for c, lst in enumerate(Q.basis):
            for iQ, u in enumerate(lst):
                x = Q.lattice @ u - t
                hits = [iP for iP, v in enumerate(P.basis[c]) if frac_close(P, x - P.lattice @ v, tol)]
                if len(hits) != 1:
                    ok = False
                    break
                mp[(c, iQ)] = (c, hits[0])
            if not ok: break
        if ok: return t, mp
    return None, None


def class_of_site(sitelist, i):
    for w, s in enumerate(sitelist):
        if i in s: return w
    raise KeyError(i)


def jump_class_lookup(jn, tol=1e-6):
    """callable (i, j, dx) -> class index in jumpnetwork jn (None if absent)"""
    table = [(i, j, np.asarray(dx), J) for J, jl in enumerate(jn) for (i, j), dx in jl]

    def look(i, j, dx):
        for (a, b, d, J) in table:
            if a == i and b == j and np.allclose(d, dx, atol=tol): return J
        return None
    return look


def supercell_description(P, S, rng=None, permute=True):
    """lattice and basis (per chemistry) of P described in the supercell P.lattice @ S (no noise)."""
    dim = P.dim
    invS = np.linalg.inv(S)
    det = abs(int(round(np.linalg.det(S))))
    trans = []
    for nv in itertools.product(range(-6, 7), repeat=dim):
        tv = invS @ np.array(nv)
        tv = tv - np.floor(tv + 1e-9)
        if not any(np.allclose((tv - u + 0.5) % 1 - 0.5, 0, atol=1e-7) for u in trans): trans.append(tv)
        if len(trans) == det: break
    basis = []
    for lst in P.basis:
        new = [(invS @ u + tv) % 1.0 for u in lst for tv in trans]
        if permute and rng is not None:
            new = [new[k] for k in rng.permutation(len(new))]
        basis.append(new)
    return P.lattice @ S, basis
