"""R8/R9 helpers for the Monte-Carlo sampler properties (C33, C34, C35).

Brute-force cluster energy that does not use the repository's index arithmetic
(ClusterSupercell.index / transdict / Rveclist / clusterevaluator): a site index n *means* the
position sup.mobilepos[n] (sup.specpos[n] for spectators); every placement of a cluster is mapped
to indices by comparing Cartesian positions modulo the supercell.  Also: the workload menu shared
by the three drivers (crystals, supercells, cluster / TS / vacancy cluster sets, random values).
"""
import itertools
import numpy as np


def wrap_half(v):
    v = np.asarray(v, dtype=float)
    return v - np.floor(v + 0.5)


def cell_translations(superlatt):
    """All lattice vectors R of the crystal, one per class modulo the supercell (brute force)."""
    S = np.asarray(superlatt, dtype=float)
    det = abs(int(round(np.linalg.det(S))))
    Sinv = np.linalg.inv(S)
    nmax = int(np.abs(superlatt).sum(axis=1).max()) + 1
    out, keys = [], set()
    for R in sorted(itertools.product(range(-nmax, nmax + 1), repeat=3), key=lambda v: (sum(abs(x) for x in v), v)):
        s = Sinv @ np.array(R)
        s = s - np.floor(s + 1e-9)
        key = tuple(int(round(x * det)) % det for x in s)
        if key not in keys:
            keys.add(key)
            out.append(np.array(R))
            if len(out) == det: break
    if len(out) != det:
        raise RuntimeError('generator: translations %d != %d' % (len(out), det))
    return out


class SiteMap:
    """(R, (c, i)) -> (index, mobile) by geometry."""

    def __init__(self, sup):
        self.sup = sup
        self.crys = sup.crys
        self.A = self.crys.lattice @ sup.superlatt
        self.Ainv = np.linalg.inv(self.A)
        self.spect = set(sup.spectator)
        self.cache = {}
        self.mobilepos = np.asarray(sup.mobilepos, dtype=float).reshape(-1, 3)
        self.specpos = np.asarray(sup.specpos, dtype=float).reshape(-1, 3)

    def cart(self, R, ci):
        return self.crys.lattice @ (np.asarray(R) + self.crys.basis[ci[0]][ci[1]])

    def index(self, R, ci):
        key = (ci[0], ci[1]) + tuple(int(x) for x in R)
        r = self.cache.get(key)
        if r is None:
            s = self.Ainv @ self.cart(R, ci)
            mob = ci[0] not in self.spect
            table = self.mobilepos if mob else self.specpos
            hits = np.nonzero(np.all(np.abs(wrap_half(table - s)) < 1e-6, axis=1))[0]
            if len(hits) != 1:
                raise RuntimeError('site map: %d hits for %s' % (len(hits), key))
            r = (int(hits[0]), mob)
            self.cache[key] = r
        return r

    def site_cart(self, n):
        return self.A @ self.mobilepos[n]

    def is_jump(self, i, j, dx, tol=1e-6):
        """site j sits at site i + dx modulo the supercell"""
        s = self.Ainv @ (self.site_cart(j) - self.site_cart(i) - np.asarray(dx))
        return bool(np.all(np.abs(s - np.round(s)) < tol))


class EnergyRef:
    """R9: E(occ) = const*size + sum over orbits of value * #{(cluster, translation): every site occupied}.
    Vacancy clusters are seated with their vacancy site on the supercell's vacancy only."""

    def __init__(self, sup, clusterexp, values, socc, sitemap=None):
        sm = sitemap or SiteMap(sup)
        self.sm = sm
        self.N = sup.Nmobile * sup.size
        trans = cell_translations(sup.superlatt)
        self.const = float(values[-1]) * len(trans) if len(values) == len(clusterexp) + 1 else 0.
        self.terms = []  # (value, {order: int array (nplacements, order)})
        self.nplacements = 0
        for orbit, val in zip(clusterexp, values):
            rows = {}
            for cl in orbit:
                sites = list(cl.sites)
                if cl.__vacancy__:
                    if sup.vacancy is None: continue
                    vs, sites = sites[0], sites[1:]
                    Rs = [R for R in trans if self.sm.index(R + vs.R, vs.ci) == (sup.vacancy, True)]
                else:
                    Rs = trans
                for R in Rs:
                    idx, active = [], True
                    for s in sites:
                        n, mob = sm.index(R + s.R, s.ci)
                        if mob: idx.append(n)
                        elif socc[n] != 1: active = False
                    if active:
                        rows.setdefault(len(idx), []).append(idx)
                        self.nplacements += 1
            self.terms.append((float(val), {k: np.array(v, dtype=int).reshape(len(v), k) for k, v in rows.items()}))

    def E(self, occ):
        on = (np.asarray(occ) == 1)
        E = self.const
        for val, rows in self.terms:
            cnt = 0
            for k, arr in rows.items():
                cnt += arr.shape[0] if k == 0 else int(np.count_nonzero(np.all(on[arr], axis=1)))
            E += val * cnt
        return E


def wrap_conflict(sup, clusterlists, chem, jumpnetwork, sitemap=None):
    """Classifies how the clusters (all their sites, incl. vacancy / transition sites) fit into the supercell:
    'self'       some cluster contains two different sites that are the same supercell site (the cluster wraps
                 onto itself; the barrier model of the samplers is not defined for such supercells),
    'jump-image' no self-wrap, but two sites of a cluster are the end points of a jump through a periodic image,
    None         neither."""
    sm = sitemap or SiteMap(sup)
    dxs = [np.asarray(dx) for jn in jumpnetwork for (_, dx) in jn]
    res = None
    for clist in clusterlists:
        for orbit in clist:
            for cl in orbit:
                sites = list(cl.sites)
                for a in range(len(sites)):
                    for b in range(len(sites)):
                        if a == b: continue
                        sa, sb = sites[a], sites[b]
                        d = sm.cart(sb.R, sb.ci) - sm.cart(sa.R, sa.ci)
                        if np.linalg.norm(d) < 1e-6: continue  # the same site listed twice (vacancy TS clusters)
                        if sm.index(sa.R, sa.ci) == sm.index(sb.R, sb.ci):
                            return 'self'
                        if res is None and sa.ci[0] == chem and sb.ci[0] == chem:
                            for dx in dxs:
                                s = sm.Ainv @ (d - dx)
                                if np.all(np.abs(s - np.round(s)) < 1e-6) and np.linalg.norm(d - dx) > 1e-6:
                                    res = 'jump-image'
    return res


# ------------------------------------------------------------------------------------------
# workload menu
# ------------------------------------------------------------------------------------------
def _crystals():
    from onsager import crystal
    C = crystal.Crystal
    z3 = np.zeros(3)
    hexl = np.array([[.5, .5, 0.], [-np.sqrt(.75), np.sqrt(.75), 0.], [0., 0., 3.6]])
    fccl = np.array([[0., .5, .5], [.5, 0., .5], [.5, .5, 0.]])
    return {
        # quasi one- and two-dimensional crystals (the third / second axis is longer than every cut-off)
        'chain': lambda: (C(np.diag([1., 3.5, 3.7]), [z3]), 0, ()),
        'chain2': lambda: (C(np.diag([1., 3.5, 3.7]), [z3, np.array([.4, 0., 0.])]), 0, ()),
        'chainspec': lambda: (C(np.diag([1., 3.5, 3.7]), [[z3], [np.array([.5, .1, 0.])]]), 0, (1,)),
        'ladder': lambda: (C(np.diag([1., 1.1, 3.6]), [z3]), 0, ()),
        'plane': lambda: (C(np.diag([1., 1., 3.5]), [z3]), 0, ()),
        'tri': lambda: (C(hexl, [z3]), 0, ()),
        'honey': lambda: (C(hexl, [np.array([1 / 3, 2 / 3, 0.]), np.array([2 / 3, 1 / 3, 0.])]), 0, ()),
        'sc': lambda: (C(np.eye(3), [z3]), 0, ()),
        'fcc': lambda: (C.FCC(1.), 0, ()),
        'bcc': lambda: (C.BCC(1.), 0, ()),
        'hcp': lambda: (C.HCP(1.), 0, ()),
        'diamond': lambda: (C(fccl, [z3, np.array([.25, .25, .25])]), 0, ()),
        'b2': lambda: (C(np.eye(3), [[z3], [np.array([.5, .5, .5])]]), 0, (1,)),
        'b2mob': lambda: (C(np.eye(3), [[z3], [np.array([.5, .5, .5])]]), 0, ()),
        'rocksalt': lambda: (C(fccl, [[z3], [np.array([.5, .5, .5])]]), 0, (1,)),
        'l12': lambda: (C(np.eye(3), [[z3], [np.array([0., .5, .5]), np.array([.5, 0., .5]), np.array([.5, .5, 0.])]]), 1, (0,)),
        'tet': lambda: (C(np.diag([1., 1., 1.3]), [z3]), 0, ()),
    }


# name -> list of (superlattice, cluster cutoff, max order, jump cutoff)
SMALL = {
    'chain': [(np.diag([n, 1, 1]), 1.01, 2, 1.01) for n in (3, 4, 5, 6, 7, 8)] +
             [(np.diag([n, 1, 1]), 2.01, 3, 1.01) for n in (5, 6, 7, 8)] +
             [(np.diag([n, 1, 1]), 2.01, 3, 2.01) for n in (6, 7, 8)] +
             [(np.diag([n, 1, 1]), 3.01, 4, 1.01) for n in (7, 8)],
    'chain2': [(np.diag([n, 1, 1]), 0.7, 2, 0.7) for n in (2, 3, 4)] + [(np.diag([n, 1, 1]), 1.01, 3, 0.7) for n in (3, 4)] +
              [(np.diag([n, 1, 1]), 0.7, 3, 0.5) for n in (3, 4)],
    'chainspec': [(np.diag([n, 1, 1]), 1.01, 3, 1.01) for n in (3, 4, 5, 6, 7, 8)] + [(np.diag([n, 1, 1]), 2.01, 3, 1.01) for n in (6, 8)],
    'ladder': [(np.array([[n, 0, 0], [0, 2, 0], [0, 0, 1]]), 1.15, 3, 1.15) for n in (2, 3, 4)] +
              [(np.array([[n, 1, 0], [0, 2, 0], [0, 0, 1]]), 1.15, 3, 1.15) for n in (3, 4)],
    'plane': [(np.diag([2, 2, 1]), 1.01, 2, 1.01), (np.array([[2, 1, 0], [0, 3, 0], [0, 0, 1]]), 1.01, 3, 1.01),
              (np.array([[2, -2, 0], [2, 2, 0], [0, 0, 1]]), 1.01, 2, 1.01), (np.diag([4, 2, 1]), 1.5, 3, 1.01)],
    'tri': [(np.diag([2, 2, 1]), 1.01, 3, 1.01), (np.array([[2, 1, 0], [-1, 3, 0], [0, 0, 1]]), 1.01, 3, 1.01),
            (np.diag([4, 2, 1]), 1.01, 3, 1.01)],
    'honey': [(np.diag([2, 2, 1]), 0.6, 2, 0.6), (np.diag([2, 2, 1]), 1.01, 3, 0.6), (np.diag([3, 1, 1]), 0.6, 2, 0.6)],
    'sc': [(np.diag([2, 2, 2]), 1.01, 2, 1.01)],
    'fcc': [(np.diag([2, 2, 2]), 0.8, 3, 0.8), (np.array([[-1, 1, 1], [1, -1, 1], [1, 1, -1]]), 0.8, 2, 0.8)],
    'bcc': [(np.diag([2, 2, 2]), 0.87, 2, 0.87)],
    'hcp': [(np.diag([2, 2, 1]), 1.01, 3, 1.01)],
    'diamond': [(np.diag([2, 2, 1]), 0.45, 2, 0.45)],
}
# medium supercells (9..12 mobile sites): exhaustive on the thorough tier
MEDIUM = {
    'plane': [(np.diag([3, 3, 1]), 1.01, 3, 1.01), (np.diag([3, 3, 1]), 1.5, 3, 1.01), (np.array([[3, 1, 0], [-1, 3, 0], [0, 0, 1]]), 1.01, 2, 1.01)],
    'tri': [(np.diag([3, 3, 1]), 1.01, 3, 1.01)],
    'chain': [(np.diag([n, 1, 1]), 2.01, 3, 2.01) for n in (9, 10)] + [(np.diag([10, 1, 1]), 3.01, 4, 1.01)],
    'chainspec': [(np.diag([n, 1, 1]), 2.01, 3, 1.01) for n in (9, 10)],
    'chain2': [(np.diag([5, 1, 1]), 1.01, 3, 0.7)],
}
LARGE = {
    'fcc': [(np.diag([3, 3, 3]), 0.8, 3, 0.8), (np.array([[3, 0, 0], [0, 3, 0], [1, 0, 3]]), 0.8, 3, 0.8),
            (2 * np.array([[-1, 1, 1], [1, -1, 1], [1, 1, -1]]), 0.8, 3, 0.8), (np.diag([4, 3, 3]), 0.8, 4, 0.8)],
    'bcc': [(np.diag([3, 3, 3]), 0.87, 2, 0.87), (np.diag([3, 3, 3]), 1.01, 3, 0.87), (np.diag([4, 4, 4]), 1.01, 3, 0.87),
            (np.array([[0, 1, 1], [1, 0, 1], [1, 1, 0]]) * 2, 0.87, 3, 0.87)],
    'sc': [(np.diag([3, 3, 3]), 1.01, 2, 1.01), (np.array([[3, 1, 0], [0, 3, 0], [0, 1, 3]]), 1.01, 2, 1.01), (np.diag([4, 4, 3]), 1.5, 3, 1.01)],
    'hcp': [(np.diag([3, 3, 2]), 1.01, 3, 1.01), (np.diag([3, 3, 2]), 1.01, 2, 1.01)],
    'diamond': [(np.diag([2, 2, 2]), 0.45, 2, 0.45), (np.diag([3, 2, 2]), 0.75, 3, 0.45)],
    'b2': [(np.diag([3, 3, 3]), 1.01, 3, 1.01), (np.array([[3, 0, 0], [1, 3, 0], [0, 0, 3]]), 1.01, 3, 1.01)],
    'b2mob': [(np.diag([3, 3, 3]), 0.9, 2, 1.01), (np.diag([3, 3, 3]), 1.01, 3, 1.01)],
    'rocksalt': [(np.diag([3, 3, 3]), 0.75, 3, 0.75), (np.array([[3, 1, 0], [0, 3, 0], [0, 1, 3]]), 0.75, 3, 0.75)],
    'l12': [(np.diag([2, 2, 2]), 0.8, 3, 0.8), (np.diag([3, 2, 2]), 0.8, 3, 0.8)],
    'tet': [(np.diag([3, 3, 3]), 1.35, 3, 1.35), (np.diag([3, 3, 2]), 1.01, 3, 1.01)],
    'plane': [(np.diag([4, 4, 1]), 1.5, 3, 1.01), (np.diag([5, 4, 1]), 1.01, 4, 1.01)],
    'tri': [(np.diag([4, 4, 1]), 1.01, 3, 1.01)],
    'honey': [(np.diag([3, 3, 1]), 1.01, 3, 0.6), (np.array([[2, 1, 0], [-1, 3, 0], [0, 0, 1]]), 0.6, 2, 0.6)],
    'chain2': [(np.diag([9, 1, 1]), 1.01, 3, 0.7)],
}


# thin supercells: the period along some direction is not longer than the cluster range, so that clusters contain a
# site together with its own periodic image (one supercell site listed more than once in an interaction) and the
# periodic image of a fixed vacancy lies within the range of the vacancy clusters.  Nsites <= 8 unless noted.
THIN = {
    'fcc': [(np.diag([1, 2, 3]), 0.8, 3, 0.8), (np.diag([1, 1, 4]), 0.8, 3, 0.8), (np.diag([2, 2, 1]), 0.8, 3, 0.8),
            (np.diag([2, 2, 2]), 1.5, 2, 0.8), (np.array([[1, 1, 0], [0, 2, 1], [0, 0, 2]]), 0.8, 3, 0.8), (np.diag([1, 2, 2]), 0.8, 4, 0.8),
            (np.diag([1, 3, 3]), 0.8, 3, 0.8), (np.diag([1, 4, 5]), 0.8, 3, 0.8), (np.diag([3, 3, 2]), 1.5, 2, 0.8)],  # last three: 9, 20, 18 sites
    'hcp': [(np.diag([1, 1, 2]), 1.01, 3, 1.01), (np.diag([2, 1, 2]), 1.01, 3, 1.01), (np.diag([1, 1, 1]), 1.01, 2, 1.01)],
    'b2': [(np.diag([1, 2, 2]), 1.01, 3, 1.01), (np.diag([2, 1, 3]), 1.01, 3, 1.01), (np.diag([2, 2, 2]), 2.01, 2, 1.01),
           (np.array([[1, 0, 0], [0, 2, 1], [0, 0, 3]]), 1.01, 3, 1.01)],
    'b2mob': [(np.diag([1, 2, 2]), 1.01, 3, 1.01), (np.diag([2, 1, 1]), 1.01, 3, 1.01)],
    'sc': [(np.diag([1, 2, 3]), 1.01, 3, 1.01), (np.diag([2, 2, 2]), 2.01, 2, 1.01), (np.diag([1, 1, 5]), 1.5, 3, 1.01)],
    'bcc': [(np.diag([1, 2, 3]), 0.87, 3, 0.87), (np.diag([2, 2, 2]), 1.75, 2, 0.87)],
    'chain': [(np.diag([2, 1, 1]), 2.01, 3, 1.01), (np.diag([3, 1, 1]), 3.01, 3, 1.01), (np.diag([4, 1, 1]), 4.01, 2, 2.01),
              (np.diag([5, 1, 1]), 5.01, 3, 1.01)],
    'chainspec': [(np.diag([2, 1, 1]), 2.01, 3, 1.01), (np.diag([3, 1, 1]), 3.01, 3, 1.01)],
    'plane': [(np.diag([1, 4, 1]), 1.01, 3, 1.01), (np.diag([2, 3, 1]), 2.01, 3, 1.01)],
    'tri': [(np.diag([1, 4, 1]), 1.01, 3, 1.01), (np.array([[2, 1, 0], [0, 2, 0], [0, 0, 1]]), 1.8, 3, 1.01)],
    'honey': [(np.diag([1, 3, 1]), 1.01, 3, 0.6)],
    'rocksalt': [(np.diag([1, 2, 3]), 0.75, 3, 0.75)],
    'l12': [(np.diag([1, 1, 2]), 1.01, 2, 0.8)],
    'diamond': [(np.diag([1, 2, 2]), 0.75, 3, 0.45)],
}


# mobile atoms per unit cell of the menu crystals (so that the parent process can size a workload without building it)
MOBILE_PER_CELL = {'chain': 1, 'chain2': 2, 'chainspec': 1, 'ladder': 1, 'plane': 1, 'tri': 1, 'honey': 2, 'sc': 1, 'fcc': 1, 'bcc': 1,
                   'hcp': 2, 'diamond': 2, 'b2': 1, 'b2mob': 2, 'rocksalt': 1, 'l12': 3, 'tet': 1}


def menu_nsites(which, name, k):
    return MOBILE_PER_CELL[name] * abs(int(round(np.linalg.det(np.array(_menus()[which][name][k][0], dtype=float)))))


def _menus():
    return {'small': SMALL, 'medium': MEDIUM, 'large': LARGE, 'thin': THIN}


def menu(which):
    d = _menus()[which]
    return [(name, k) for name in sorted(d) for k in range(len(d[name]))]


def placement_stats(sup, clusterexp, sitemap=None):
    """Geometry-only census of how the cluster placements (cluster x lattice translation modulo the supercell; vacancy
    clusters seated on the supercell's vacancy) fit into the supercell:
      'placements'      number of placements,
      'self_wrapping'   placements in which two different cluster sites are the same supercell site,
      'vacancy_image'   placements of vacancy clusters in which a site other than the cluster's vacancy site is the
                        supercell's vacancy site (= a periodic image of the fixed vacancy within the cluster range),
      'plain_on_vacancy' placements of ordinary clusters that contain the supercell's vacancy site,
      'double_sites'    set of mobile site indices that occur more than once in one placement."""
    sm = sitemap or SiteMap(sup)
    trans = cell_translations(sup.superlatt)
    out = {'placements': 0, 'self_wrapping': 0, 'vacancy_image': 0, 'plain_on_vacancy': 0, 'double_sites': set()}
    vkey = None if sup.vacancy is None else (int(sup.vacancy), True)
    for orbit in clusterexp:
        for cl in orbit:
            sites = list(cl.sites)
            if cl.__vacancy__:
                if sup.vacancy is None: continue
                Rs = [R for R in trans if sm.index(R + sites[0].R, sites[0].ci) == vkey]
            else:
                Rs = trans
            for R in Rs:
                idx = [sm.index(R + s.R, s.ci) for s in sites]
                out['placements'] += 1
                if len(set(idx)) < len(idx):
                    out['self_wrapping'] += 1
                    out['double_sites'].update(n for (n, mob) in idx if mob and idx.count((n, mob)) > 1)
                if vkey is not None:
                    if cl.__vacancy__:
                        if vkey in idx[1:]: out['vacancy_image'] += 1
                    elif vkey in idx:
                        out['plain_on_vacancy'] += 1
    return out


class Setup:
    """One sampler workload: crystal, supercell matrix, cluster sets and random values.

    The cluster / jump-network *sets* come from the repository generators (their correctness is the
    subject of C31 / C23); this object only holds them together so that several samplers
    (with / without vacancy, jump network, transition-state clusters; one per vacancy seat) are
    built from the same data."""

    def __init__(self, which, name, k, rng, const=True, kra='vector', zero_fraction=0.):
        from onsager import cluster
        d = _menus()[which]
        self.name, self.k, self.which = name, k, which
        self.crys, self.chem, self.spectator = _crystals()[name]()
        self.superlatt, self.cutoff, self.order, self.jcut = d[name][k]
        self.superlatt = np.array(self.superlatt, dtype=int)
        crys, chem = self.crys, self.chem
        self.bare = cluster.makeclusters(crys, self.cutoff, self.order)
        self.vacclusters = cluster.makeVacancyClusters(crys, chem, self.bare)
        self.jn = crys.jumpnetwork(chem, self.jcut)
        self.TS = cluster.makeTSclusters(crys, chem, self.jn, self.bare)
        self.vacTS = cluster.makeTSclusters(crys, chem, self.jn, self.vacclusters)

        def vals(n):
            v = rng.normal(size=n)
            if zero_fraction > 0:
                v[rng.uniform(size=n) < zero_fraction] = 0.
            return v

        self.const = const
        self.Ebare = vals(len(self.bare))
        self.Evac = vals(len(self.vacclusters))
        self.E0 = float(rng.normal())
        self.TSvalues = vals(len(self.TS))
        self.vacTSvalues = vals(len(self.vacTS))
        self.kra = kra
        self.KRA = vals(len(self.jn)) if kra == 'vector' else (float(rng.normal()) if kra == 'scalar' else 0)
        nspec = sum(len(crys.basis[c]) for c in self.spectator)
        self.size = abs(int(round(np.linalg.det(self.superlatt))))
        self.socc = rng.integers(0, 2, size=nspec * self.size)
        if nspec and rng.uniform() < 0.25:
            self.socc[:] = 1
        self.Nsites = self.size * sum(len(crys.basis[c]) for c in range(crys.Nchem) if c not in self.spectator)
        # sites of the jumping species (vacancy seats)
        self._sup0 = self.supercell()
        self.chemsites = [n for n in range(self.Nsites) if self._sup0.ciR(n)[0][0] == chem]

    def describe(self):
        return {'crystal': self.name, 'superlatt': self.superlatt.tolist(), 'cutoff': self.cutoff, 'order': self.order,
                'jumpcutoff': self.jcut, 'Nsites': self.Nsites, 'spectator': list(self.spectator), 'kra': self.kra,
                'nclusters': len(self.bare), 'nTS': len(self.TS)}

    def supercell(self, vac=None):
        from onsager import supercell
        sup = supercell.ClusterSupercell(self.crys, self.superlatt, spectator=self.spectator)
        if vac is not None:
            sup.addvacancy(vac)
        return sup

    def clusters_values(self, vac=None):
        if vac is None:
            ce, v = list(self.bare), list(self.Ebare)
        else:
            ce, v = list(self.bare) + list(self.vacclusters), list(self.Ebare) + list(self.Evac)
        if self.const: v.append(self.E0)
        return ce, np.array(v)

    def sampler(self, vac=None, jumps=True, ts=True, sup=None):
        from onsager import cluster
        sup = sup if sup is not None else self.supercell(vac)
        ce, v = self.clusters_values(vac)
        if not jumps:
            return cluster.MonteCarloSampler(sup, self.socc, ce, v)
        if ts:
            TS, TSv = (self.TS, self.TSvalues) if vac is None else (self.vacTS, self.vacTSvalues)
        else:
            TS, TSv = (), ()
        return cluster.MonteCarloSampler(sup, self.socc, ce, v, self.chem, self.jn, KRAvalues=self.KRA, TSclusters=TS, TSvalues=TSv)

    def energyref(self, vac=None, sup=None):
        sup = sup if sup is not None else self.supercell(vac)
        ce, v = self.clusters_values(vac)
        return EnergyRef(sup, ce, v, self.socc)

    def conflict(self, vac=None, ts=True):
        sup = self.supercell(vac)
        lists = [self.bare]
        if vac is not None: lists.append(self.vacclusters)
        if ts: lists.append(self.TS if vac is None else self.vacTS)
        return wrap_conflict(sup, lists, self.chem, self.jn)

    def rand_occ(self, rng, vac=None, fill=None):
        if fill is None:
            fill = rng.choice([0., 1., 0.15, 0.5, 0.5, 0.85, rng.uniform()])
        occ = (rng.uniform(size=self.Nsites) < fill).astype(int)
        if vac is not None: occ[vac] = -1
        return occ

    def all_occ(self, vac=None):
        """every occupation of the mobile sites (vacancy seat fixed at -1)"""
        free = [n for n in range(self.Nsites) if n != vac]
        for bits in range(2 ** len(free)):
            occ = np.zeros(self.Nsites, dtype=int)
            for b, n in enumerate(free):
                occ[n] = (bits >> b) & 1
            if vac is not None: occ[vac] = -1
            yield occ


def energy_scale(MC):
    return max(1., float(np.sum(np.abs(MC.interactvalue[:MC.Nenergy]))))


def barrier_scale(MC):
    """energy scale plus the largest sum of |terms| of one barrier"""
    q = 0.
    if MC.jumps is not None:
        a = np.abs(MC.interactvalue)
        for n in range(len(MC.jumps)):
            lo = MC.interactrange[n - 1]
            q = max(q, float(a[lo:MC.interactrange[n]].sum()))
    return energy_scale(MC) + q
