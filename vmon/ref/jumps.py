"""R5 (jump networks): brute-force enumeration of jumps and of the obstruction rule, independent of the
repository's image-range and symmetry machinery.  Plain numpy on (lattice, basis).

Conventions: lattice has column vectors; a jump is keyed (i, j, R) with dx = latt @ (u_j + R - u_i).
"""
import itertools
import numpy as np


def image_bounds(latt, radius, pad=1.0, extra=2):
    """Rigorous bound on |n_d| for any point latt@(n + w), |w_d| <= pad, inside a sphere of `radius`."""
    invl = np.linalg.inv(latt)
    return [int(np.ceil(radius * np.linalg.norm(invl[d]) + pad)) + extra for d in range(latt.shape[0])]


def brute_jumps(latt, basis_c, cutoff, extra=2):
    """dict (i, j, R-tuple) -> dx for every 0 < |dx| < cutoff (vectorised over the image box)."""
    dim = latt.shape[0]
    nmax = image_bounds(latt, cutoff, 1.0, extra)
    grid = np.array(list(itertools.product(*[range(-n, n + 1) for n in nmax])))
    out = {}
    for i, ui in enumerate(basis_c):
        for j, uj in enumerate(basis_c):
            dx = (grid + (np.asarray(uj) - np.asarray(ui))) @ latt.T
            d2 = np.einsum('ij,ij->i', dx, dx)
            for k in np.nonzero((d2 > 1e-16) & (d2 < cutoff * cutoff))[0]:
                out[(i, j, tuple(int(x) for x in grid[k]))] = dx[k]
    return out


def all_distances(latt, basis_c, rmax):
    """sorted distinct (rounded 1e-9) interatomic distances of one species below rmax"""
    d = [np.linalg.norm(v) for v in brute_jumps(latt, basis_c, rmax, extra=1).values()]
    return np.unique(np.round(d, 9))


def images_near(latt, positions, centre, radius, extra=2):
    """Cartesian positions of all periodic images of `positions` (direct coords) within radius of centre."""
    nmax = image_bounds(latt, radius + np.linalg.norm(centre), 1.0, extra)
    grid = np.array(list(itertools.product(*[range(-n, n + 1) for n in nmax])))
    pts = []
    for u in positions:
        x = (grid + np.asarray(u)) @ latt.T
        keep = np.einsum('ij,ij->i', x - centre, x - centre) <= radius * radius
        pts.append(x[keep])
    return np.concatenate(pts) if pts else np.zeros((0, latt.shape[0]))


def obstruction(xstart, dx, blockers, closest):
    """Status of one jump against an array of blocker positions (Cartesian).

    Documented rule (Crystal.jumpnetwork): a blocker at xRa = x - xstart excludes the jump iff
    0 <= xRa.dx <= dx.dx and its distance from the line, d, satisfies d <= closest.
    Returns 'blocked', 'free' or 'ambiguous' (some blocker within the code's own floating-point/isclose window
    of a limit and no blocker clearly inside)."""
    if len(blockers) == 0: return 'free'
    xRa = blockers - xstart
    dx2 = float(dx @ dx)
    s = xRa @ dx
    d2 = np.einsum('ij,ij->i', xRa, xRa) - s * s / dx2
    m2 = closest * closest
    eps_s = 1e-7 * dx2
    in_clear = (s >= eps_s) & (s <= dx2 - eps_s)
    in_maybe = (s >= -eps_s) & (s <= dx2 + eps_s)
    near_clear = d2 <= m2 + 1e-12
    near_maybe = d2 <= m2 + 2e-8 + 2e-5 * m2
    if np.any(in_clear & near_clear): return 'blocked'
    if np.any(in_maybe & near_maybe): return 'ambiguous'
    return 'free'
