"""Independent reference model for the Taylor (power) expansions of onsager.PowerExpansion (C16, C17).

Nothing here calls an algorithm of the repository.  The *representation* is read from the class
(``ind2pow``, ``powlrange`` and the stored ``coefflist``): an expansion is

    T(u) = sum over entries (n, l, c) of  f_n(|u|) * sum_{p < powlrange[l]} c[p] * prod_i uhat_i ** ind2pow[p, i]

with uhat = u/|u|.  For the homomorphism properties the radial functions are f_n(x) = x**n (the only
family with f_n f_m = f_{n+m}).  Reference answers:

* evaluation: direct sum of monomials (``evaluate``, ``angular``);
* harmonic projectors: classical decomposition of a homogeneous polynomial f = h_d + r^2 f_{d-2} with
  Laplace(h_d) = 0, solved as a small linear system in the monomial basis (``harmonic_projectors``);
* spherical harmonics: scipy.special (``Ylm``); Fourier harmonics: exp(i l theta);
* generators of random expansions (complex coefficients of order one, no tiny entries).
"""
import itertools, math
import numpy as np


# ---------------------------------------------------------------- monomials / evaluation

def all_powers(dim, Lmax):
    """Set of exponent tuples of total degree <= Lmax."""
    return [t for t in itertools.product(range(Lmax + 1), repeat=dim) if sum(t) <= Lmax]


def monomials(v, ind2pow):
    """prod_i v_i ** ind2pow[p, i] for every p (v is used as given, not normalised)."""
    v = np.asarray(v, dtype=float)
    out = np.ones(len(ind2pow))
    for p, tup in enumerate(ind2pow):
        x = 1.
        for vi, e in zip(v, tup):
            x *= vi ** int(e)
        out[p] = x
    return out


def default_fn(n, l, x):
    return x ** n


def check_layout(coefflist, powlrange):
    """Representation invariant: the first axis of every coefficient array has powlrange[l] rows and all
    entries carry the same trailing shape.  Returns None or a description of the problem."""
    shape = None
    for ent in coefflist:
        if len(ent) != 3:
            return 'entry is not a triple: %r' % (ent,)
        n, l, c = ent
        c = np.asarray(c)
        if l < 0 or l + 1 >= len(powlrange):
            return 'l=%s outside 0..Lmax' % l
        if c.ndim < 1 or c.shape[0] != powlrange[l]:
            return '(n,l)=(%s,%s) has %s rows, powlrange[l]=%s' % (n, l, c.shape, powlrange[l])
        if shape is None:
            shape = c.shape[1:]
        elif shape != c.shape[1:]:
            return 'inconsistent trailing shapes %s vs %s' % (shape, c.shape[1:])
    return None


def evaluate(coefflist, u, ind2pow, powlrange, fn=default_fn, shape=()):
    """Independent evaluation of an expansion given as list((n, l, array)) at the point u."""
    u = np.asarray(u, dtype=float)
    r = float(np.sqrt(np.dot(u, u)))
    mon = monomials(u / r, ind2pow)
    tot = np.zeros(shape, dtype=complex)
    for n, l, c in coefflist:
        c = np.asarray(c)
        tot = tot + fn(n, l, r) * np.tensordot(mon[:powlrange[l]], c, axes=1)
    return tot


def angular(coefflist, uhat, ind2pow, powlrange, shape=()):
    """dict n -> angular factor of order n at the unit vector uhat (sum over all entries with that n)."""
    mon = monomials(uhat, ind2pow)
    out = {}
    for n, l, c in coefflist:
        out[n] = out.get(n, np.zeros(shape, dtype=complex)) + np.tensordot(mon[:powlrange[l]], np.asarray(c), axes=1)
    return out


def rand_unit(rng, dim):
    while True:
        v = rng.normal(size=dim)
        r = np.linalg.norm(v)
        if r > 0.2 and np.min(np.abs(v)) / r > 0.02:  # generic direction, no vanishing component
            return v / r


def rand_point(rng, dim, rmin=0.6, rmax=1.6):
    return rand_unit(rng, dim) * rng.uniform(rmin, rmax)


# ---------------------------------------------------------------- harmonic analysis of polynomials

def _laplace(poly):
    out = {}
    for tup, c in poly.items():
        for i, e in enumerate(tup):
            if e >= 2:
                t = tup[:i] + (e - 2,) + tup[i + 1:]
                out[t] = out.get(t, 0.) + c * e * (e - 1)
    return out


def _mulr2(poly):
    out = {}
    for tup, c in poly.items():
        for i, e in enumerate(tup):
            t = tup[:i] + (e + 2,) + tup[i + 1:]
            out[t] = out.get(t, 0.) + c
    return out


def _homog(dim, d):
    return [t for t in itertools.product(range(d + 1), repeat=dim) if sum(t) == d]


def harmonic_parts(poly, dim, d):
    """poly: homogeneous of degree d (dict exponent tuple -> coefficient).  Returns {l: harmonic homogeneous
    polynomial of degree l} with poly = sum_l r^(d-l) h_l  (l = d, d-2, ...)."""
    if d < 2:
        return {d: dict(poly)}
    basis = _homog(dim, d - 2)
    index = {t: i for i, t in enumerate(basis)}
    A = np.zeros((len(basis), len(basis)))
    for j, t in enumerate(basis):
        for tt, c in _laplace(_mulr2({t: 1.})).items():
            A[index[tt], j] += c
    rhs = np.zeros(len(basis))
    for tt, c in _laplace(poly).items():
        rhs[index[tt]] += c
    g = np.linalg.solve(A, rhs)
    gpoly = {t: g[i] for i, t in enumerate(basis) if g[i] != 0.}
    h = dict(poly)
    for tt, c in _mulr2(gpoly).items():
        h[tt] = h.get(tt, 0.) - c
    parts = harmonic_parts(gpoly, dim, d - 2) if gpoly else {}
    parts[d] = h
    return parts


def harmonic_projectors(ind2pow, Lmax):
    """P[l][p', p]: coefficient of monomial p' in the degree-l harmonic component of monomial p restricted to
    the unit sphere/circle (expressed as a homogeneous polynomial of degree l).  Index Lmax+1 (== -1): sum."""
    pows = [tuple(int(x) for x in t) for t in ind2pow]
    dim = len(pows[0])
    index = {t: i for i, t in enumerate(pows)}
    N = len(pows)
    P = np.zeros((Lmax + 2, N, N))
    for p, tup in enumerate(pows):
        d = sum(tup)
        for l, h in harmonic_parts({tup: 1.}, dim, d).items():
            for tt, c in h.items():
                P[l, index[tt], p] += c
    P[Lmax + 1] = P[:Lmax + 1].sum(axis=0)
    return P


def laplace_vector(vec, ind2pow):
    """Laplacian of the polynomial sum_p vec[p] x^pow[p] as dict exponent -> coefficient array."""
    out = {}
    for p, tup in enumerate(ind2pow):
        tup = tuple(int(x) for x in tup)
        for i, e in enumerate(tup):
            if e >= 2:
                t = tup[:i] + (e - 2,) + tup[i + 1:]
                out[t] = out.get(t, 0.) + vec[p] * e * (e - 1)
    return out


def Ylm(l, m, uhat):
    """Standard (Condon-Shortley, orthonormal) spherical harmonic at the unit vector uhat, from scipy."""
    import scipy.special as sp
    polar = math.acos(max(-1., min(1., uhat[2])))
    azim = math.atan2(uhat[1], uhat[0])
    if hasattr(sp, 'sph_harm_y'):
        return complex(sp.sph_harm_y(l, m, polar, azim))
    return complex(sp.sph_harm(m, l, azim, polar))


def multinomial(tup):
    r = math.factorial(sum(tup))
    for e in tup:
        r //= math.factorial(e)
    return r


# ---------------------------------------------------------------- generators

def rand_array(rng, shape, real=False):
    """Order-one entries, none tiny (so the class's 1e-10 'is zero' threshold is never ambiguous)."""
    a = rng.uniform(0.3, 1.5, size=shape) * rng.choice([-1., 1.], size=shape)
    if real:
        return a
    return a + 1j * rng.uniform(0.3, 1.5, size=shape) * rng.choice([-1., 1.], size=shape)


def rand_coefflist(rng, powlrange, nl, shape=(), real=False):
    return [(int(n), int(l), rand_array(rng, (int(powlrange[l]),) + tuple(shape), real)) for n, l in nl]


def rand_nl(rng, Lmax, lcap, nterms=None, nlo=-2, nhi=4):
    """Distinct radial orders n with angular orders l <= lcap (lcap <= Lmax)."""
    k = int(rng.integers(1, 4)) if nterms is None else nterms
    ns = sorted(rng.choice(np.arange(nlo, nhi + 1), size=min(k, nhi - nlo + 1), replace=False).tolist())
    return [(n, int(rng.integers(0, lcap + 1))) for n in ns]


def parity_consistent(rng, ind2pow, powlrange, Lmax, shape=(), nterms=None):
    """Expansion whose monomials of degree d appear only under radial orders n with n-d even and d <= n
    (each term |q|^(n-d) q^pow is a polynomial): the domain of rotate()."""
    k = int(rng.integers(1, Lmax + 2)) if nterms is None else nterms
    ns = sorted(rng.choice(np.arange(0, Lmax + 1), size=min(k, Lmax + 1), replace=False).tolist())
    out = []
    deg = np.array([sum(int(x) for x in t) for t in ind2pow])
    for n in ns:
        l = int(rng.choice([x for x in range(n % 2, n + 1, 2)]))
        c = rand_array(rng, (int(powlrange[l]),) + tuple(shape))
        for p in range(int(powlrange[l])):
            if (n - deg[p]) % 2:
                c[p] = 0
        out.append((int(n), l, c))
    return out


def rand_matrix(rng, dim, kind=None):
    """Invertible transformation, condition number <= ~12; kinds: general, shear, diag, orth."""
    if kind is None:
        kind = ['general', 'general', 'general', 'shear', 'diag', 'orth'][int(rng.integers(6))]
    for _ in range(1000):
        if kind == 'general':
            M = rng.normal(size=(dim, dim))
        elif kind == 'shear':
            M = np.eye(dim)
            i, j = rng.choice(dim, size=2, replace=False)
            M[i, j] = rng.uniform(0.3, 1.2) * rng.choice([-1, 1])
        elif kind == 'diag':
            M = np.diag(rng.uniform(0.5, 1.8, size=dim) * rng.choice([-1, 1], size=dim))
        else:
            M, _r = np.linalg.qr(rng.normal(size=(dim, dim)))
        s = np.linalg.svd(M, compute_uv=False)
        if s[-1] > 0.25 and s[0] < 2.5:
            return M, kind
    raise RuntimeError('no matrix')


def max_l_by_order(tail, J):
    """tail: list of (k, l) with k >= 1.  maxl[j] = largest total l of any product of tail terms with total
    order j (or -1 when j is not reachable), j = 0..J."""
    maxl = [-1] * (J + 1)
    maxl[0] = 0
    for j in range(1, J + 1):
        for k, l in tail:
            if k <= j and maxl[j - k] >= 0:
                maxl[j] = max(maxl[j], maxl[j - k] + l)
    return maxl


def magnitude(coefflist, u, ind2pow, powlrange):
    """sum_n |u|^n sum_p |monomial_p| max|c[p]|: the natural scale of an evaluation (no cancellation)."""
    u = np.asarray(u, dtype=float)
    r = float(np.sqrt(np.dot(u, u)))
    mon = np.abs(monomials(u / r, ind2pow))
    tot = 0.
    for n, l, c in coefflist:
        c = np.asarray(c)
        tot += r ** n * sum(mon[p] * (np.max(np.abs(c[p])) if c[p].size else 0.) for p in range(int(powlrange[l])))
    return float(tot)


def pad_rows(c, N):
    c = np.asarray(c)
    out = np.zeros((N,) + c.shape[1:], dtype=complex)
    out[:c.shape[0]] = c
    return out


def lift_r2(g, ind2pow, nrows):
    """Coefficient rows (nrows of them) of r^2 * g where g is given on the first len(g) monomials."""
    pows = [tuple(int(x) for x in t) for t in ind2pow]
    index = {t: i for i, t in enumerate(pows)}
    g = np.asarray(g)
    out = np.zeros((nrows,) + g.shape[1:], dtype=complex)
    for p in range(g.shape[0]):
        tup = pows[p]
        for i in range(len(tup)):
            t = tup[:i] + (tup[i] + 2,) + tup[i + 1:]
            out[index[t]] += g[p]
    return out
