"""R11: independent supercell group, and R7: dict model of supercell occupancy.

R11 does not use any Supercell method: it takes the crystal's (lattice, basis), the integer
superlattice matrix S and the table of site positions (direct coordinates of the supercell,
verified separately by check_sites) and enumerates

    { (S^-1 M S,  S^-1 (t + R)) : (M, t) in brute-force space group of the crystal (vmon.ref.geom),
                                   S^-1 M S integer,  R in Z^d / S Z^d }

with the site permutation of each operation found geometrically.

R7 is the documented update rule of occ / chemorder on plain dicts and lists.
"""
import itertools
import numpy as np
from vmon.ref import geom


def wrap_half(v):
    v = np.asarray(v, dtype=float)
    return v - np.floor(v + 0.5)


# ------------------------------------------------------------------------------- R11
def check_sites(pos, S, basis, atomindices, tol=1e-6):
    """The documented site table: site n is a periodic image of crystal atom atomindices[n % N],
    all sites are distinct modulo the supercell and there are N*|det S| of them. -> (ok, message)"""
    N = len(atomindices)
    size = abs(int(round(np.linalg.det(S))))
    pos = np.asarray(pos)
    if pos.shape != (N * size, S.shape[0]):
        return False, 'pos shape %s, expected (%d, %d)' % (pos.shape, N * size, S.shape[0])
    for n in range(len(pos)):
        c, i = atomindices[n % N]
        w = S @ pos[n] - np.asarray(basis[c][i])
        if np.any(np.abs(w - np.round(w)) > tol):
            return False, 'site %d is not an image of atom %s (S.pos-u = %s)' % (n, (c, i), w.tolist())
        if np.any(pos[n] < -tol) or np.any(pos[n] >= 1 + tol):
            return False, 'site %d outside the cell: %s' % (n, pos[n].tolist())
    d = wrap_half(pos[:, None, :] - pos[None, :, :])
    same = np.all(np.abs(d) < tol, axis=-1)
    if same.sum() != len(pos):
        a, b = np.argwhere(same & ~np.eye(len(pos), dtype=bool))[0]
        return False, 'sites %d and %d coincide' % (a, b)
    return True, ''


def find_perm(pos, rot, trans, tol=1e-6):
    """perm[n] = index of the site at rot.pos[n]+trans (mod 1); None unless a bijection."""
    pos = np.asarray(pos)
    img = pos @ np.asarray(rot, dtype=float).T + np.asarray(trans)
    d = wrap_half(img[:, None, :] - pos[None, :, :])
    hit = np.all(np.abs(d) < tol, axis=-1)
    if not (np.all(hit.sum(axis=1) == 1) and np.all(hit.sum(axis=0) == 1)):
        return None
    return tuple(int(x) for x in np.argmax(hit, axis=1))


def internal_translations(S):
    """Representatives of Z^d / S Z^d (|det S| of them), by brute force."""
    dim = S.shape[0]
    det = abs(int(round(np.linalg.det(S))))
    Sinv = np.linalg.inv(S)
    reps, keys = [], []
    m = 1
    while len(reps) < det:
        for R in itertools.product(range(-m, m + 1), repeat=dim):
            if max(abs(x) for x in R) != m and m > 1: continue
            v = Sinv @ np.array(R)
            v = v - np.floor(v + 1e-9)
            if not any(np.all(np.abs(wrap_half(v - k)) < 1e-7) for k in keys):
                keys.append(v)
                reps.append(np.array(R))
        m += 1
        if m > 40: raise RuntimeError('internal translations not found')
    if len(reps) != det: raise RuntimeError('too many internal translations')
    return reps


def ref_supergroup(latt, basis, S, pos, tol=1e-6, crystal_group=None):
    """-> (ops, n_incompatible, n_crystal_ops); ops = list of (rot int (d,d), trans (d,), perm tuple)."""
    grp = crystal_group if crystal_group is not None else geom.full_group(latt, basis, tol=tol)
    Sinv = np.linalg.inv(S)
    Rs = internal_translations(S)
    ops, nbad = [], 0
    for M, t, _ in grp:
        rot = Sinv @ M @ S
        if np.any(np.abs(rot - np.round(rot)) > 1e-8):
            nbad += 1
            continue
        rot = np.round(rot).astype(int)
        for R in Rs:
            tr = Sinv @ (np.asarray(t) + R)
            tr = tr - np.floor(tr + 1e-12)
            perm = find_perm(pos, rot, tr, tol)
            if perm is None:
                raise RuntimeError('reference group: compatible operation does not permute the sites')
            ops.append((rot, tr, perm))
    return ops, nbad, len(grp)


def apply_perm_occ(occ, perm):
    """occupation after the operation: new[perm[n]] = occ[n]"""
    occ = np.asarray(occ)
    out = np.empty_like(occ)
    out[np.asarray(perm)] = occ
    return out


def related(occ_a, occ_b, ops):
    """index of the first reference operation carrying occupation a into b, else None"""
    occ_b = np.asarray(occ_b)
    for k, (_, _, perm) in enumerate(ops):
        if np.array_equal(apply_perm_occ(occ_a, perm), occ_b):
            return k
    return None


# ------------------------------------------------------------------------------- R7
class DictSuper:
    """{site: species} + per-species ordered lists, with the documented update rule:
    a site that changes species leaves its old list (order of the rest kept) and is appended to
    the new one; vacancy (-1) is in no list; species outside -1..nchem-1 do not exist."""

    def __init__(self, nsites, nchem):
        self.nsites, self.nchem = nsites, nchem
        self.occ = {n: -1 for n in range(nsites)}
        self.order = [[] for _ in range(nchem)]

    def valid(self, c):
        return -1 <= c < self.nchem

    def setocc(self, n, c):
        old = self.occ[n]
        if old == c: return
        if old >= 0: self.order[old].remove(n)
        if c >= 0: self.order[c].append(n)
        self.occ[n] = c

    def apply_perm(self, perm):
        self.occ = {perm[n]: c for n, c in self.occ.items()}
        self.order = [[perm[n] for n in lst] for lst in self.order]

    def reorder(self, mapping):
        self.order = [[lst[m[i]] for i in range(len(lst))] for lst, m in zip(self.order, mapping)]

    def clear(self):
        for n in range(self.nsites): self.setocc(n, -1)

    def copy(self):
        m = DictSuper(self.nsites, self.nchem)
        m.occ = dict(self.occ)
        m.order = [list(l) for l in self.order]
        return m

    def occlist(self):
        return [self.occ[n] for n in range(self.nsites)]

    def same(self, other):
        return self.occ == other.occ and self.order == other.order
