"""R9: brute-force cluster-expansion energy of an occupied ClusterSupercell.

    E = values[-1] * (number of cells)                                   (only if len(values) == len(clusterexp)+1)
      + sum_k values[k] * sum_{cluster in clusterexp[k]} sum_{translations T of the crystal lattice, modulo the supercell}
            prod_{sites s of the cluster} occ( position(s) + T, wrapped periodically into the supercell )

Computed from positions and occupations only: a cluster site (c, i, R) is turned into a position of the
supercell (direct coordinates of the supercell, wrapped), and the occupation is looked up by matching that
position against the position tables `sup.mobilepos` / `sup.specpos` that define the meaning of the occupation
vectors.  Nothing of the supercell's own indexing (index, incell, transdict, Rveclist, ciR) is used.

Vacancy variant (sup.vacancy = index into the mobile occupation vector): the vacancy position is never occupied;
a *vacancy cluster* (first site = vacancy) contributes only for the single translation that puts its vacancy site
on the supercell's vacancy, and only if that position holds the same basis atom (c, i); its other sites must be
occupied.

Thin (self-wrapping) supercells need no special case in this definition: an instance is one (cluster, translation)
pair, every one of its sites is mapped into the supercell by its position, and the instance is on iff all mapped
sites are occupied - a supercell site that is hit twice simply has to be occupied, and a vacancy cluster one of whose
other sites lands on the (never occupied) vacancy site - the periodic image of its own vacancy - is never on.
Census attributes for the drivers: `selfwrap[k]` (flags parallel to `instances[k]`: two different cluster sites,
mobile or spectator or the cluster's vacancy site, are the same supercell site), `nselfwrap_const` (same, among the
spectator-only instances), `vacimage` (list of (k, other mobile indices) of vacancy-cluster placements with active
spectators that were dropped because a site other than the cluster's vacancy site is the supercell's vacancy).

API
    brute_energy(sup, clusterexp, values, mocc, socc)      -> float   (one configuration)
    BruteEnergy(sup, clusterexp, socc)                      precomputed instances for many configurations:
        .energy(values, mocc) -> float
        .counts(mocc)         -> integer vector, one count per cluster set (+ number of cells as last entry)
        .all_counts()         -> (2^n or 2^(n-1) configurations as rows of 0/1 (vacancy column = 0), counts matrix)
"""
import itertools
import numpy as np


def _wrap(x):
    x = x - np.floor(x)
    x[x > 1 - 1e-9] = 0.
    return x


class BruteEnergy:
    def __init__(self, sup, clusterexp, socc, tol=1e-6):
        crys = sup.crys
        self.dim = dim = crys.dim
        self.basis = [[np.array(u, dtype=float) for u in lst] for lst in crys.basis]
        S = np.array(sup.superlatt, dtype=float)
        self.invS = np.linalg.inv(S)
        self.ncell = int(round(abs(np.linalg.det(S))))
        self.mpos = np.array(sup.mobilepos, dtype=float).reshape(-1, dim)
        self.spos = np.array(sup.specpos, dtype=float).reshape(-1, dim)
        self.nmobile = len(self.mpos)
        self.socc = np.asarray(socc)
        self.tol = tol
        self.vac = None if sup.vacancy is None else int(sup.vacancy)
        self._lookup = {}
        # translations of the crystal lattice modulo the supercell: integer vectors T with S^-1 T in [0,1)^dim
        bound = int(np.abs(S).sum(axis=1).max()) + 1
        self.trans = []
        for T in itertools.product(range(-bound, bound + 1), repeat=dim):
            x = self.invS @ np.array(T, dtype=float)
            if np.all(x > -1e-9) and np.all(x < 1 - 1e-9):
                self.trans.append(np.array(T, dtype=int))
        if len(self.trans) != self.ncell:
            raise RuntimeError('translation enumeration found %d of %d cells' % (len(self.trans), self.ncell))
        # the vacancy as a crystal site
        self.vac_ci = self.vac_R = None
        if self.vac is not None:
            hits = []
            for c, lst in enumerate(self.basis):
                for i, u in enumerate(lst):
                    d = S @ self.mpos[self.vac] - u
                    # position = u + R + S n for some integer n: try the images of the supercell
                    for n in itertools.product((-1, 0, 1), repeat=dim):
                        dd = d + S @ np.array(n, dtype=float)
                        if np.all(np.abs(dd - np.round(dd)) < tol):
                            hits.append(((c, i), np.round(dd).astype(int)))
                            break
            if len(hits) != 1:
                raise RuntimeError('vacancy position matches %d basis atoms' % len(hits))
            self.vac_ci, self.vac_R = hits[0]
        # instances[k] = list of (tuple of mobile indices) that are active for this spectator occupation
        self.instances = []
        self.nconst = []   # instances without mobile sites (constant for the given spectators)
        self.selfwrap = []
        self.nselfwrap_const = 0
        self.vacimage = []
        for k, clset in enumerate(clusterexp):
            inst, const, wrapflags = [], 0, []
            for cl in clset:
                sites = [((int(cs.ci[0]), int(cs.ci[1])), np.array(cs.R, dtype=int)) for cs in cl.sites]
                if cl.__vacancy__:
                    if self.vac is None: continue
                    (vci, vR), rest = sites[0], sites[1:]
                    if cl.__transition__:
                        raise ValueError('transition-state clusters carry no energy')
                    if vci != self.vac_ci: continue
                    shifts = [self.vac_R - vR]
                    sites = rest
                    seat = [('m', self.vac)]
                else:
                    if cl.__transition__:
                        raise ValueError('transition-state clusters carry no energy')
                    shifts = self.trans
                    seat = []
                for T in shifts:
                    active, mob, located = True, [], list(seat)
                    for ci, R in sites:
                        which, n = self.locate(ci, R + T)
                        located.append((which, n))
                        if which == 's':
                            if self.socc[n] != 1: active = False
                        else:
                            mob.append(n)
                    if not active: continue
                    if self.vac is not None and self.vac in mob:   # the vacancy is never occupied
                        if cl.__vacancy__: self.vacimage.append((k, tuple(n for n in mob if n != self.vac)))
                        continue
                    wraps = len(set(located)) < len(located)
                    if mob:
                        inst.append(tuple(mob))
                        wrapflags.append(wraps)
                    else:
                        const += 1
                        self.nselfwrap_const += wraps
            self.instances.append(inst)
            self.nconst.append(const)
            self.selfwrap.append(wrapflags)

    def locate(self, ci, R):
        """('m'|'s', index) of the supercell position that holds basis atom ci in cell R"""
        key = (ci, tuple(int(x) for x in R))
        r = self._lookup.get(key)
        if r is None:
            x = _wrap(self.invS @ (self.basis[ci[0]][ci[1]] + np.array(R, dtype=float)))
            hits = []
            for which, tab in (('m', self.mpos), ('s', self.spos)):
                if len(tab) == 0: continue
                d = tab - x
                d = d - np.round(d)
                for n in np.nonzero(np.all(np.abs(d) < self.tol, axis=1))[0]:
                    hits.append((which, int(n)))
            if len(hits) != 1:
                raise RuntimeError('site %s matches %d supercell positions' % (key, len(hits)))
            r = hits[0]
            self._lookup[key] = r
        return r

    def counts(self, mocc):
        mocc = np.asarray(mocc)
        out = np.zeros(len(self.instances) + 1, dtype=int)
        out[-1] = self.ncell
        for k, (inst, const) in enumerate(zip(self.instances, self.nconst)):
            out[k] = const + sum(1 for mob in inst if all(mocc[n] == 1 for n in mob))
        return out

    def energy(self, values, mocc):
        c = self.counts(mocc)
        values = np.asarray(values, dtype=float)
        if len(values) == len(c): return float(np.dot(values, c))
        if len(values) == len(c) - 1: return float(np.dot(values, c[:-1]))
        raise ValueError('values has length %d for %d cluster sets' % (len(values), len(c) - 1))

    def all_counts(self):
        """every 0/1 occupation of the mobile sites (vacancy fixed at 0): (occupations, counts)"""
        free = [n for n in range(self.nmobile) if n != self.vac]
        nconf = 2 ** len(free)
        occs = np.zeros((nconf, self.nmobile), dtype=np.int8)
        idx = np.arange(nconf)
        for b, n in enumerate(free):
            occs[:, n] = (idx >> b) & 1
        counts = np.zeros((nconf, len(self.instances) + 1), dtype=np.int64)
        counts[:, -1] = self.ncell
        for k, (inst, const) in enumerate(zip(self.instances, self.nconst)):
            col = np.full(nconf, const, dtype=np.int64)
            for mob in inst:
                on = np.ones(nconf, dtype=bool)
                for n in mob: on &= occs[:, n] == 1
                col += on
            counts[:, k] = col
        return occs, counts


def brute_energy(sup, clusterexp, values, mocc, socc):
    """Energy of one configuration (mocc: mobile occupations 0/1, vacancy entry 0 or -1; socc: spectator occupations)."""
    return BruteEnergy(sup, clusterexp, socc).energy(values, mocc)


def min_supercell_vector(sup):
    """length of the shortest non-zero lattice vector of the supercell (brute force over a box)"""
    L = np.array(sup.crys.lattice, dtype=float) @ np.array(sup.superlatt, dtype=float)
    dim = L.shape[0]
    # box bound from the reciprocal rows: |n_d| <= |v| |b_d|; start from the shortest column
    best = min(np.linalg.norm(L[:, d]) for d in range(dim))
    invL = np.linalg.inv(L)
    nmax = [int(np.floor(best * np.linalg.norm(invL[d]) + 1e-9)) + 1 for d in range(dim)]
    for n in itertools.product(*[range(-m, m + 1) for m in nmax]):
        if not any(n): continue
        best = min(best, float(np.linalg.norm(L @ np.array(n, dtype=float))))
    return best
