"""R1 / R2: exact long-time diffusivity of a continuous-time jump process on a periodic network.

No symmetry, no vector basis: everything is assembled jump by jump.
  R1  D = sum_i 1/2 p_i w dx dx + b~^T Q~^+ b~      (Hermitian pseudo-inverse)
  R2  D_ab = -1/2 d^2 lambda_max(k) / dk_a dk_b at k=0 of the Bloch matrix (finite differences)
"""
import numpy as np


def site_prob(pre, bE, inv):
    lnp = np.array([np.log(pre[w]) - bE[w] for w in inv])
    lnp -= lnp.max()
    p = np.exp(lnp)
    return p / p.sum()


def jump_table(jumpnetwork, pre, bE, preT, bET, inv):
    """[(i, j, dx, rate i->j, class)] for an Onsager-style jumpnetwork and Wyckoff-indexed data."""
    out = []
    for J, jl in enumerate(jumpnetwork):
        for (i, j), dx in jl:
            rate = preT[J] / pre[inv[i]] * np.exp(bE[inv[i]] - bET[J])
            out.append((i, j, np.asarray(dx, dtype=float), rate, J))
    return out


def assemble(N, dim, p, jumps):
    Q = np.zeros((N, N))
    b = np.zeros((N, dim))
    D0 = np.zeros((dim, dim))
    sp = np.sqrt(p)
    for (i, j, dx, rate, *_) in jumps:
        Q[i, j] += sp[i] * rate / sp[j]
        Q[i, i] -= rate
        b[i] += sp[i] * rate * dx
        D0 += 0.5 * p[i] * rate * np.outer(dx, dx)
    return Q, b, D0


def components(N, jumps):
    """connected components of the site graph"""
    par = list(range(N))

    def find(x):
        while par[x] != x:
            par[x] = par[par[x]]
            x = par[x]
        return x
    for (i, j, *_) in jumps:
        par[find(i)] = find(j)
    comps = {}
    for i in range(N):
        comps.setdefault(find(i), []).append(i)
    return list(comps.values())


def walk_D(N, dim, p, jumps, full=False):
    """R1. Returns D (and Q~, b~, D0, eta~ with eta~ = Q~^+ b~ when full)."""
    Q, b, D0 = assemble(N, dim, p, jumps)
    asym = np.abs(Q - Q.T).max()
    scale = max(np.abs(Q).max(), 1e-300)
    if asym > 1e-9 * scale:
        raise ValueError('detailed balance violated in reference input (asym %.2e)' % (asym / scale))
    Q = 0.5 * (Q + Q.T)
    # pseudo-inverse component-wise through an eigen-decomposition with a relative cut
    w, v = np.linalg.eigh(Q)
    cut = 1e-11 * max(np.abs(w).max(), 1e-300)
    winv = np.array([0. if abs(x) < cut else 1. / x for x in w])
    Qp = (v * winv) @ v.T
    eta = Qp @ b
    D = D0 + b.T @ eta
    D = 0.5 * (D + D.T)
    if full:
        return D, Q, b, D0, eta
    return D


def bloch_D(N, dim, p, jumps, h=2e-2):
    """R2 (connected networks only): curvature of the largest Bloch eigenvalue, Richardson-extrapolated."""
    sp = np.sqrt(p)

    def lam(k):
        Q = np.zeros((N, N), dtype=complex)
        for (i, j, dx, rate, *_) in jumps:
            Q[i, j] += sp[i] * rate / sp[j] * np.exp(1j * (k @ dx))
            Q[i, i] -= rate
        return np.linalg.eigvalsh(0.5 * (Q + Q.conj().T))[-1]

    def hess(hh):
        H = np.zeros((dim, dim))
        l0 = lam(np.zeros(dim))
        for a in range(dim):
            ea = np.zeros(dim)
            ea[a] = hh
            H[a, a] = (lam(ea) - 2 * l0 + lam(-ea)) / hh ** 2
            for c in range(a + 1, dim):
                ec = np.zeros(dim)
                ec[c] = hh
                H[a, c] = H[c, a] = (lam(ea + ec) - lam(ea - ec) - lam(-ea + ec) + lam(-ea - ec)) / (4 * hh ** 2)
        return H
    H1, H2 = hess(h), hess(h / 2)
    return -0.5 * (4 * H2 - H1) / 3.
