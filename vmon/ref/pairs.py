"""R5 for C24-C26: brute-force solute-vacancy pair-state geometry.

Independent of onsager.crystalStars: a pair state is the integer key (i, j, R) = solute at site i
of cell 0, vacancy at site j of cell R; everything (reachability, symmetry images, orbits,
vacancy hops, exchanges) is recomputed with plain numpy from (lattice, basis, jump list) and the
brute-force space group of vmon.ref.geom.  Nothing here calls PairState / StarSet methods.
"""
import numpy as np
from vmon.ref import geom


def key_of(ps):
    """Integer key of a repository PairState (attributes are only read)."""
    return (int(ps.i), int(ps.j), tuple(int(x) for x in ps.R))


class PairGeom:
    def __init__(self, latt, basis, chem, jumpnetwork, tol=1e-6):
        self.latt = np.asarray(latt, dtype=float)
        self.inv = np.linalg.inv(self.latt)
        self.dim = self.latt.shape[0]
        self.chem = chem
        self.u = [np.asarray(x, dtype=float) for x in basis[chem]]
        self.N = len(self.u)
        self.group = geom.full_group(self.latt, [[np.asarray(x, dtype=float) for x in lst] for lst in basis], tol)
        # per operation: site permutation, integer shift of each site, Cartesian rotation
        self.ops = []
        for (M, t, perm) in self.group:
            p = np.array(perm[chem], dtype=int)
            sh = np.zeros((self.N, self.dim), dtype=int)
            for i in range(self.N):
                d = M @ self.u[i] + t - self.u[p[i]]
                r = np.round(d)
                assert np.all(np.abs(d - r) < 10 * tol), 'operation does not map site onto site'
                sh[i] = r.astype(int)
            self.ops.append((np.array(M, dtype=int), p, sh, self.latt @ M @ self.inv))
        # jumps: (class, i, j, R(tuple), dx) with the end point located geometrically
        self.jumps = []
        self.jumpclass = {}
        for jt, jl in enumerate(jumpnetwork):
            for (i, j), dx in jl:
                end = self.u[i] + self.inv @ np.asarray(dx, dtype=float)
                hits = geom.find_atom(self.u, end, tol)
                assert hits == [j], 'jump end point is not the stated site'
                R = tuple(int(x) for x in np.round(end - self.u[j]))
                self.jumps.append((jt, int(i), int(j), R, np.asarray(dx, dtype=float)))
                self.jumpclass[(int(i), int(j), R)] = jt
        self.jumps_from = [[] for _ in range(self.N)]
        for (jt, i, j, R, dx) in self.jumps:
            self.jumps_from[i].append((jt, j, R, dx))

    # -- geometry ---------------------------------------------------------------------------
    def dx(self, key):
        i, j, R = key
        return self.latt @ (self.u[j] + np.array(R) - self.u[i])

    @staticmethod
    def iszero(key):
        return key[0] == key[1] and not any(key[2])

    def zero(self, i):
        return (i, i, (0,) * self.dim)

    @staticmethod
    def neg(key):
        return (key[1], key[0], tuple(-x for x in key[2]))

    # -- reachability -----------------------------------------------------------------------
    def shells(self, N, cap=None):
        """list of sets: shell[k] = non-zero states reached by exactly k+1 jumps without visiting zero
        (their union over k < N is the set of non-zero states reachable by 1..N jumps)."""
        first = set((i, j, R) for (jt, i, j, R, dx) in self.jumps)
        out = [first]
        allst = set(first)
        for n in range(N - 1):
            nxt = set()
            for (i, j, R) in out[-1]:
                for (jt, j2, R2, dx) in self.jumps_from[j]:
                    k = (i, j2, tuple(a + b for a, b in zip(R, R2)))
                    if not self.iszero(k):
                        nxt.add(k)
            out.append(nxt)
            allst |= nxt
            if cap is not None and len(allst) > cap:
                return None
        return out

    def reachable(self, N, origin=False, cap=None):
        sh = self.shells(N, cap) if N > 0 else []
        if sh is None: return None
        st = set()
        for s in sh: st |= s
        if origin:
            st |= set(self.zero(i) for i in range(self.N))
        return st

    # -- symmetry ---------------------------------------------------------------------------
    def act(self, op, key):
        M, p, sh, rot = op
        i, j, R = key
        return (int(p[i]), int(p[j]), tuple(int(x) for x in (M @ np.array(R) + sh[j] - sh[i])))

    def act_many(self, op, keys):
        """images of a list of keys under one operation (vectorised)"""
        M, p, sh, rot = op
        I = np.array([k[0] for k in keys], dtype=int)
        J = np.array([k[1] for k in keys], dtype=int)
        R = np.array([k[2] for k in keys], dtype=int).reshape(len(keys), self.dim)
        gR = R @ M.T + sh[J] - sh[I]
        gI, gJ = p[I], p[J]
        return [(int(a), int(b), tuple(int(x) for x in r)) for a, b, r in zip(gI, gJ, gR)]

    def orbit(self, key):
        return frozenset(self.act(op, key) for op in self.ops)

    def partition(self, keys):
        """dict key -> orbit (frozenset) for a collection of keys; orbits may leave the collection."""
        keys = list(keys)
        images = [self.act_many(op, keys) for op in self.ops]
        out = {}
        for n, k in enumerate(keys):
            if k in out: continue
            orb = frozenset(im[n] for im in images)
            for x in orb: out[x] = orb
        return {k: out[k] for k in keys}

    def stabilizer_rots(self, key):
        return [op[3] for op in self.ops if self.act(op, key) == key]

    def state_perms(self, keys, index):
        """for each operation: integer array perm with perm[n] = index of g.keys[n] (-1 if outside)"""
        return [np.array([index.get(k, -1) for k in self.act_many(op, keys)], dtype=int) for op in self.ops]

    # -- transitions ------------------------------------------------------------------------
    def hops(self, stateset):
        """All vacancy hops with the solute fixed between non-zero states of stateset, and all exchanges.
        returns (om1, om2): om1[(s, s')] = (jt, dx), om2[(s, -s)] = (jt, dx) with dx the vacancy displacement."""
        om1, om2 = {}, {}
        for s in stateset:
            if self.iszero(s): continue
            i, j, R = s
            for (jt, j2, R2, dx) in self.jumps_from[j]:
                s2 = (i, j2, tuple(a + b for a, b in zip(R, R2)))
                if self.iszero(s2):
                    om2[(s, self.neg(s))] = (jt, dx)
                elif s2 in stateset:
                    om1[(s, s2)] = (jt, dx)
        return om1, om2

    def hop_orbit(self, pair):
        """orbit of a transition (s, s') under the group and reversal"""
        out = set()
        for op in self.ops:
            a, b = self.act(op, pair[0]), self.act(op, pair[1])
            out.add((a, b))
            out.add((b, a))
        return frozenset(out)


# ---------------------------------------------------------------------------------------------
# workload material shared by C24-C26 (generator side; uses the repository only to build inputs)
# ---------------------------------------------------------------------------------------------
def shell_distances(crys, chem, n=3):
    import itertools
    d = set()
    for u0 in crys.basis[chem]:
        for u1 in crys.basis[chem]:
            for s in itertools.product(range(-n, n + 1), repeat=crys.dim):
                x = np.linalg.norm(crys.lattice @ (u1 - u0 + np.array(s)))
                if x > 1e-8: d.add(round(x, 6))
    return sorted(d)


def pick_cutoff(crys, chem, rng, maxshell=3):
    """cut-off strictly inside a gap (> 2e-3 wide) between neighbour shells, after 1..maxshell shells"""
    d = shell_distances(crys, chem)
    m = int(rng.integers(1, maxshell + 1))
    for k in range(m, len(d)):
        if d[k] - d[k - 1] > 2e-3:
            w = min(d[k] - d[k - 1], 0.2)
            return float(d[k - 1] + w * rng.uniform(0.25, 0.75)), k
    return float(d[0] * 1.001), 1


def rand_network(rng, gen, named_prob=0.3, maxsites=3, maxshell=3, dim=None, names=None):
    """(crys, chem, jumpnetwork, desc): a crystal (named or random, 2-D/3-D, 1..maxsites sites of the chosen
    species, 1-2 species) with a non-empty vacancy jump network."""
    for attempt in range(50):
        if rng.uniform() < named_prob:
            lst = list(names or gen.NAMED)
            name = lst[int(rng.integers(len(lst)))]
            crys, chem, cut = gen.named(name)
            desc = {'named': name, 'cutoff': cut}
            kind = name
        else:
            nchem = int(rng.integers(1, 3))
            spec = gen.rand_crystal_spec(rng, dim=dim, nchem=nchem, maxatoms=6)
            crys = gen.make_crystal(spec)
            ok = [c for c in range(crys.Nchem) if len(crys.basis[c]) <= maxsites]
            if not ok: continue
            chem = int(ok[int(rng.integers(len(ok)))])
            cut, nsh = pick_cutoff(crys, chem, rng, maxshell)
            desc = {'kind': spec['kind'], 'lattice': crys.lattice.tolist(), 'basis': [[u.tolist() for u in l] for l in crys.basis],
                    'cutoff': cut}
            kind = spec['kind']
        jn = crys.jumpnetwork(chem, cut)
        if not jn: continue
        desc.update({'chem': chem, 'nsites': len(crys.basis[chem]), 'njumps': sum(len(j) for j in jn), 'G': len(crys.G)})
        return crys, chem, jn, desc, kind
    raise RuntimeError('no network generated')
