"""Exact structural comparison of repository objects (C13: saved / reloaded objects).

diff(a, b) walks two object graphs in parallel and returns a list of (path, reason) for every place
where they are not *identical in value*: numbers must be equal exactly (floats bit for bit, python and
numpy scalars are interchangeable), sequences (list / tuple / ndarray) must have the same shape and equal
entries, dicts the same keys (keys that are tuples of arrays -- vacancyThermoKinetics -- are matched by
their bytes), sets are compared through an exact canonical form of their elements, objects with a
__dict__ through their common attributes (attributes missing on one side are returned separately).
Nothing from the repository is used to decide equality.
"""
import numbers, types
import numpy as np

MAXDIFF = 12


def _isnum(x):
    return isinstance(x, (numbers.Number, np.generic)) and not isinstance(x, (str, bytes, np.str_, np.bytes_))


def _isseq(x):
    return isinstance(x, (list, tuple, np.ndarray)) or type(x).__module__.startswith('h5py')


def _isfunc(x):
    return isinstance(x, (types.FunctionType, types.MethodType, types.BuiltinFunctionType, type))


def _isnamed(x):
    return isinstance(x, tuple) and hasattr(x, '_fields')


def freeze(x, depth=0):
    """exact hashable canonical form (container types are forgotten, values are exact)"""
    if depth > 12: return ('deep',)
    if x is None or isinstance(x, (str, bytes, bool)): return x
    if isinstance(x, (np.str_, np.bytes_)): return x.item()
    if _isnum(x):
        v = x.item() if isinstance(x, np.generic) else x
        if isinstance(v, complex): return ('c', v.real, v.imag)
        return ('f', v) if isinstance(v, float) else int(v)
    if _isnamed(x):
        return (type(x).__name__,) + tuple((f, freeze(getattr(x, f), depth + 1)) for f in x._fields)
    if isinstance(x, np.ndarray):
        return ('seq',) + tuple(freeze(v, depth + 1) for v in x) if x.ndim else freeze(x[()], depth + 1)
    if _isseq(x):
        return ('seq',) + tuple(freeze(v, depth + 1) for v in x)
    if isinstance(x, (set, frozenset)):
        return ('set', frozenset(freeze(v, depth + 1) for v in x))
    if isinstance(x, dict):
        return ('dict', frozenset((freeze(k, depth + 1), freeze(v, depth + 1)) for k, v in x.items()))
    if hasattr(x, '__dict__'):
        return (type(x).__name__, frozenset((k, freeze(v, depth + 1)) for k, v in vars(x).items() if not _isfunc(v)))
    return ('repr', repr(x))


def _numeq(a, b):
    a = a.item() if isinstance(a, np.generic) else a
    b = b.item() if isinstance(b, np.generic) else b
    if isinstance(a, bool) != isinstance(b, bool) and not (a in (0, 1) and b in (0, 1)): return False
    fa, fb = isinstance(a, (float, complex)), isinstance(b, (float, complex))
    if fa != fb:
        return False  # an integer became a float or vice versa
    if a != a and b != b: return True
    return a == b


def diff(a, b, path='', out=None, missing=None, skip=(), _seen=None):
    """-> (differences, missing) ; differences: list of (path, text); missing: list of (path, 'left'|'right')"""
    if out is None: out = []
    if missing is None: missing = []
    if _seen is None: _seen = set()
    if len(out) >= MAXDIFF: return out, missing
    if a is b: return out, missing
    if a is None or b is None:
        out.append((path, '%r vs %r' % (type(a).__name__, type(b).__name__)))
        return out, missing
    if isinstance(a, (str, np.str_, bytes, np.bytes_)) or isinstance(b, (str, np.str_, bytes, np.bytes_)):
        sa = a.decode() if isinstance(a, (bytes, np.bytes_)) else str(a)
        sb = b.decode() if isinstance(b, (bytes, np.bytes_)) else str(b)
        if sa != sb or _isnum(a) or _isnum(b): out.append((path, '%r vs %r' % (a, b)))
        return out, missing
    if isinstance(a, np.ndarray) and a.ndim == 0: a = a[()]
    if isinstance(b, np.ndarray) and b.ndim == 0: b = b[()]
    if _isnum(a) and _isnum(b):
        if not _numeq(a, b): out.append((path, '%r vs %r' % (a, b)))
        return out, missing
    if _isnum(a) != _isnum(b):
        out.append((path, 'number vs %s' % type(b if _isnum(a) else a).__name__))
        return out, missing
    if _isnamed(a) or _isnamed(b):
        if not (_isnamed(a) and _isnamed(b)) or type(a).__name__ != type(b).__name__:
            out.append((path, 'type %s vs %s' % (type(a).__name__, type(b).__name__)))
            return out, missing
        for f in a._fields:
            diff(getattr(a, f), getattr(b, f), path + '.' + f, out, missing, skip, _seen)
        return out, missing
    if isinstance(a, np.ndarray) and isinstance(b, np.ndarray) and a.dtype != object and b.dtype != object:
        if a.shape != b.shape:
            out.append((path, 'shape %s vs %s' % (a.shape, b.shape)))
        elif a.dtype.kind != b.dtype.kind and not {a.dtype.kind, b.dtype.kind} <= {'i', 'u'} and not {a.dtype.kind, b.dtype.kind} <= {'S', 'U'}:
            out.append((path, 'dtype %s vs %s' % (a.dtype, b.dtype)))
        elif a.dtype.kind in 'SU':
            if not np.array_equal(a.astype('U'), b.astype('U')): out.append((path, 'string arrays differ'))
        elif not np.array_equal(a, b, equal_nan=True):
            w = np.argwhere(a != b)
            k = tuple(w[0]) if len(w) else ()
            out.append((path, 'arrays differ at %s: %r vs %r (%d entries)' % (list(k), a[k], b[k], len(w))))
        return out, missing
    if _isseq(a) and _isseq(b):
        la, lb = list(a), list(b)
        if len(la) != len(lb):
            out.append((path, 'length %d vs %d' % (len(la), len(lb))))
            return out, missing
        for n, (x, y) in enumerate(zip(la, lb)):
            diff(x, y, '%s[%d]' % (path, n), out, missing, skip, _seen)
            if len(out) >= MAXDIFF: break
        return out, missing
    if isinstance(a, (set, frozenset)) and isinstance(b, (set, frozenset)):
        fa, fb = freeze(a), freeze(b)
        if fa != fb:
            out.append((path, 'sets differ: %d vs %d elements, %d not in right, %d not in left' % (
                len(a), len(b), len(fa[1] - fb[1]), len(fb[1] - fa[1]))))
        return out, missing
    if isinstance(a, dict) and isinstance(b, dict):
        ka = {freeze(k): k for k in a}
        kb = {freeze(k): k for k in b}
        if set(ka) != set(kb):
            out.append((path, 'dict keys differ: %d vs %d keys, %d only left, %d only right' % (
                len(ka), len(kb), len(set(ka) - set(kb)), len(set(kb) - set(ka)))))
        for fk in ka:
            if fk in kb:
                diff(a[ka[fk]], b[kb[fk]], '%s{%s}' % (path, str(ka[fk])[:40]), out, missing, skip, _seen)
        return out, missing
    if hasattr(a, '__dict__') and hasattr(b, '__dict__') and not _isfunc(a):
        if type(a).__name__ != type(b).__name__:
            out.append((path, 'type %s vs %s' % (type(a).__name__, type(b).__name__)))
            return out, missing
        key = (id(a), id(b))
        if key in _seen: return out, missing
        _seen.add(key)
        va, vb = vars(a), vars(b)
        for k in va:
            if (type(a).__name__, k) in skip or _isfunc(va[k]): continue
            if k not in vb:
                missing.append((path + '.' + k, 'right'))
                continue
            diff(va[k], vb[k], path + '.' + k, out, missing, skip, _seen)
        for k in vb:
            if k not in va and (type(a).__name__, k) not in skip and not _isfunc(vb[k]):
                missing.append((path + '.' + k, 'left'))
        return out, missing
    if type(a) != type(b) or a != b:
        out.append((path, '%r vs %r' % (a, b)))
    return out, missing
