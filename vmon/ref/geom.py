"""R5/R6: brute-force geometry, independent of the repository's symmetry machinery.

Only plain numpy on (lattice, basis) data.  Conventions: lattice has column vectors,
positions are in direct (unit-cell) coordinates.
"""
import itertools
import numpy as np


def wrap_half(v):
    v = np.asarray(v, dtype=float)
    return v - np.floor(v + 0.5)


def same_pos(u, v, tol=1e-6):
    return bool(np.all(np.abs(wrap_half(np.asarray(u) - np.asarray(v))) < tol))


def find_atom(basis_c, u, tol=1e-6):
    """indices in list basis_c equal to u modulo lattice"""
    return [j for j, v in enumerate(basis_c) if same_pos(u, v, tol)]


def lattice_point_ops(latt, nrange=2, tol=1e-6):
    """All integer matrices M (|entries|<=nrange) with latt@M an isometric image of latt."""
    dim = latt.shape[0]
    metric = latt.T @ latt
    vecs = [np.array(v) for v in itertools.product(range(-nrange, nrange + 1), repeat=dim) if any(v)]
    cand = [[v for v in vecs if abs(v @ metric @ v - metric[d, d]) < tol * max(1., metric[d, d])] for d in range(dim)]
    ops = []
    for cols in itertools.product(*cand):
        M = np.array(cols).T
        if abs(abs(round(np.linalg.det(M))) - 1) > 0: continue
        if np.allclose(M.T @ metric @ M, metric, atol=tol * max(1., np.abs(metric).max())):
            ops.append(M)
    return ops


def full_group(latt, basis, tol=1e-6, nrange=2):
    """Brute-force space group (mod lattice translations): list of (rot, trans, perm) with
    perm[c][i] = index of the atom that atom (c,i) is mapped onto. No spins."""
    dim = latt.shape[0]
    cmin = min(range(len(basis)), key=lambda c: len(basis[c]))
    out = []
    for M in lattice_point_ops(latt, nrange, tol):
        u0 = M @ np.asarray(basis[cmin][0])
        for target in basis[cmin]:
            t = wrap_half(np.asarray(target) - u0)
            perm = []
            ok = True
            for c, lst in enumerate(basis):
                pc = []
                for u in lst:
                    hits = find_atom(lst, M @ np.asarray(u) + t, tol)
                    if len(hits) != 1:
                        ok = False
                        break
                    pc.append(hits[0])
                if not ok or sorted(pc) != list(range(len(lst))):
                    ok = False
                    break
                perm.append(tuple(pc))
            if ok and not any(np.array_equal(M, r) and same_pos(t, tt, tol) for r, tt, _ in out):
                out.append((M, t, tuple(perm)))
    return out


def orbits_from_perms(perms, natoms_per_chem):
    """Orbits of atoms (c,i) under permutations perm[c][i]."""
    seen, orbs = set(), []
    for c, n in enumerate(natoms_per_chem):
        for i in range(n):
            if (c, i) in seen: continue
            orb = set()
            stack = [(c, i)]
            while stack:
                x = stack.pop()
                if x in orb: continue
                orb.add(x)
                for p in perms:
                    y = (x[0], p[x[0]][x[1]])
                    if y not in orb: stack.append(y)
            seen |= orb
            orbs.append(frozenset(orb))
    return frozenset(orbs)


def is_primitive(latt, basis, tol=1e-6):
    """True iff no non-trivial pure translation maps the decorated lattice onto itself."""
    cmin = min(range(len(basis)), key=lambda c: len(basis[c]))
    u0 = np.asarray(basis[cmin][0])
    for target in basis[cmin][1:]:
        t = wrap_half(np.asarray(target) - u0)
        if all(len(find_atom(lst, np.asarray(u) + t, tol)) == 1 for lst in basis for u in lst):
            return False
    return True


def stabilizer_cart(latt, group, u, tol=1e-6):
    """Cartesian rotations of the group elements that fix position u (mod lattice)."""
    inv = np.linalg.inv(latt)
    return [latt @ M @ inv for (M, t, _) in group if same_pos(M @ np.asarray(u) + t, u, tol)]


def vector_projector(rots):
    """Group-average projector onto invariant vectors."""
    return sum(rots) / len(rots)


def tensor_projector(rots):
    """Group-average projector on symmetric second-rank tensors, as a (d*d, d*d) matrix acting
    on flattened tensors; restricted to the symmetric subspace."""
    d = rots[0].shape[0]
    P = sum(np.kron(R, R) for R in rots) / len(rots)
    S = np.zeros((d * d, d * d))
    for a in range(d):
        for b in range(d):
            S[a * d + b, a * d + b] += 0.5
            S[a * d + b, b * d + a] += 0.5
    return P @ S


def neighbor_vectors(latt, basis_c, i, j, cutoff, extra=2):
    """All (R, dx) with dx = latt@(u_j + R - u_i), 0 < |dx| < cutoff. Image range is chosen from
    the reciprocal metric (rigorous bound) plus `extra`."""
    dim = latt.shape[0]
    invl = np.linalg.inv(latt)
    nmax = [int(np.ceil(cutoff * np.linalg.norm(invl[d]))) + 1 + extra for d in range(dim)]
    du = np.asarray(basis_c[j]) - np.asarray(basis_c[i])
    out = []
    for R in itertools.product(*[range(-n, n + 1) for n in nmax]):
        dx = latt @ (du + np.array(R))
        d2 = dx @ dx
        if 1e-16 < d2 < cutoff * cutoff:
            out.append((np.array(R), dx))
    return out
