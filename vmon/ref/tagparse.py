"""R12: independent parser for the tag strings of OnsagerCalc and geometric class lookup.

Tag grammar (read off the format constants, re-implemented here with a regular expression):
    site      :=  <letter> ':' <num> (',' <num>){1,2}          num = sign, digits, '.', 3 decimals (unit-cell coordinates)
    pair      :=  's:'... '-' 'v:'...                          solute - vacancy complex
    i-jump    :=  site '^' site                                interstitial transition
    omega0    :=  'omega0:' site(v) '^' site(v)
    omega1    :=  'omega1:' site(s) '-' site(v) '^' site(v)
    omega2    :=  'omega2:' pair '^' pair
A tag is turned back into unit-cell positions; positions are looked up in the basis of the crystal by
distance (tolerance: the 3-decimal rounding of the tag), displacement vectors are compared in Cartesian
coordinates with the members of the calculator's classes.  No tag string of the repository is consulted.
"""
import re
import numpy as np

NUM = r'[+-]\d+\.\d{3}'
SITE = r'([a-z]):(%s(?:,%s){1,2})' % (NUM, NUM)
RE_SITE = re.compile(r'^%s$' % SITE)
RE_PAIR = re.compile(r'^%s-%s$' % (SITE, SITE))
RE_JUMP = re.compile(r'^%s\^%s$' % (SITE, SITE))
RE_OM0 = re.compile(r'^omega0:%s\^%s$' % (SITE, SITE))
RE_OM1 = re.compile(r'^omega1:%s-%s\^%s$' % (SITE, SITE, SITE))
RE_OM2 = re.compile(r'^omega2:%s-%s\^%s-%s$' % (SITE, SITE, SITE, SITE))
UTOL = 1.2e-3  # unit-cell coordinates: 3 decimals => 5e-4 rounding per coordinate, plus slack


def _vec(s):
    return np.array([float(x) for x in s.split(',')])


def parse(tag):
    """-> (kind, [(letter, u), ...]) or None.  kind in site, pair, jump, omega0, omega1, omega2"""
    if not isinstance(tag, str): return None
    for kind, rx in (('site', RE_SITE), ('pair', RE_PAIR), ('jump', RE_JUMP), ('omega0', RE_OM0), ('omega1', RE_OM1), ('omega2', RE_OM2)):
        m = rx.match(tag)
        if m:
            g = m.groups()
            sites = [(g[k], _vec(g[k + 1])) for k in range(0, len(g), 2)]
            dims = set(len(u) for _, u in sites)
            if len(dims) != 1: return None
            return kind, sites
    return None


class Geometry:
    """positions of one sublattice; lookup of parsed positions"""

    def __init__(self, lattice, basis_c):
        self.L = np.asarray(lattice)
        self.basis = [np.asarray(u, dtype=float) for u in basis_c]
        self.dim = self.L.shape[0]
        self.ctol = 2.5 * UTOL * float(np.max(np.linalg.norm(self.L, axis=0))) * np.sqrt(self.dim)

    def well_separated(self):
        """tags can only name sites when different sites differ by more than the rounding of the tag"""
        for a in range(len(self.basis)):
            for b in range(a + 1, len(self.basis)):
                du = self.basis[a] - self.basis[b]
                du = du - np.round(du)
                if np.max(np.abs(du)) < 4 * UTOL: return False
        return True

    def locate(self, u):
        """all (site index, R) with basis[i] + R == u within the tag precision"""
        out = []
        if len(u) != self.dim: return out
        for i, b in enumerate(self.basis):
            R = np.round(u - b)
            if np.max(np.abs(u - b - R)) < UTOL:
                out.append((i, R.astype(int)))
        return out

    def cart(self, du):
        return self.L @ du

    def close(self, dx, dy):
        return bool(np.max(np.abs(np.asarray(dx) - np.asarray(dy))) < self.ctol)


def _one(lst):
    return lst[0] if len(lst) == 1 else None


def describe(geo, parsed):
    """geometric content of a parsed tag: dict with site indices and Cartesian vectors; None if a position is not
    a site of the sublattice (or is ambiguous)"""
    kind, sites = parsed
    loc = [_one(geo.locate(u)) for _, u in sites]
    if any(l is None for l in loc): return None
    letters = ''.join(l for l, _ in sites)
    us = [u for _, u in sites]
    d = {'kind': kind, 'letters': letters, 'idx': [l[0] for l in loc], 'R': [l[1] for l in loc]}
    if kind == 'site':
        pass
    elif kind in ('pair', 'jump', 'omega0'):
        d['dx'] = geo.cart(us[1] - us[0])
    elif kind == 'omega1':
        d['dx1'] = geo.cart(us[1] - us[0])
        d['dx2'] = geo.cart(us[2] - us[0])
    elif kind == 'omega2':
        d['dx1'] = geo.cart(us[1] - us[0])
        d['dx2'] = geo.cart(us[3] - us[2])
        d['ds'] = geo.cart(us[2] - us[0])  # where the second complex's solute sits relative to the first
    return d


def state_matches(geo, PS, i, j, dx):
    return int(PS.i) == i and int(PS.j) == j and geo.close(PS.dx, dx)


# ---------------------------------------------------------------------------------------------------
# class lookup for the two calculators.  Every function returns the list of (class index, member index)
# of ALL classes of that type that contain the object named by the tag.
# ---------------------------------------------------------------------------------------------------
def vm_lookup(calc, geo, tagtype, d):
    """calc: VacancyMediated; d: describe() result"""
    hits = []
    if d is None: return hits
    if tagtype in ('vacancy', 'solute'):
        if d['kind'] != 'site' or d['letters'] != ('v' if tagtype == 'vacancy' else 's'): return hits
        for k, cl in enumerate(calc.sitelist):
            for m, i in enumerate(cl):
                if int(i) == d['idx'][0]: hits.append((k, m))
    elif tagtype == 'solute-vacancy':
        if d['kind'] != 'pair' or d['letters'] != 'sv': return hits
        for k, star in enumerate(calc.thermo.stars):
            for m, s in enumerate(star):
                if state_matches(geo, calc.thermo.states[s], d['idx'][0], d['idx'][1], d['dx']): hits.append((k, m))
    elif tagtype == 'omega0':
        if d['kind'] != 'omega0' or d['letters'] != 'vv': return hits
        for k, jl in enumerate(calc.om0_jn):
            for m, ((i, j), dx) in enumerate(jl):
                if int(i) == d['idx'][0] and int(j) == d['idx'][1] and geo.close(dx, d['dx']): hits.append((k, m))
    elif tagtype == 'omega1':
        if d['kind'] != 'omega1' or d['letters'] != 'svv': return hits
        st = calc.kinetic.states
        for k, jl in enumerate(calc.om1_jn):
            for m, ((si, sf), dx) in enumerate(jl):
                if state_matches(geo, st[si], d['idx'][0], d['idx'][1], d['dx1']) and \
                        state_matches(geo, st[sf], d['idx'][0], d['idx'][2], d['dx2']) and geo.close(dx, d['dx2'] - d['dx1']):
                    hits.append((k, m))
    elif tagtype == 'omega2':
        if d['kind'] != 'omega2' or d['letters'] != 'svsv': return hits
        st = calc.kinetic.states
        for k, jl in enumerate(calc.om2_jn):
            for m, ((si, sf), dx) in enumerate(jl):
                # exchange: the solute ends where the vacancy was and vice versa; the vacancy moves by -dx1
                if state_matches(geo, st[si], d['idx'][0], d['idx'][1], d['dx1']) and \
                        state_matches(geo, st[sf], d['idx'][2], d['idx'][3], d['dx2']) and geo.close(dx, -d['dx1']) and \
                        d['idx'][2] == d['idx'][1] and d['idx'][3] == d['idx'][0] and geo.close(d['dx2'], -d['dx1']):
                    hits.append((k, m))
    return hits


VM_TYPES = ('vacancy', 'solute', 'solute-vacancy', 'omega0', 'omega1', 'omega2')


def vm_classify(calc, geo, tag):
    """-> list of (tagtype, class index, member index) over all types (independent of calc.tagdict)"""
    p = parse(tag)
    if p is None: return []
    d = describe(geo, p)
    out = []
    for t in VM_TYPES:
        out += [(t, k, m) for k, m in vm_lookup(calc, geo, t, d)]
    return out


def int_lookup(calc, geo, tagtype, d):
    """calc: Interstitial"""
    hits = []
    if d is None: return hits
    if tagtype == 'states':
        if d['kind'] != 'site' or d['letters'] != 'i': return hits
        for k, cl in enumerate(calc.sitelist):
            for m, i in enumerate(cl):
                if int(i) == d['idx'][0]: hits.append((k, m))
    elif tagtype == 'transitions':
        if d['kind'] != 'jump' or d['letters'] != 'ii': return hits
        for k, jl in enumerate(calc.jumpnetwork):
            for m, ((i, j), dx) in enumerate(jl):
                if int(i) == d['idx'][0] and int(j) == d['idx'][1] and geo.close(dx, d['dx']): hits.append((k, m))
    return hits


# ---------------------------------------------------------------------------------------------------
# LIMB (linear interpolation of the migration barrier), from its definition
# ---------------------------------------------------------------------------------------------------
def limb(calc, geo, preS, eneS, preSV, eneSV, preT0, eneT0):
    """Transition-state prefactor / energy of every omega1 / omega2 class: the bare jump's value shifted by the mean
    of the (solute + binding) energies of the initial and final solute-vacancy states; prefactors geometric mean.
    All class memberships are found geometrically (site orbit of the solute, thermodynamic star of the pair, bare
    jump class of the vacancy hop)."""
    wy = {}
    for k, cl in enumerate(calc.sitelist):
        for i in cl: wy[int(i)] = k

    def thermo_star(PS):
        for k, star in enumerate(calc.thermo.stars):
            for s in star:
                if state_matches(geo, calc.thermo.states[s], int(PS.i), int(PS.j), PS.dx): return k
        return None

    def state_pe(PS):
        p, e = float(preS[wy[int(PS.i)]]), float(eneS[wy[int(PS.i)]])
        t = None if (int(PS.i) == int(PS.j) and not np.any(PS.R)) else thermo_star(PS)
        if t is not None:
            e = e + float(eneSV[t])
            p = p * float(preSV[t])
        return p, e

    def bare_class(i, j, dx):
        found = [k for k, jl in enumerate(calc.om0_jn) for (a, b), dy in jl if int(a) == i and int(b) == j and geo.close(dy, dx)]
        return found[0] if len(set(found)) == 1 else None

    out = {}
    for name, jn, ex in (('T1', calc.om1_jn, False), ('T2', calc.om2_jn, True)):
        pre, ene = np.ones(len(jn)), np.zeros(len(jn))
        for c, jl in enumerate(jn):
            (si, sf), dx = jl[0]
            PSi, PSf = calc.kinetic.states[si], calc.kinetic.states[sf]
            jt = bare_class(int(PSi.j), int(PSi.i) if ex else int(PSf.j), dx)
            if jt is None: return None
            (pi, ei), (pf, ef) = state_pe(PSi), state_pe(PSf)
            pre[c] = preT0[jt] * np.sqrt(pi * pf)
            ene[c] = eneT0[jt] + 0.5 * (ei + ef)
        out['pre' + name], out['ene' + name] = pre, ene
    return out
