"""R12 (tag parser) and independent supercell bookkeeping for C29 / C30, plus the shared workload
generator (random interstitial and vacancy-mediated calculators x supercell matrices).

Nothing here calls the repository's supercell/tag algorithms: tags are parsed from their documented
string format, sites are looked up geometrically, occupations are rebuilt from (crystal, matrix),
minimum images are found by brute force over superlattice translations, and the symmetry
equivalence of two defect configurations is decided with the brute-force space group of
vmon.ref.geom.  Repository objects are only read (crys.lattice, crys.basis, sup.pos, ...).
"""
import itertools, re
import numpy as np
from vmon.ref import geom

# ------------------------------------------------------------------------------------------------
# R12: tag parser.  Documented format (OnsagerCalc module constants):
#   defect     := <type>:<+d.ddd>,<+d.ddd>[,<+d.ddd>]          type in i, s, v
#   complex    := s:...-v:...
#   transition := <state>^<state>, prefixed by omega0: / omega1: / omega2: for vacancy calculators;
#                 omega1 lists the solute once:  omega1:s:..-v:..^v:..
# ------------------------------------------------------------------------------------------------
_NUM = r'[+-]\d+\.\d{3}'
_DEFECT = re.compile(r'([isv]):(%s(?:,%s){1,2})' % (_NUM, _NUM))


class TagError(ValueError):
    pass


def _parse_state(s):
    """'s:..-v:..' / 'v:..' / 'i:..' -> list of (type, u)"""
    out, pos = [], 0
    while True:
        m = _DEFECT.match(s, pos)
        if m is None:
            raise TagError('cannot parse defect at %r in %r' % (s[pos:], s))
        out.append((m.group(1), np.array([float(x) for x in m.group(2).split(',')])))
        pos = m.end()
        if pos == len(s):
            return out
        if s[pos] != '-':
            raise TagError('unexpected separator %r in %r' % (s[pos], s))
        pos += 1


def parse_tag(tag):
    """-> dict(kind=..., initial=[(type,u),...], final=[...] or None).
    kind in: i, v, s, s-v (states); i^i, omega0, omega1, omega2 (transitions)."""
    prefix = None
    body = tag
    m = re.match(r'(omega[012]):', tag)
    if m:
        prefix, body = m.group(1), tag[m.end():]
    parts = body.split('^')
    if len(parts) == 1:
        if prefix is not None: raise TagError('state tag with jump prefix: %r' % tag)
        st = _parse_state(parts[0])
        kind = '-'.join(t for t, _ in st)
        if kind not in ('i', 'v', 's', 's-v'): raise TagError('unknown state kind %r in %r' % (kind, tag))
        return {'kind': kind, 'initial': st, 'final': None}
    if len(parts) != 2: raise TagError('more than one ^ in %r' % tag)
    ini, fin = _parse_state(parts[0]), _parse_state(parts[1])
    ki, kf = '-'.join(t for t, _ in ini), '-'.join(t for t, _ in fin)
    if prefix is None:
        if (ki, kf) != ('i', 'i'): raise TagError('unprefixed transition must be i^i: %r' % tag)
        return {'kind': 'i^i', 'initial': ini, 'final': fin}
    if prefix == 'omega0':
        if (ki, kf) != ('v', 'v'): raise TagError('omega0 must be v^v: %r' % tag)
    elif prefix == 'omega1':
        if (ki, kf) != ('s-v', 'v'): raise TagError('omega1 must be s-v^v: %r' % tag)
        fin = [ini[0], fin[0]]  # the solute stays where it is
    elif prefix == 'omega2':
        if (ki, kf) != ('s-v', 's-v'): raise TagError('omega2 must be s-v^s-v: %r' % tag)
    return {'kind': prefix, 'initial': ini, 'final': fin}


# ------------------------------------------------------------------------------------------------
# independent site table of a supercell
# ------------------------------------------------------------------------------------------------
class SiteTable:
    """Sites of the supercell `S` (integer matrix, columns = supercell vectors in unit-cell
    coordinates) of crystal `crys`, indexed like the repository's Supercell (pos is read from it,
    and verified against the crystal by check_positions)."""

    def __init__(self, crys, S, pos):
        self.crys = crys
        self.S = np.array(S, dtype=int)
        self.Sinv = np.linalg.inv(self.S)
        self.size = abs(int(round(np.linalg.det(self.S))))
        self.pos = np.asarray(pos, dtype=float)
        self.unit = self.pos @ self.S.T  # unit-cell coordinates of every site
        self.latt = crys.lattice @ self.S  # superlattice, columns
        self.cart = self.pos @ self.latt.T
        self.atoms = [(c, i) for c, lst in enumerate(crys.basis) for i in range(len(lst))]
        self.N = len(self.atoms)

    def wrap_unit(self, du):
        """du (unit-cell coordinates, possibly many rows) reduced modulo the superlattice, as unit-cell coordinates"""
        ds = np.atleast_2d(du) @ self.Sinv.T
        ds = ds - np.floor(ds + 0.5)
        return ds @ self.S.T

    def check_positions(self):
        """None if the site list is exactly {basis + R} modulo the superlattice, indexed as
        n*N + (atom index); otherwise a description of what is wrong."""
        if self.pos.shape != (self.N * self.size, 3):
            return 'shape %s, expected (%d, 3)' % (self.pos.shape, self.N * self.size)
        for ind in range(len(self.pos)):
            c, i = self.atoms[ind % self.N]
            d = self.unit[ind] - self.crys.basis[c][i]
            if np.max(np.abs(d - np.round(d))) > 1e-7:
                return 'site %d at %s is not atom %s + lattice vector' % (ind, self.unit[ind], (c, i))
        # all different modulo the superlattice
        for k in range(self.N):
            sub = self.pos[k::self.N]
            d = sub[:, None, :] - sub[None, :, :]
            d = np.abs(d - np.round(d)).max(axis=2) + np.eye(len(sub))
            if d.min() < 1e-7:
                return 'two sites of atom %d coincide modulo the superlattice' % k
        if np.any(self.pos < -1e-12) or np.any(self.pos >= 1 + 1e-12):
            return 'positions outside [0,1)'
        return None

    def find(self, u, tol=5.5e-4):
        """indices of sites equal to unit-cell position u modulo the superlattice (tags carry 3 decimals)"""
        d = self.wrap_unit(self.unit - np.asarray(u)[None, :])
        return [int(k) for k in np.nonzero(np.abs(d).max(axis=1) < tol)[0]]

    def base_occ(self, empty_chems=()):
        """defect-free occupation: every site carries its own species, interstitial species are empty"""
        return np.array([-1 if self.atoms[ind % self.N][0] in empty_chems else self.atoms[ind % self.N][0]
                         for ind in range(self.N * self.size)], dtype=int)

    def sep_cart(self, a, b):
        """Cartesian vector site a -> site b (as stored, no wrapping)"""
        return self.cart[b] - self.cart[a]

    def is_superlattice_vector(self, v, tol=1e-8):
        n = np.linalg.solve(self.latt, v)
        return bool(np.max(np.abs(self.latt @ (n - np.round(n)))) < tol)


def chemorder_problem(occ, chemorder, nspecies):
    """chemorder[c] must list exactly the sites with occ == c, each once"""
    if len(chemorder) != nspecies:
        return 'chemorder has %d lists for %d species' % (len(chemorder), nspecies)
    for c, lst in enumerate(chemorder):
        want = set(int(k) for k in np.nonzero(np.asarray(occ) == c)[0])
        if len(lst) != len(set(lst)) or set(int(k) for k in lst) != want:
            return 'species %d: order list %s vs occupied sites %s' % (c, sorted(lst)[:12], sorted(want)[:12])
    return None


# ------------------------------------------------------------------------------------------------
# minimum images
# ------------------------------------------------------------------------------------------------
def image_analysis(L, dxs, margin=1e-6):
    """For Cartesian vectors dxs (rows) in a cell with column vectors L:
    coords   supercell direct coordinates (rows),
    shorter  True where some image dx+T (T != 0) is shorter than dx by more than margin,
    tie      True where some image has the same length within margin (and none is shorter),
    i.e. shorter|tie == 'dx is not its own unique minimum image'."""
    dxs = np.atleast_2d(np.asarray(dxs, dtype=float))
    Linv = np.linalg.inv(L)
    coords = dxs @ Linv.T
    rmax = float(np.sqrt((dxs ** 2).sum(axis=1)).max()) if len(dxs) else 0.
    nmax = [int(np.ceil(2 * rmax * np.linalg.norm(Linv[k]) + 1e-9)) for k in range(3)]
    ns = np.array([n for n in itertools.product(*[range(-m, m + 1) for m in nmax]) if any(n)], dtype=float)
    if len(ns) == 0:
        z = np.zeros(len(dxs), dtype=bool)
        return coords, z, z.copy()
    T = ns @ L.T
    r = np.sqrt((dxs ** 2).sum(axis=1))
    best = np.full(len(dxs), np.inf)
    for a in range(0, len(T), 4096):  # chunked to bound memory
        d = dxs[:, None, :] + T[None, a:a + 4096, :]
        best = np.minimum(best, np.sqrt((d ** 2).sum(axis=2)).min(axis=1))
    shorter = best < r - margin
    tie = (~shorter) & (best <= r + margin)
    return coords, shorter, tie


# ------------------------------------------------------------------------------------------------
# independent symmetry equivalence of two small defect configurations in a supercell
# ------------------------------------------------------------------------------------------------
def compatible_ops(crys, S, group=None):
    """Operations (M, t) of the brute-force space group of crys that map the superlattice S onto itself."""
    if group is None:
        group = geom.full_group(crys.lattice, crys.basis)
    Sinv = np.linalg.inv(S)
    out = []
    for M, t, _ in group:
        A = Sinv @ M @ S
        if np.max(np.abs(A - np.round(A))) < 1e-9:
            out.append((M, t))
    return out


def configs_equivalent(ops, S, A, B, tol=1e-6):
    """A, B: lists of (species, u) in unit-cell coordinates.  True iff some op (M,t) followed by a lattice
    translation maps A onto B (species by species) modulo the superlattice.  The perfect crystal is
    invariant under every such operation, so only the defects need to be compared."""
    if sorted(s for s, _ in A) != sorted(s for s, _ in B): return False
    Sinv = np.linalg.inv(S)

    def same(u, v):
        d = Sinv @ (u - v)
        return np.max(np.abs(S @ (d - np.round(d)))) < tol

    s0, u0 = A[0]
    for M, t in ops:
        for sb, ub in B:
            if sb != s0: continue
            R = ub - (M @ u0 + t)
            if np.max(np.abs(R - np.round(R))) > tol: continue
            img = [(s, M @ u + t + R) for s, u in A]
            left = list(B)
            ok = True
            for s, v in img:
                hit = next((k for k, (sb2, ub2) in enumerate(left) if sb2 == s and same(v, ub2)), None)
                if hit is None:
                    ok = False
                    break
                left.pop(hit)
            if ok: return True
    return False


# ------------------------------------------------------------------------------------------------
# workload: calculators and supercell matrices
# ------------------------------------------------------------------------------------------------
NAMED3 = ('sc', 'fcc', 'bcc', 'diamond', 'hcp', 'omega', 'rumpled', 'b2', 'l12', 'tet')


def shell_distances(crys, chem, nmax=2):
    d = set()
    for u0 in crys.basis[chem]:
        for u1 in crys.basis[chem]:
            for s in itertools.product(range(-nmax, nmax + 1), repeat=crys.dim):
                r = np.linalg.norm(crys.lattice @ (u1 - u0 + np.array(s)))
                if r > 1e-8: d.add(round(r, 6))
    out = []
    for r in sorted(d):
        if not out or r - out[-1] > 1e-4: out.append(r)
    return out


def shell_cutoff(crys, chem, nshell):
    """cutoff halfway (geometric) between shell nshell and the next one"""
    ds = shell_distances(crys, chem)
    nshell = min(nshell, len(ds) - 1)
    if ds[nshell] / ds[nshell - 1] < 1.002:  # nearly degenerate shells: move on
        nshell = min(nshell + 1, len(ds) - 1)
    return float(0.5 * (ds[nshell - 1] + ds[nshell]))


def rand_supermatrix(rng, crys, maxsites, mode=None, need=None):
    """Random integer 3x3 supercell matrix with N*|det| <= maxsites.
    mode: 'scalar' n*I, 'diag', 'general' (non-diagonal, possibly symmetry breaking), 'fit' (diagonal,
    just large enough that every vector with unit-cell coordinates |c_k| <= need_k lies inside the half cell)."""
    N = crys.N
    if mode is None:
        mode = ('scalar', 'diag', 'general', 'fit')[int(rng.integers(4))]
    for attempt in range(200):
        if mode == 'scalar':
            S = int(rng.integers(1, 5)) * np.eye(3, dtype=int)
        elif mode == 'diag':
            S = np.diag(rng.integers(1, 5, size=3))
        elif mode == 'fit':
            S = np.diag([int(np.floor(2 * c + 1e-6)) + 1 + int(rng.integers(0, 2) if k == 0 else 0) for k, c in enumerate(need)])
            if N * abs(int(round(np.linalg.det(S)))) > maxsites: return None
        else:
            S = rng.integers(-2, 3, size=(3, 3))
            if rng.uniform() < 0.5: S = S * int(rng.integers(1, 3))
            if rng.uniform() < 0.3: S = S + int(rng.integers(1, 3)) * np.eye(3, dtype=int)
        det = int(round(np.linalg.det(S)))
        if det == 0 or N * abs(det) > maxsites: continue
        if mode == 'general' and np.count_nonzero(S - np.diag(np.diag(S))) == 0: continue
        return np.array(S, dtype=int)
    return np.eye(3, dtype=int)


def base_crystal(rng, names=NAMED3, p_random=0.35, maxatoms=4):
    """(crystal, description) - 3-D only: the Supercell class is three-dimensional"""
    from vmon import gen
    if rng.uniform() < p_random:
        spec = gen.rand_crystal_spec(rng, dim=3, nchem=int(rng.integers(1, 3)), maxatoms=maxatoms, mind=0.4)
        return gen.make_crystal(spec), 'rand:' + spec['kind']
    name = names[int(rng.integers(len(names)))]
    return gen.named(name)[0], name


def vacancy_calculator(rng, maxkin=420):
    """Random VacancyMediated calculator (NGFmax=2: the Green function is irrelevant here)."""
    from onsager import OnsagerCalc
    for attempt in range(50):
        crys, desc = base_crystal(rng)
        chem = int(rng.integers(crys.Nchem))
        cutoff = shell_cutoff(crys, chem, 1 if rng.uniform() < 0.75 else 2)
        jn = crys.jumpnetwork(chem, cutoff)
        if not jn: continue
        njumps = sum(len(j) for j in jn)
        if njumps > 40: continue
        nthermo = 2 if (rng.uniform() < 0.25 and njumps * len(crys.basis[chem]) <= 16) else 1
        try:
            calc = OnsagerCalc.VacancyMediated(crys, chem, crys.sitelist(chem), jn, nthermo, NGFmax=2)
        except Exception:
            # the constructor is not what C29/C30 monitor (e.g. networks without any omega1 jump make
            # crystalStars.zeroclean raise on an empty array): draw another crystal
            continue
        if len(calc.kinetic.states) > maxkin: continue
        return calc, {'crystal': desc, 'lattice': crys.lattice, 'basis': crys.basis, 'chem': chem, 'cutoff': cutoff,
                      'Nthermo': nthermo}
    raise RuntimeError('no vacancy calculator generated')


SPECIAL = (0., 0.5, 0.25, 0.75, 1 / 3, 2 / 3, 0.125, 0.375)


def interstitial_calculator(rng, maxsites_cell=14, default_chemistry=False, permute_chem=False):
    """Random Interstitial calculator on a crystal with an added interstitial sublattice (1-2 Wyckoff orbits)."""
    from onsager import OnsagerCalc
    from vmon import gen
    for attempt in range(100):
        crys, desc = base_crystal(rng, p_random=0.3, maxatoms=3)
        host = [u for lst in crys.basis for u in lst]
        norb = 1 if rng.uniform() < 0.5 else 2
        new, us = [], []
        for _ in range(norb):
            for t in range(30):
                u = np.array([SPECIAL[int(rng.integers(len(SPECIAL)))] if rng.uniform() < 0.8 else rng.uniform() for _ in range(3)])
                if rng.uniform() < 0.3: u[1] = u[0]
                orb = crys.Wyckoffpos(u)
                if len(new) + len(orb) > maxsites_cell: continue
                if gen.mindist(crys.lattice, host + new + orb) < 0.2: continue
                new += orb
                us.append(u)
                break
        if not new: continue
        # default_chemistry: let addbasis invent the species name (path of the addbasis-default-chemistry finding)
        icrys = crys.addbasis(new) if default_chemistry else crys.addbasis(new, chemistry=['X'])
        chem = icrys.Nchem - 1
        if len(icrys.G) != len(crys.G): continue  # adding a complete orbit keeps the group
        if permute_chem and not default_chemistry and rng.uniform() < 0.5:
            # the interstitial species need not be the last chemistry index: same crystal with the species list rotated
            from onsager import crystal as _crystal
            k = int(rng.integers(icrys.Nchem))
            order = list(range(icrys.Nchem))
            order.insert(k, order.pop())
            pcrys = _crystal.Crystal(icrys.lattice, [icrys.basis[c] for c in order], chemistry=[icrys.chemistry[c] for c in order],
                                     noreduce=True)
            if len(pcrys.G) == len(icrys.G) and pcrys.N == icrys.N:
                icrys, chem = pcrys, k
        cutoff = shell_cutoff(icrys, chem, 1 if rng.uniform() < 0.6 else 2)
        jn = icrys.jumpnetwork(chem, cutoff)
        if not jn or sum(len(j) for j in jn) > 200: continue
        calc = OnsagerCalc.Interstitial(icrys, chem, icrys.sitelist(chem), jn)
        return calc, {'crystal': desc, 'lattice': icrys.lattice, 'basis': icrys.basis, 'chem': chem, 'cutoff': cutoff,
                      'interstitial_u': us, 'default_chemistry': default_chemistry}
    raise RuntimeError('no interstitial calculator generated')


def kinetic_need(calc):
    """max |unit-cell coordinate| over the kinetic states' separations (for 'fit' matrices)"""
    crys, chem = calc.crys, calc.chem
    b = crys.basis[chem]
    c = np.array([b[PS.j] + PS.R - b[PS.i] for PS in calc.kinetic.states])
    return np.abs(c).max(axis=0)


def hidden_image_matrix(rng, calc, maxsites, tries=2500):
    """Searches a skewed supercell matrix for which every kinetic state lies inside the half cell (supercell
    direct coordinates in (-1/2, 1/2)) although some state has a strictly closer periodic image: such a cell is
    too small by the minimum-image criterion, but the documented half-cell test cannot see it.  None if not found."""
    crys, chem = calc.crys, calc.chem
    b = crys.basis[chem]
    dxs = np.array([crys.lattice @ (b[PS.j] + np.asarray(PS.R) - b[PS.i]) for PS in calc.kinetic.states])
    for t in range(tries):
        S = rng.integers(-3, 4, size=(3, 3))
        if rng.uniform() < 0.6: S = S + np.diag(rng.integers(1, 6, size=3))
        det = int(round(np.linalg.det(S)))
        if det == 0 or abs(det) * crys.N > maxsites: continue
        L = crys.lattice @ S
        coords = dxs @ np.linalg.inv(L).T
        if np.abs(coords).max() >= 0.5 - 1e-6: continue
        _, shorter, _ = image_analysis(L, dxs)
        if shorter.any():
            return np.array(S, dtype=int)
    return None
