"""R3 / R3': exact one-solute / one-vacancy Markov chain on an L^d periodic torus, and the torus Green function.

Reads from the calculator only the *inputs and classifications*: lattice, basis, the omega0 jump list, which pair
states form each thermodynamic star, and which (state, state') pairs form each omega1 / omega2 class.  All transport
numbers are assembled state by state with a Hermitian pseudo-inverse; no stars, no vector stars, no Dyson equation.

Normalisation (derived in DESIGN.md, R3):  pref = N / (sum_i e^-bFS_i * sum_j e^-bFV_j)
   Lss = pref Num_ss,  Lsv = pref Num_sv,  L1vv = pref [Num_vv - sum_i e^-bFS_i (M SV L0vv - c_i)]
"""
import itertools
import numpy as np


def sym_pinv(A, cut=1e-10):
    """Pseudo-inverse of a symmetric matrix with an explicit relative eigenvalue cut. numpy's default cut (1e-15) sits at
    the round-off level of the zero mode of a rate matrix: it was seen to invert the null eigenvalue (entries ~1e12)."""
    w, v = np.linalg.eigh(0.5 * (A + A.T))
    lim = cut * max(np.abs(w).max(), 1e-300)
    winv = np.array([0. if abs(x) < lim else 1. / x for x in w])
    return (v * winv) @ v.T


class Torus:
    def __init__(self, diff, L):
        self.d = diff
        self.L = L
        crys, chem = diff.crys, diff.chem
        self.crys, self.chem = crys, chem
        self.dim = crys.dim
        self.N = len(crys.basis[chem])
        self.cells = [np.array(t) for t in itertools.product(range(L), repeat=self.dim)]
        self.M = len(self.cells)
        self.cellidx = {tuple(c): n for n, c in enumerate(self.cells)}
        self.zero = self.cellidx[(0,) * self.dim]
        self.jumps = []
        for jt, jl in enumerate(diff.om0_jn):
            for (i, j), dx in jl:
                dR = np.round(np.dot(crys.invlatt, dx) - crys.basis[chem][j] + crys.basis[chem][i]).astype(int)
                self.jumps.append((jt, i, j, dR, np.array(dx)))
        self.inv = [int(x) for x in diff.invmap]

    @staticmethod
    def needed_L(diff):
        """smallest L for which kinetic states, and the states one jump beyond, stay distinct on the torus"""
        crys, chem = diff.crys, diff.chem
        maxR = max(int(np.abs(PS.R).max()) for PS in diff.kinetic.states) if diff.kinetic.Nstates else 1
        maxJ = 0
        for jl in diff.om0_jn:
            for (i, j), dx in jl:
                dR = np.round(np.dot(crys.invlatt, dx) - crys.basis[chem][j] + crys.basis[chem][i]).astype(int)
                maxJ = max(maxJ, int(np.abs(dR).max()))
        return 2 * maxR + maxJ + 1

    def site(self, R, j):
        return self.cellidx[tuple(np.asarray(R) % self.L)] * self.N + j

    def canon(self, R):
        L = self.L
        R = np.asarray(R) % L
        return np.where(R > L / 2, R - L, R)

    # ---------------- R3': torus Green function -----------------
    def bareGF(self, bFV, bFT0):
        n = self.M * self.N
        Om = np.zeros((n, n))
        E = np.array([bFV[self.inv[j]] for j in range(self.N)])
        for c, R in enumerate(self.cells):
            for (jt, i, j, dR, dx) in self.jumps:
                a = c * self.N + i
                b = self.site(R + dR, j)
                Om[a, b] += np.exp(-bFT0[jt] + 0.5 * (E[i] + E[j]))
                Om[a, a] -= np.exp(-bFT0[jt] + E[i])
        self.g0 = sym_pinv(Om)
        return self.g0

    def g(self, i, j, dx):
        crys, chem = self.crys, self.chem
        dR = np.round(np.dot(crys.invlatt, dx) - crys.basis[chem][j] + crys.basis[chem][i]).astype(int)
        return self.g0[self.site(np.zeros(self.dim, dtype=int), i), self.site(dR, j)]

    # ---------------- R3: exact chain -----------------
    def tables(self):
        d = self.d
        thermo, om1, om2 = {}, {}, {}
        for si, star in enumerate(d.thermo.stars):
            for s in star:
                PS = d.thermo.states[s]
                thermo[(PS.i, PS.j, tuple(int(x) for x in PS.R))] = si
        for k, jl in enumerate(d.om1_jn):
            for (a, b), dx in jl:
                Pa, Pb = d.kinetic.states[a], d.kinetic.states[b]
                key = (Pa.i, Pa.j, tuple(int(x) for x in Pa.R), Pb.j, tuple(int(x) for x in Pb.R))
                if key in om1 and om1[key] != k: raise ValueError('omega1 jump in two classes')
                om1[key] = k
        for k, jl in enumerate(d.om2_jn):
            for (a, b), dx in jl:
                Pa = d.kinetic.states[a]
                key = (Pa.i, Pa.j, tuple(int(x) for x in Pa.R))
                if key in om2 and om2[key] != k: raise ValueError('omega2 jump in two classes')
                om2[key] = k
        return thermo, om1, om2

    def chain(self, bFV, bFS, bFSV, bFT0, bFT1, bFT2):
        N, M, L, dim, inv = self.N, self.M, self.L, self.dim, self.inv
        thermo, om1, om2 = self.tables()
        states, sidx = [], {}
        for i in range(N):
            for c in range(M):
                for j in range(N):
                    if c == self.zero and j == i: continue
                    sidx[(i, c, j)] = len(states)
                    states.append((i, c, j))
        ns = len(states)
        E = np.zeros(ns)
        for n, (i, c, j) in enumerate(states):
            Rc = self.canon(self.cells[c])
            E[n] = bFS[inv[i]] + bFV[inv[j]]
            k = thermo.get((i, j, tuple(int(x) for x in Rc)))
            if k is not None: E[n] += bFSV[k]
        Q = np.zeros((ns, ns))
        bS = np.zeros((ns, dim))
        bV = np.zeros((ns, dim))
        D0 = {k: np.zeros((dim, dim)) for k in ('ss', 'sv', 'vv')}
        used1, used2 = set(), set()
        byj = {}
        for J in self.jumps:
            byj.setdefault(J[1], []).append(J)
        for n, (i, c, j) in enumerate(states):
            R = self.cells[c]
            Rc = tuple(int(x) for x in self.canon(R))
            for (jt, a, b, dR, dx) in byj.get(j, []):
                Rn = R + dR
                cn = self.cellidx[tuple(Rn % L)]
                if cn == self.zero and b == i:
                    k = om2.get((i, j, Rc))
                    if k is None: raise ValueError('exchange jump not classified in omega2')
                    used2.add(k)
                    ETS = bFT2[k]
                    m = sidx[(j, self.cellidx[tuple((-R) % L)], i)]
                    dxs, dxv = -dx, dx
                else:
                    k = om1.get((i, j, Rc, b, tuple(int(x) for x in self.canon(Rn))))
                    if k is not None:
                        ETS = bFT1[k]
                        used1.add(k)
                    else:
                        ETS = bFT0[jt] + bFS[inv[i]]
                    m = sidx[(i, cn, b)]
                    dxs, dxv = 0 * dx, dx
                rate = np.exp(-ETS + E[n])
                Q[n, m] += np.exp(-ETS + 0.5 * (E[n] + E[m]))
                Q[n, n] -= rate
                w = np.exp(-ETS)
                sq = np.exp(-0.5 * E[n])
                bS[n] += sq * rate * dxs
                bV[n] += sq * rate * dxv
                D0['ss'] += 0.5 * w * np.outer(dxs, dxs)
                D0['sv'] += 0.5 * w * np.outer(dxs, dxv)
                D0['vv'] += 0.5 * w * np.outer(dxv, dxv)
        asym = np.abs(Q - Q.T).max() / max(np.abs(Q).max(), 1e-300)
        if asym > 1e-9: raise ValueError('chain rate matrix not symmetric (%g): classification inconsistent' % asym)
        Qp = sym_pinv(Q)
        num = {'ss': D0['ss'] + bS.T @ Qp @ bS, 'sv': D0['sv'] + bS.T @ Qp @ bV, 'vv': D0['vv'] + bV.T @ Qp @ bV}
        self.used1, self.used2, self.nstates = used1, used2, ns
        self.Q, self.bS, self.bV, self.states, self.sidx, self.E, self.Qp = Q, bS, bV, states, sidx, E, Qp
        return num

    def baresite(self, bFV, bFT0):
        """per-site share c_i of the bare (unnormalised) vacancy numerator, and eta~ of the unit-cell walk"""
        N, dim, inv = self.N, self.dim, self.inv
        E = np.array([bFV[inv[j]] for j in range(N)])
        Q = np.zeros((N, N))
        b = np.zeros((N, dim))
        c = np.zeros((N, dim, dim))
        for (jt, i, j, dR, dx) in self.jumps:
            rate = np.exp(-bFT0[jt] + E[i])
            Q[i, j] += np.exp(-bFT0[jt] + 0.5 * (E[i] + E[j]))
            Q[i, i] -= rate
            b[i] += np.exp(-0.5 * E[i]) * rate * dx
            c[i] += 0.5 * np.exp(-bFT0[jt]) * np.outer(dx, dx)
        eta = sym_pinv(Q) @ b
        for i in range(N):
            c[i] += 0.5 * (np.outer(b[i], eta[i]) + np.outer(eta[i], b[i]))
        return c, eta

    def predict(self, args):
        """(L0vv, Lss, Lsv, L1vv) of the exact chain in the calculator's normalisation"""
        bFV, bFS, bFSV, bFT0, bFT1, bFT2 = args
        num = self.chain(*args)
        N, M, inv = self.N, self.M, self.inv
        SS = sum(np.exp(-bFS[inv[i]]) for i in range(N))
        SV = sum(np.exp(-bFV[inv[i]]) for i in range(N))
        pref = N / (SS * SV)
        c, eta = self.baresite(bFV, bFT0)
        L0vv = c.sum(axis=0) / SV
        ref = sum(np.exp(-bFS[inv[i]]) * (M * SV * L0vv - c[i]) for i in range(N))
        # the calculator indexes its solute-vacancy tensor [vacancy component, solute component]; it is not symmetric for
        # point groups with an invariant axial vector (triclinic, 2/m, 4/m ...): transpose the chain's [solute, vacancy]
        return L0vv, pref * num['ss'], pref * num['sv'].T, pref * (num['vv'] - ref)


class GFstub:
    """Stands in for GFCrystalcalc inside a VacancyMediated calculator: the Green function is the torus one (R3');
    SetRates / Diffusivity / biascorrection still go to the real calculator (optionally an exact eta is supplied)."""

    def __init__(self, real, torus, exact_eta=False, shift=0.0):
        self.real, self.torus, self.exact_eta, self.shift = real, torus, exact_eta, shift
        self.calls = 0

    def SetRates(self, pre, betaene, preT, betaeneT):
        if not (np.allclose(pre, 1) and np.allclose(preT, 1)):
            raise ValueError('stub expects unit prefactors')
        self.real.SetRates(pre, betaene, preT, betaeneT)
        self.torus.bareGF(betaene, betaeneT)
        self.bFV, self.bFT0 = np.array(betaene), np.array(betaeneT)
        c, eta = self.torus.baresite(self.bFV, self.bFT0)
        Z = sum(np.exp(-self.bFV[self.torus.inv[i]]) for i in range(self.torus.N))
        self.eta_exact = -eta / np.sqrt(Z)   # the calculator's convention: -Q~^+ b~ with normalised site probabilities

    def Diffusivity(self):
        return self.real.Diffusivity()

    def biascorrection(self):
        return self.eta_exact.copy() if self.exact_eta else self.real.biascorrection()

    def __call__(self, i, j, dx):
        self.calls += 1
        return self.torus.g(i, j, dx)


class GaugeGF:
    """The real Green function plus a constant C sqrt(p_i p_j): still solves the lattice equation, so no transport
    coefficient may depend on C."""

    def __init__(self, real, C):
        self.real, self.C = real, C

    def SetRates(self, pre, betaene, preT, betaeneT):
        self.real.SetRates(pre, betaene, preT, betaeneT)
        inv = self.real.invmap
        lnp = np.array([np.log(pre[w]) - betaene[w] for w in inv])
        p = np.exp(lnp - lnp.max())
        self.sqrtp = np.sqrt(p / p.sum())

    def Diffusivity(self): return self.real.Diffusivity()

    def biascorrection(self): return self.real.biascorrection()

    def __call__(self, i, j, dx):
        return self.real(i, j, dx) + self.C * self.sqrtp[i] * self.sqrtp[j]
