import sys, os, argparse
from vmon import runner


def main():
    ap = argparse.ArgumentParser()
    ap.add_argument('pid')
    ap.add_argument('--tier', default=os.environ.get('VERIF_TIER') or 'quick', choices=['quick', 'thorough'])
    ap.add_argument('--seed', type=int, default=int(os.environ.get('VERIF_SEED') or 0))
    ap.add_argument('--replay')
    ap.add_argument('--only', help='comma separated case indices (debugging)')
    a = ap.parse_args()
    only = [int(x) for x in a.only.split(',')] if a.only else None
    sys.exit(runner.main(a.pid, a.tier, a.seed, replay=a.replay, only=only))


if __name__ == '__main__':
    main()
