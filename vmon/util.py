"""Monitor bookkeeping shared by all property drivers."""
import contextlib, traceback, json
import numpy as np


def jsonable(x):
    if isinstance(x, np.ndarray):
        return x.tolist()
    if isinstance(x, (np.integer,)):
        return int(x)
    if isinstance(x, (np.floating,)):
        return float(x)
    if isinstance(x, complex):
        return [x.real, x.imag]
    if isinstance(x, dict):
        return {str(k): jsonable(v) for k, v in x.items()}
    if isinstance(x, (list, tuple, set, frozenset)):
        return [jsonable(v) for v in x]
    return x


class Mon:
    """Collects what the monitors of one case observed.

    check()/close() are the oracles: each evaluation is counted under 'eval:<clause>' so that
    the evidence shows how often every deciding monitor actually ran."""

    def __init__(self, tags=()):
        self.viol = []
        self.obs = {}
        self.tags = list(tags)
        self.sigs = []
        self.evals = 0

    def count(self, key, n=1):
        self.obs[key] = self.obs.get(key, 0) + (int(n) if isinstance(n, (bool, np.bool_, np.integer)) else n)

    def note_max(self, key, v):
        key = 'max_' + key
        v = float(v)
        if key not in self.obs or v > self.obs[key]:
            self.obs[key] = v

    def note_min(self, key, v):
        key = 'min_' + key
        v = float(v)
        if key not in self.obs or v < self.obs[key]:
            self.obs[key] = v

    def seen(self, key, value):
        lst = self.obs.setdefault(key, [])
        if value not in lst and len(lst) < 200:
            lst.append(value)

    def tag(self, *tags):
        for t in tags:
            if t not in self.tags:
                self.tags.append(t)

    def fail(self, clause, detail='', tags=()):
        if len(self.viol) < 25:
            self.viol.append({'clause': clause, 'detail': str(detail)[:1500], 'tags': list(tags) + list(self.tags)})
        else:
            self.count('suppressed_violations')

    def check(self, cond, clause, detail='', tags=()):
        self.evals += 1
        self.count('eval:' + clause)
        if not cond:
            self.fail(clause, detail() if callable(detail) else detail, tags)
        return bool(cond)

    def close(self, a, b, tol, clause, detail='', tags=(), scale=None):
        """|a-b| <= tol*scale (scale defaults to 1)."""
        a = np.asarray(a)
        b = np.asarray(b)
        self.evals += 1
        self.count('eval:' + clause)
        if a.shape != b.shape:
            self.fail(clause, 'shape %s vs %s %s' % (a.shape, b.shape, detail), tags)
            return False
        sc = 1. if scale is None else float(scale)
        with np.errstate(all='ignore'):
            err = float(np.max(np.abs(a - b))) if a.size else 0.
        if not np.isfinite(err):
            ok = False
        else:
            ok = err <= tol * sc
            self.note_max('relerr:' + clause, err / sc if sc > 0 else err)
        if not ok:
            self.fail(clause, 'err=%.3e tol=%.3e scale=%.3e %s' % (err, tol, sc, detail() if callable(detail) else detail), tags)
        return ok

    @contextlib.contextmanager
    def guard(self, clause, tags=()):
        """An exception escaping monitored repository code is an observed event."""
        try:
            yield
        except Exception as e:
            self.fail(clause + ':raises:' + type(e).__name__, traceback.format_exc()[-1200:], tags)

    def sig(self, s):
        self.sigs.append(s)

    def result(self, sample=None, nontrivial=True, inconclusive=None):
        r = {'violations': self.viol, 'obs': self.obs, 'tags': self.tags, 'evals': max(self.evals, 1),
             'nontrivial': nontrivial, 'sig': jsonable(self.sigs) if self.sigs else None,
             'sample': jsonable(sample)}
        if inconclusive:
            r['inconclusive'] = inconclusive
        return r
