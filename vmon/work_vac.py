"""Shared vacancy-mediated workload: calculator pool (cached per worker), thermodynamic inputs, regime tags."""
import numpy as np
from vmon import gen

_calcs = {}

# crystals of the pool and the torus cost class (cheap ones are used for the expensive monitors in the quick tier)
POOL_QUICK = ('fcc', 'bcc', 'sc', 'hcp', 'square', 'honey', 'omega', 'dtria', 'diamond', 'tria', 'b2', 'rumpled', 'lieb')
POOL_ALL = POOL_QUICK + ('kagome', 'l12', 'tet', 'rect')


def get_calc(name, Nthermo, NGFmax=4, fresh=False, slot=None):
    """slot: a second, independent calculator object for the same crystal (used for call histories that must not be interrupted)"""
    from onsager import OnsagerCalc
    key = (name, Nthermo, NGFmax) if slot is None else (name, Nthermo, NGFmax, slot)
    if fresh or key not in _calcs:
        crys, chem, cutoff = gen.named(name)
        jn = crys.jumpnetwork(chem, cutoff)
        sl = crys.sitelist(chem)
        d = OnsagerCalc.VacancyMediated(crys, chem, sl, jn, Nthermo, NGFmax)
        if fresh: return d
        _calcs[key] = d
    return _calcs[key]


MASKS = ('', 'V', 'S', 'B', '0', '1', '2', 'V0', 'SB', 'B12', 'VSB012', 'VSB012', 'S12', 'V012')


def rand_args(rng, diff, mask='VSB012', sigma=0.7, tracer=False):
    """(bFV, bFS, bFSV, bFT0, bFT1, bFT2). Groups not in `mask` take the neutral (LIMB / host-like) value."""
    nW = len(diff.sitelist)
    bFV = rng.normal(size=nW) * sigma if 'V' in mask else np.zeros(nW)
    bFV = bFV - bFV.min()
    bFS = rng.normal(size=nW) * sigma if 'S' in mask else np.zeros(nW)
    bFS = bFS - bFS.min()
    bFSV = rng.normal(size=diff.thermo.Nstars) * sigma if 'B' in mask else np.zeros(diff.thermo.Nstars)
    bFT0 = (rng.normal(size=len(diff.om0_jn)) * sigma if '0' in mask else np.zeros(len(diff.om0_jn))) + 2 + bFV.max()
    limb = diff.makeLIMBpreene(preS=np.ones(nW), eneS=bFS, preSV=np.ones(len(bFSV)), eneSV=bFSV,
                               preT0=np.ones(len(bFT0)), eneT0=bFT0)
    bFT1 = np.array(limb['eneT1'], dtype=float)
    bFT2 = np.array(limb['eneT2'], dtype=float)
    if '1' in mask: bFT1 = bFT1 + rng.normal(size=len(bFT1)) * sigma
    if '2' in mask: bFT2 = bFT2 + rng.normal(size=len(bFT2)) * sigma
    return [bFV, bFS, bFSV, bFT0, bFT1, bFT2]


def regime_tags(diff, args):
    bFV, bFS, bFSV, bFT0, bFT1, bFT2 = args
    tags = []
    if len(diff.OSindices) > 0: tags.append('origin_states')
    if len(diff.sitelist) > 1: tags.append('multi_wyckoff')
    if np.ptp(bFS) > 1e-12: tags.append('bFS_nonuniform')
    if np.ptp(bFV) > 1e-12: tags.append('bFV_nonuniform')
    limb = diff.makeLIMBpreene(preS=np.ones(len(bFS)), eneS=np.zeros(len(bFS)), preSV=np.ones(len(bFSV)), eneSV=np.zeros(len(bFSV)),
                               preT0=np.ones(len(bFT0)), eneT0=np.zeros(len(bFT0)))
    uniform = (np.ptp(bFV) < 1e-12 and np.ptp(bFS) < 1e-12 and np.abs(bFSV).max(initial=0) < 1e-12 and np.ptp(bFT0) < 1e-12
               and np.ptp(bFT1) < 1e-12 and np.ptp(bFT2) < 1e-12 and abs(bFT1[0] - bFT0[0]) < 1e-12 and abs(bFT2[0] - bFT0[0]) < 1e-12)
    if not uniform: tags.append('nonuniform_rates')
    if diff.crys.dim == 2: tags.append('dim2')
    if diff.Nthermo >= 2: tags.append('Nthermo2')
    if diff.N > 1: tags.append('multisite')
    # fastest exchange rate relative to the fastest bare vacancy jump (transition states relative to the lowest states)
    if len(bFT2) and len(bFT0):
        r2 = np.exp(-(np.min(bFT2) - np.min(bFS) - np.min(bFV) - min(0., np.min(bFSV, initial=0.))))
        r0 = np.exp(-(np.min(bFT0) - np.min(bFV)))
        if r2 >= 1e3 * r0: tags.append('om2/om0>=1e3')
    # spread of all jump rates (barrier heights above the lowest vacancy / solute-vacancy state)
    h = np.concatenate([np.asarray(bFT0) - np.min(bFV), np.asarray(bFT1) - np.min(bFS) - np.min(bFV), np.asarray(bFT2) - np.min(bFS) - np.min(bFV)])
    if h.size and np.ptp(h) >= np.log(1e3): tags.append('rate_spread>=1e3')
    return tags


def resolved_by_denser_mesh(name, Nthermo, measure, m4, levels=(8, 12)):
    """A violation measured as m4 (>0) with the default k-point density is attributed to Brillouin-zone integration
    accuracy iff the same measure shrinks on denser meshes: m(8) <= 1.5 m4 (not growing, up to mesh noise) and m(12) <= m4/2. `measure(diff)` returns the
    non-negative violation measure for a calculator. Returns (resolved, [m8, m12])."""
    ms = []
    for N in levels:
        d = get_calc(name, Nthermo, NGFmax=N)
        try:
            ms.append(float(measure(d)))
        except Exception:
            ms.append(float('inf'))
        d.clearcache()
    return (ms[0] <= 1.5 * m4 and ms[-1] <= 0.5 * m4), ms


def psd_contract_with_mesh_rule(mon, diff, name, nth, args, x, q, nm, scale, tol, prefix, tags, desc, symmetric=True):
    """tensor contract (symmetry, crystal invariance, positive semi-definiteness) for the q-th output of Lij; a failure of the
    PSD clause alone at the default k-point density is decided by the mesh-convergence rule."""
    from vmon import contracts
    from vmon.util import Mon
    m2 = Mon(tags)
    contracts.tensor2_contract(m2, diff.crys, x, nm, psd=True, scale=scale, tol=tol, prefix=prefix, symmetric=symmetric)
    if m2.viol and all(v['clause'].startswith(prefix + ':psd') for v in m2.viol):
        def meas(dd):
            y = np.array(dd.Lij(*args)[q])
            return max(0., -np.linalg.eigvalsh(0.5 * (y + y.T)).min()) / max(scale, np.abs(y).max())
        lam = np.linalg.eigvalsh(0.5 * (x + x.T)).min()
        ok, ms = resolved_by_denser_mesh(name, nth, meas, -lam / max(scale, np.abs(x).max()))
        mon.count('checked_by_mesh_convergence')
        if ok: m2.viol = []
        else:
            for v in m2.viol: v['detail'] += ' denser meshes: %s' % ms
    for v in m2.viol:
        v['detail'] += ' ' + str(desc)
        mon.viol.append(v)
    for key, val in m2.obs.items():
        if key.startswith('eval:') or key == 'tensors_checked': mon.count(key, val)
        elif key.startswith('min_'): mon.note_min(key[4:], val)
        elif key.startswith('max_'): mon.note_max(key[4:], val)
    mon.evals += m2.evals
