"""Seeded generators of workload material (crystals, networks, thermodynamic data).

Everything is driven by numpy Generators derived from (VERIF_SEED, case index) so a case
descriptor {seed, ...} replays exactly (together with the PYTHONHASHSEED of the worker).
"""
import itertools
import numpy as np
from onsager import crystal

SQ3 = np.sqrt(3.)

LATT3 = ('cubicP', 'cubicF', 'cubicI', 'tetP', 'tetI', 'ortho', 'orthoC', 'hex', 'rhomb', 'mono', 'tric')
LATT2 = ('square', 'rect', 'crect', 'hex2', 'oblique')


def rng_for(*keys):
    return np.random.default_rng([abs(int(k)) for k in keys])


def lattice(kind, rng):
    """Column-vector lattice of the requested Bravais type with random free parameters."""
    a = 1.
    b = rng.uniform(0.75, 1.35)
    c = rng.uniform(0.7, 1.5)
    if abs(b - 1) < 0.04: b += 0.1
    if abs(c - 1) < 0.04: c += 0.12
    if abs(c - b) < 0.04: c += 0.09
    if kind == 'cubicP': return np.eye(3) * a
    if kind == 'cubicF': return np.array([[0., .5, .5], [.5, 0., .5], [.5, .5, 0.]]) * a
    if kind == 'cubicI': return np.array([[-.5, .5, .5], [.5, -.5, .5], [.5, .5, -.5]]) * a
    if kind == 'tetP': return np.diag([a, a, c])
    if kind == 'tetI': return np.array([[-.5 * a, .5 * a, .5 * a], [.5 * a, -.5 * a, .5 * a], [.5 * c, .5 * c, -.5 * c]])
    if kind == 'ortho': return np.diag([a, b, c])
    if kind == 'orthoC': return np.array([[.5 * a, .5 * a, 0.], [-.5 * b, .5 * b, 0.], [0., 0., c]])
    if kind == 'hex': return np.array([[.5, .5, 0.], [-.5 * SQ3, .5 * SQ3, 0.], [0., 0., c]])
    if kind == 'rhomb':
        al = rng.uniform(0.9, 1.9)  # angle in radians away from 60/90/109.47 degrees
        for bad in (np.pi / 3, np.pi / 2, np.arccos(-1 / 3.)):
            if abs(al - bad) < 0.06: al += 0.13
        ca = np.cos(al)
        # three vectors with mutual angle al around z
        z = np.sqrt((1 + 2 * ca) / 3.)
        r = np.sqrt(1 - z * z)
        return np.array([[r * np.cos(2 * np.pi * k / 3), r * np.sin(2 * np.pi * k / 3), z] for k in range(3)]).T
    if kind == 'mono':
        sh = rng.uniform(0.12, 0.4) * rng.choice([-1, 1])
        return np.array([[a, sh, 0.], [0., b, 0.], [0., 0., c]])
    if kind == 'tric':
        return np.eye(3) + 0.22 * rng.normal(size=(3, 3))
    b2 = rng.uniform(0.7, 1.4)
    if abs(b2 - 1) < 0.05: b2 += 0.12
    if kind == 'square': return np.eye(2)
    if kind == 'rect': return np.diag([1., b2])
    if kind == 'crect': return np.array([[.5, .5], [-.5 * b2, .5 * b2]])
    if kind == 'hex2': return np.array([[.5, .5], [-.5 * SQ3, .5 * SQ3]])
    if kind == 'oblique': return np.eye(2) + 0.22 * rng.normal(size=(2, 2))
    raise ValueError(kind)


def mindist(latt, positions):
    """Smallest interatomic distance (Cartesian) among unit-cell positions incl. images."""
    dim = latt.shape[0]
    best = np.inf
    shifts = [np.array(s) for s in itertools.product((-1, 0, 1), repeat=dim)]
    for a in range(len(positions)):
        for b in range(a, len(positions)):
            du = positions[b] - positions[a]
            du = du - np.floor(du + 0.5)
            for s in shifts:
                if a == b and not np.any(s): continue
                d = np.linalg.norm(latt @ (du + s))
                best = min(best, d)
    return best


def rand_crystal_spec(rng, dim=None, kind=None, norbits=None, nchem=1, maxatoms=8, mind=0.25, special=0.7):
    """Returns dict(latt, basis=[[u,...],...], kind) of a random decorated crystal.
    Decoration: orbits (Wyckoffpos of the bare lattice) of special and general points."""
    if dim is None: dim = 3 if rng.uniform() < 0.6 else 2
    if kind is None: kind = (LATT3 if dim == 3 else LATT2)[rng.integers(len(LATT3 if dim == 3 else LATT2))]
    for attempt in range(200):
        latt = lattice(kind, rng)
        if abs(np.linalg.det(latt)) < 0.2: continue
        base = crystal.Crystal(latt, [np.zeros(dim)])
        latt = base.lattice
        nb = norbits if norbits is not None else int(rng.integers(1, 4))
        orbits = []
        allpos = []
        choices = [0., 0.5, 0.25, 0.75, 1 / 3, 2 / 3]
        for _ in range(nb):
            for t in range(30):
                u = np.array([choices[rng.integers(len(choices))] if rng.uniform() < special else rng.uniform()
                              for _ in range(dim)])
                if rng.uniform() < 0.3:  # points on diagonal mirror lines / planes
                    u[1] = u[0]
                orb = base.Wyckoffpos(u)
                if len(allpos) + len(orb) > maxatoms: continue
                if mindist(latt, allpos + orb) < mind: continue
                orbits.append(orb)
                allpos += orb
                break
        if not orbits: continue
        # distribute orbits over chemistries
        nch = min(nchem, len(orbits))
        basis = [[] for _ in range(nch)]
        for k, orb in enumerate(orbits):
            basis[k % nch if k < nch else int(rng.integers(nch))] += orb
        return {'latt': latt, 'basis': basis, 'kind': kind, 'dim': dim}
    raise RuntimeError('no crystal generated')


def rand_noncentro_spec(rng, mind=0.25):
    """Random 3-D crystal WITHOUT inversion (one species, 3-5 atoms): P1 (general positions in a triclinic cell), Pm, Pmm2, P4, P3."""
    kinds = ('P1', 'Pm', 'Pmm2', 'P4', 'P3')
    for attempt in range(300):
        kind = kinds[int(rng.integers(len(kinds)))]
        if kind == 'P1':
            latt = lattice('tric', rng)
            pts = [rng.uniform(size=3) for _ in range(int(rng.integers(3, 5)))]
        elif kind == 'Pm':
            latt = lattice('mono', rng)   # c perpendicular to the (sheared) a-b plane: mirror z -> -z
            pts = [np.array([rng.uniform(), rng.uniform(), 0. if rng.uniform() < 0.6 else 0.5]) for _ in range(3)]
        elif kind == 'Pmm2':
            latt = lattice('ortho', rng)
            sites = [(0., 0.), (.5, 0.), (0., .5), (.5, .5)]
            pick = rng.permutation(4)[:3]
            pts = [np.array([sites[k][0], sites[k][1], rng.uniform()]) for k in pick]
        elif kind == 'P4':
            latt = lattice('tetP', rng)
            x, y, z = rng.uniform(0.08, 0.42), rng.uniform(0.08, 0.42), rng.uniform()
            pts = [np.array(v) % 1. for v in ((x, y, z), (-y, x, z), (-x, -y, z), (y, -x, z))] + [np.array([0., 0., rng.uniform()])]
        else:
            latt = lattice('hex', rng)
            x, y, z = rng.uniform(0.1, 0.9), rng.uniform(0.1, 0.9), rng.uniform()
            pts = [np.array(v) % 1. for v in ((x, y, z), (-y, x - y, z), (-x + y, -x, z))] + [np.array([0., 0., rng.uniform()])]
        if abs(np.linalg.det(latt)) < 0.2: continue
        if mindist(latt, pts) < mind: continue
        c = crystal.Crystal(latt, [pts])
        if len(c.basis[0]) != len(pts): continue
        if any(np.allclose(g.cartrot, -np.eye(3)) for g in c.G): continue
        return {'latt': latt, 'basis': [pts], 'kind': kind, 'dim': 3}
    raise RuntimeError('no non-centrosymmetric crystal generated')


def make_crystal(spec, **kw):
    return crystal.Crystal(np.array(spec['latt']), [[np.array(u) for u in lst] for lst in spec['basis']], **kw)


def rand_crystal(rng, **kw):
    spec = rand_crystal_spec(rng, **kw)
    return make_crystal(spec), spec


NAMED = ('sc', 'fcc', 'bcc', 'diamond', 'hcp', 'square', 'tria', 'honey', 'lieb', 'kagome', 'omega', 'rumpled',
         'dtria', 'b2', 'l12', 'tet', 'rect', 'tric', 'mono', 'p4m', 'p2', 'mono2', 'dhcp', 'omega_perm', 'rumpled_spec', 'dtria_spec', 'p2two')


def named(name):
    """(crystal, chem, cutoff) for the vacancy / interstitial workloads."""
    C = crystal.Crystal
    hexl = np.array([[1 / 2, 1 / 2, 0.], [-np.sqrt(3 / 4), np.sqrt(3 / 4), 0.], [0., 0., np.sqrt(3 / 8)]])
    hex2 = np.array([[0.5, 0.5], [-np.sqrt(0.75), np.sqrt(0.75)]])
    if name == 'sc': return C(np.eye(3), [np.zeros(3)]), 0, 1.01
    if name == 'fcc': return C.FCC(1.), 0, 0.8
    if name == 'bcc': return C.BCC(1.), 0, 0.87
    if name == 'diamond': return C(np.array([[0., .5, .5], [.5, 0., .5], [.5, .5, 0.]]),
                                   [np.zeros(3), np.array([.25, .25, .25])]), 0, 0.45
    if name == 'hcp': return C.HCP(1.), 0, 1.01
    if name == 'square': return C(np.eye(2), [np.zeros(2)]), 0, 1.01
    if name == 'rect': return C(np.diag([1., 1.2]), [np.zeros(2)]), 0, 1.25
    if name == 'tria': return C(hex2, [np.zeros(2)]), 0, 1.01
    if name == 'honey': return C(hex2, [np.array([1 / 3, 2 / 3]), np.array([2 / 3, 1 / 3])]), 0, 0.6
    if name == 'lieb': return C(np.eye(2), [np.zeros(2), np.array([0.5, 0.]), np.array([0., 0.5])]), 0, 0.6
    if name == 'kagome': return C(hex2, [np.array([.5, 0.]), np.array([0., .5]), np.array([.5, .5])]), 0, 0.6
    if name == 'omega': return C(hexl, [np.zeros(3), np.array([1 / 3, 2 / 3, 0.5]), np.array([2 / 3, 1 / 3, 0.5])]), 0, 0.7
    if name == 'rumpled': return C(hexl, [np.zeros(3), np.array([1 / 3, 2 / 3, 0.55]), np.array([2 / 3, 1 / 3, 0.45])]), 0, 0.7
    if name == 'dtria': return C(np.array([[1., 0.], [0., np.sqrt(3.)]]), [np.zeros(2), np.array([0.5, 0.4])]), 0, 1.2
    if name == 'b2': return C(np.eye(3), [[np.zeros(3)], [np.array([0.5, 0.5, 0.5])]]), 0, 1.01
    if name == 'l12': return C(np.eye(3), [[np.zeros(3)], [np.array([0., .5, .5]), np.array([.5, 0., .5]),
                                                           np.array([.5, .5, 0.])]]), 1, 0.8
    if name == 'tet': return C(np.diag([1., 1., 1.3]), [np.zeros(3)]), 0, 1.35
    if name == 'dhcp':  # double hcp, basis listed in stacking order A B A C: the two Wyckoff sets have interleaved site indices
        return C(np.array([[.5, .5, 0.], [-np.sqrt(.75), np.sqrt(.75), 0.], [0., 0., 2 * np.sqrt(8. / 3.)]]),
                 [np.array([0., 0., 0.]), np.array([1 / 3, 2 / 3, .25]), np.array([0., 0., .5]), np.array([2 / 3, 1 / 3, .75])]), 0, 1.01
    # compounds whose mobile sublattice has polar sites (origin states) and whose other species only watch (atoms per cell != sites)
    if name == 'rumpled_spec':
        return C(hexl, [[np.zeros(3), np.array([1 / 3, 2 / 3, 0.55]), np.array([2 / 3, 1 / 3, 0.45])],
                        [np.array([0., 0., 0.5])], [np.array([1 / 3, 2 / 3, 0.05]), np.array([2 / 3, 1 / 3, 0.95])]]), 0, 0.7
    if name == 'dtria_spec':
        return C(np.array([[1., 0.], [0., np.sqrt(3.)]]), [[np.zeros(2), np.array([0.5, 0.4])], [np.array([0., 0.7])],
                                                          [np.array([0.5, 0.85]), np.array([0.5, 0.1])]]), 0, 1.2
    if name == 'omega_perm':  # omega with the three-fold site listed in the middle: sitelist [[1], [0, 2]]
        return C(hexl, [np.array([1 / 3, 2 / 3, 0.5]), np.zeros(3), np.array([2 / 3, 1 / 3, 0.5])]), 0, 0.7
    # low-symmetry crystals (point groups with an invariant axial vector: tensors need not be isotropic or even diagonal)
    if name == 'tric': return C(np.array([[1., 0.21, 0.17], [0., 0.93, 0.26], [0., 0., 1.08]]), [np.zeros(3)]), 0, 1.16
    if name == 'mono': return C(np.array([[1., 0.28, 0.], [0., 0.95, 0.], [0., 0., 1.12]]), [np.zeros(3)]), 0, 1.13
    if name == 'p4m':   # tetragonal 4/m: the decoration (species 1) removes the vertical mirrors
        x, y = 0.21, 0.09
        return C(np.diag([1., 1., 1.15]), [[np.zeros(3)], [np.array(v) for v in ((x, y, 0.5), (-y, x, 0.5), (-x, -y, 0.5), (y, -x, 0.5))]]), 0, 1.2
    if name == 'p2':    # 2-D oblique, two atoms on a general position: 2-fold axis only, sites have a 2-D vector basis
        return C(np.array([[1., 0.23], [0., 0.91]]), [np.array([0.18, 0.11]), np.array([-0.18, -0.11])]), 0, 1.05
    if name == 'p2two':  # as p2 with two orbits (four like atoms at +-u1, +-u2): several Wyckoff sets, each with a 2-D site vector basis
        return C(np.array([[1., 0.23], [0., 0.91]]), [np.array([0.18, 0.11]), np.array([-0.18, -0.11]),
                                                     np.array([0.41, -0.27]), np.array([-0.41, 0.27])]), 0, 0.75
    if name == 'mono2':  # monoclinic 2/m, two atoms on the mirror plane (site vector basis in the plane)
        return C(np.array([[1., 0.28, 0.], [0., 0.95, 0.], [0., 0., 1.12]]), [np.array([0.16, 0.12, 0.]), np.array([-0.16, -0.12, 0.])]), 0, 1.13
    raise ValueError(name)


def invmap(sitelist, N):
    inv = [None] * N
    for w, s in enumerate(sitelist):
        for i in s: inv[i] = w
    return inv


def safe_cutoff(crys, chem, rng, lo=0.55, hi=1.3, margin=1e-4, maxshell=None):
    """Random cutoff not within `margin` of any interatomic distance of species chem."""
    dists = set()
    n = 3
    for u0 in crys.basis[chem]:
        for u1 in crys.basis[chem]:
            for s in itertools.product(range(-n, n + 1), repeat=crys.dim):
                d = np.linalg.norm(crys.lattice @ (u1 - u0 + np.array(s)))
                if d > 1e-8: dists.add(round(d, 7))
    dists = sorted(dists)
    for t in range(100):
        c = rng.uniform(lo, hi)
        if maxshell is not None and len(dists) >= maxshell:
            c = min(c, 0.5 * (dists[maxshell - 1] + dists[maxshell]) if len(dists) > maxshell else c)
        if all(abs(c - d) > margin for d in dists):
            return float(c)
    return float(c)


def rand_thermo_interstitial(rng, nsites, njumps, sigma=1.0):
    pre = rng.uniform(0.5, 2, size=nsites)
    bE = rng.normal(size=nsites) * sigma
    preT = rng.uniform(0.5, 2, size=njumps)
    bET = rng.normal(size=njumps) * sigma + max(bE.max(), 0) + 1
    return pre, bE, preT, bET
