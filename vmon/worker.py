"""Worker: runs cases of one property in a fresh interpreter (fixed PYTHONHASHSEED), one JSON
line per case on stdin, one marked JSON line per event on stdout."""
import sys, os, json, traceback, importlib, warnings, io

MARK = '@@VMON '


def emit(obj):
    sys.__stdout__.write(MARK + json.dumps(obj, default=str) + '\n')
    sys.__stdout__.flush()


def main():
    pid = sys.argv[1]
    warnings.filterwarnings('ignore', category=SyntaxWarning)
    lines = sys.stdin.read().splitlines()
    mod = importlib.import_module('vmon.props.' + pid)
    for line in lines:
        msg = json.loads(line)
        emit({'t': 'start', 'index': msg['index']})
        sink = io.StringIO()
        old = sys.stdout
        sys.stdout = sink  # the repository prints diagnostics; keep the protocol channel clean
        try:
            res = mod.run_case(msg['case'])
        except BaseException as e:
            if isinstance(e, KeyboardInterrupt):
                raise
            res = {'violations': [{'clause': 'exception:' + type(e).__name__,
                                   'detail': traceback.format_exc()[-3000:], 'tags': []}]}
        finally:
            sys.stdout = old
        emit({'t': 'result', 'index': msg['index'], 'result': res})


if __name__ == '__main__':
    main()
