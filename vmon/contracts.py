"""M1: contracts attached to the real functions from the harness (no repository edits).

A contract is a post-condition that reports into the Mon that is currently ACTIVE; it never
raises, so one run observes every violation.  attach() re-binds the attribute on the class
/ module, so internal callers inside the repository go through the contract too.
"""
import functools
import numpy as np
from numbers import Number

ACTIVE = None
_attached = {}


def attach(owner, name, post, key=None):
    key = key or (owner, name)
    if key in _attached: return
    orig = getattr(owner, name)

    @functools.wraps(orig)
    def wrapper(*a, **k):
        r = orig(*a, **k)
        if ACTIVE is not None:
            post(ACTIVE, r, *a, **k)
        return r

    _attached[key] = orig
    setattr(owner, name, wrapper)


def detach_all():
    for (owner, name), orig in list(_attached.items()):
        setattr(owner, name, orig)
    _attached.clear()


class active:
    def __init__(self, mon): self.mon = mon

    def __enter__(self):
        global ACTIVE
        self.prev = ACTIVE
        ACTIVE = self.mon
        return self.mon

    def __exit__(self, *exc):
        global ACTIVE
        ACTIVE = self.prev
        return False


# ---------------------------------------------------------------------------------------
# C18: the reported operations are a group of self-isometries with matching permutation
# ---------------------------------------------------------------------------------------
def wrap_half(v):
    return v - np.floor(v + 0.5)


def group_contract(mon, crys, tol=1e-6, prefix='C18'):
    """Evaluated on a constructed Crystal. All clauses are algebraic/exact."""
    G = list(crys.G)
    dim = crys.dim
    tol = max(tol, 20 * getattr(crys, 'threshold', 0.))  # crystals built with a user threshold (noisy positions)
    L, Linv = crys.lattice, np.linalg.inv(crys.lattice)
    mon.count('crystals_checked')
    mon.count('groupops_checked', len(G))
    mon.seen('group_orders', len(G))
    spins = crys.spins
    okshape = True
    for g in G:
        if not (g.rot.shape == (dim, dim) and np.issubdtype(g.rot.dtype, np.integer) and g.trans.shape == (dim,)
                and g.cartrot.shape == (dim, dim)):
            okshape = False
            mon.check(False, prefix + ':op-shape', 'rot %s %s trans %s for dim %d' % (g.rot.shape, g.rot.dtype, g.trans.shape, dim))
            continue
        mon.check(abs(abs(np.linalg.det(g.rot)) - 1) < 1e-9, prefix + ':det', 'det %s' % np.linalg.det(g.rot))
        mon.close(g.cartrot, L @ g.rot @ Linv, tol, prefix + ':cartrot=L.rot.Linv')
        mon.close(g.cartrot @ g.cartrot.T, np.eye(dim), tol, prefix + ':isometry')
        # atoms -> atoms of the same species, permutation as recorded
        good = len(g.indexmap) == len(crys.basis)
        for c, lst in enumerate(crys.basis):
            if not good: break
            if sorted(g.indexmap[c]) != list(range(len(lst))):
                good = False
                break
            for i, u in enumerate(lst):
                v = lst[g.indexmap[c][i]]
                if np.any(np.abs(wrap_half(g.rot @ u + g.trans - v)) > tol):
                    good = False
                    break
        mon.check(good, prefix + ':atom-map', lambda: 'rot=%s trans=%s indexmap=%s' % (g.rot.tolist(), g.trans.tolist(), g.indexmap))
        if spins is not None and good:
            # one global phase of modulus one per operation; vector spins rotate, scalars carry det
            det = round(np.linalg.det(g.rot))
            phase = None
            sp_ok = True
            for c, lst in enumerate(crys.basis):
                for i in range(len(lst)):
                    s0, s1 = spins[c][i], spins[c][g.indexmap[c][i]]
                    rs = det * s0 if isinstance(s0, Number) else g.cartrot @ np.asarray(s0)
                    n0, n1 = np.linalg.norm(rs), np.linalg.norm(s1)
                    if abs(n0 - n1) > 1e-6: sp_ok = False
                    if n0 < 1e-9: continue
                    if phase is None:
                        phase = np.vdot(np.atleast_1d(rs), np.atleast_1d(s1)) / n0 ** 2
                    if np.linalg.norm(np.atleast_1d(s1) - phase * np.atleast_1d(rs)) > 1e-6: sp_ok = False
            if phase is not None and abs(abs(phase) - 1) > 1e-6: sp_ok = False
            mon.check(sp_ok, prefix + ':spin-map', lambda: 'rot=%s indexmap=%s phase=%s' % (g.rot.tolist(), g.indexmap, phase))
    if not okshape:
        return

    def member(rot, trans, indexmap):
        for h in G:
            if np.array_equal(h.rot, rot) and np.all(np.abs(wrap_half(h.trans - trans)) < tol):
                return h.indexmap == indexmap
        return None

    ident = member(np.eye(dim, dtype=int), np.zeros(dim), tuple(tuple(range(len(l))) for l in crys.basis))
    mon.check(ident is True, prefix + ':identity', 'identity op missing or wrong map (%s)' % ident)
    # no duplicates modulo translations
    nodup = True
    for a in range(len(G)):
        for b in range(a + 1, len(G)):
            if np.array_equal(G[a].rot, G[b].rot) and np.all(np.abs(wrap_half(G[a].trans - G[b].trans)) < tol):
                nodup = False
    mon.check(nodup, prefix + ':distinct', 'two operations coincide modulo a lattice translation')
    bad = None
    for g in G:
        gi = g.inv()
        m = member(gi.rot, gi.trans, gi.indexmap)
        if m is not True:
            bad = ('inverse', g.rot.tolist(), m)
            break
        for h in G:
            p = g * h
            m = member(p.rot, p.trans, p.indexmap)
            if m is not True:
                bad = ('product', g.rot.tolist(), h.rot.tolist(), m)
                break
        if bad: break
    mon.check(bad is None, prefix + ':closure', lambda: str(bad))


def install_crystal_contract(which=('C18',)):
    """Post-condition on Crystal.__init__: every crystal any workload constructs is checked."""
    from onsager import crystal

    def post(mon, r, self, *a, **k):
        if getattr(mon, 'crystal_contract', True):
            group_contract(mon, self)

    attach(crystal.Crystal, '__init__', post)


# ---------------------------------------------------------------------------------------
# C03: transport tensors are symmetric, crystal invariant and (where stated) PSD
# ---------------------------------------------------------------------------------------
def axial_point_group(crys):
    """True iff the point group leaves an axial vector (3-D) / the pseudo-scalar (2-D) invariant: then a second-rank
    cross tensor such as the solute-vacancy coefficient may have an antisymmetric part."""
    rots = [g.cartrot for g in crys.G]
    if crys.dim == 2:
        return abs(sum(np.linalg.det(R) for R in rots)) / len(rots) > 1e-8
    return np.abs(sum(np.linalg.det(R) * R for R in rots)).max() / len(rots) > 1e-8


def tensor2_contract(mon, crys, T, name, psd, scale=None, tol=1e-9, prefix='C03', symmetric=True):
    T = np.asarray(T)
    dim = crys.dim
    mon.count('tensors_checked')
    if not mon.check(T.shape == (dim, dim) and bool(np.all(np.isfinite(T))), prefix + ':finite:' + name,
                     lambda: 'shape %s value %s' % (T.shape, T.tolist())):
        return
    sc = scale if scale is not None else max(np.abs(T).max(), 1e-300)
    if symmetric:
        mon.close(T, T.T, tol, prefix + ':symmetric:' + name, lambda: 'T=%s' % T.tolist(), scale=sc,
                  tags=(['axial_point_group'] if axial_point_group(crys) else []))
    worst = max(np.abs(g.cartrot @ T @ g.cartrot.T - T).max() for g in crys.G)
    mon.seen('point_group_orders', len(crys.G))
    mon.check(worst <= tol * sc, prefix + ':invariant:' + name, lambda: 'max_g |R T R^T - T| = %.3e scale %.3e T=%s' % (worst, sc, T.tolist()))
    mon.note_max('relerr:' + prefix + ':invariant:' + name, worst / sc)
    if psd:
        lam = np.linalg.eigvalsh(0.5 * (T + T.T)).min()
        mon.note_min('psd_margin:' + name, lam / sc)
        mon.check(lam >= -tol * sc, prefix + ':psd:' + name, lambda: 'lambda_min=%.3e scale %.3e T=%s' % (lam, sc, T.tolist()))


def tensor4_contract(mon, crys, T, name, scale=None, tol=1e-9, prefix='C03'):
    """elastodiffusion d_abcd: symmetric in (ab) and in (cd), invariant under the point group."""
    T = np.asarray(T)
    dim = crys.dim
    mon.count('tensors_checked')
    if not mon.check(T.shape == (dim,) * 4 and bool(np.all(np.isfinite(T))), prefix + ':finite:' + name, 'shape %s' % (T.shape,)):
        return
    sc = scale if scale is not None else max(np.abs(T).max(), 1e-300)
    mon.close(T, T.transpose(1, 0, 2, 3), tol, prefix + ':symmetric:' + name + ':ab', scale=sc)
    mon.close(T, T.transpose(0, 1, 3, 2), tol, prefix + ':symmetric:' + name + ':cd', scale=sc)
    worst = 0.
    for g in crys.G:
        R = g.cartrot
        worst = max(worst, np.abs(np.einsum('ai,bj,ck,dl,ijkl->abcd', R, R, R, R, T) - T).max())
    mon.check(worst <= tol * sc, prefix + ':invariant:' + name, lambda: 'max_g |R.R.R.R.T - T| = %.3e scale %.3e' % (worst, sc))
