"""Shared interstitial workload: random crystal + species + network + thermodynamic data."""
import numpy as np
from vmon import gen


def draw(rng, maxsites=6, sigmas=(0.3, 1., 3.), maxjumps=300, hostile=False, need_sites=1, noncentro=0.):
    """Returns dict or None (when the draw gives an empty / huge network)."""
    if noncentro > 0 and rng.uniform() < noncentro:
        # crystal without inversion (P1, Pm, Pmm2, P4, P3): pseudo-inverse branch of the interstitial bias solver, axial point groups
        spec = gen.rand_noncentro_spec(rng)
        crys = gen.make_crystal(spec)
    else:
        crys, spec = gen.rand_crystal(rng, nchem=int(rng.integers(1, 3)), maxatoms=7)
    chem = int(rng.integers(crys.Nchem))
    N = len(crys.basis[chem])
    if N > maxsites or N < need_sites: return None
    cutoff = gen.safe_cutoff(crys, chem, rng, maxshell=4)
    jn = crys.jumpnetwork(chem, cutoff)
    if len(jn) == 0 or sum(len(j) for j in jn) > maxjumps: return None
    sl = crys.sitelist(chem)
    if len(sl) > 1 and rng.uniform() < 0.5:
        # a user-built site list: Wyckoff sets in any order, sites in any order within a set
        sl = [[int(i) for i in rng.permutation(sl[k])] for k in rng.permutation(len(sl))]
    inv = gen.invmap(sl, N)
    sigma = float(rng.choice(sigmas))
    pre, bE, preT, bET = gen.rand_thermo_interstitial(rng, len(sl), len(jn), sigma)
    # absolute rate scale: ordinary low-temperature data have barriers of 20-40 kT, i.e. rates of 1e-9 .. 1e-18
    shift = float(rng.choice([0., 0., 12., 25., 40.]))
    bET = bET + shift
    if hostile:
        # rate ratios up to 1e+-12 between jump classes / sites
        bET = bET + rng.uniform(-14, 14, size=len(jn))
        bE = bE + rng.uniform(-6, 6, size=len(sl))
    return {'crys': crys, 'spec': spec, 'chem': chem, 'cutoff': cutoff, 'jn': jn, 'sl': sl, 'inv': inv, 'N': N,
            'pre': pre, 'bE': bE, 'preT': preT, 'bET': bET, 'sigma': sigma, 'shift': shift,
            'desc': {'kind': spec['kind'], 'lattice': crys.lattice, 'basis': crys.basis, 'chem': chem, 'cutoff': cutoff,
                     'pre': pre, 'bE': bE, 'preT': preT, 'bET': bET}}


def lattice_connected(crys, chem, jn):
    """True iff the jump network connects every site in every cell (checked on tori whose sizes contain the factors 2,3,4,5)."""
    import itertools
    N = len(crys.basis[chem])
    dim = crys.dim
    lat = []
    for jl in jn:
        for (i, j), dx in jl:
            R = np.round(np.linalg.solve(crys.lattice, dx) - crys.basis[chem][j] + crys.basis[chem][i]).astype(int)
            lat.append((i, j, tuple(R)))
    for L in ((12, 5) if dim == 2 else (4, 6, 5)):
        seen = {(0,) + (0,) * dim}
        stack = [(0,) + (0,) * dim]
        while stack:
            s = stack.pop()
            for (i, j, R) in lat:
                if i != s[0]: continue
                t = (j,) + tuple((a + b) % L for a, b in zip(s[1:], R))
                if t not in seen:
                    seen.add(t)
                    stack.append(t)
        if len(seen) != N * L ** dim: return False
    return True
