import sys, os, numpy as np, traceback
sys.path.insert(0, '/repo')
from onsager import crystal, OnsagerCalc, supercell
np.set_printoptions(precision=6, linewidth=200, suppress=True)
crys = crystal.Crystal.FCC(1.); jn = crys.jumpnetwork(0, 0.8); sl = crys.sitelist(0)
rng = np.random.default_rng(0)
def rand_args(d):
    return (np.zeros(1), np.zeros(1), rng.normal(size=d.thermo.Nstars)*0.5, np.array([2.]), rng.normal(size=len(d.om1_jn))*0.5+2, rng.normal(size=len(d.om2_jn))*0.5+2)
d1 = OnsagerCalc.VacancyMediated(crys, 0, sl, jn, 1)
a = rand_args(d1)
r1 = d1.Lij(*a)
# aliasing: mutate returned L0vv
r1[0][:] = 99.
r2 = d1.Lij(*a)
print('after mutate L0vv returned:', r2[0].diagonal())
# regenerate range
d2 = OnsagerCalc.VacancyMediated(crys, 0, sl, jn, 2)
tags = {}
d1b = OnsagerCalc.VacancyMediated(crys, 0, sl, jn, 1)
d1b.generate(2); d1b.generatematrices(); d1b.tags, d1b.tagdict, d1b.tagdicttype = d1b.generatetags()
print('Nvstars fresh N=2', d2.vkinetic.Nvstars, 'regen', d1b.vkinetic.Nvstars, 'kinetic stars', d2.kinetic.Nstars, d1b.kinetic.Nstars)
a2 = rand_args(d2)
try:
    print('fresh', d2.Lij(*a2)[1].diagonal())
    print('regen', d1b.Lij(*a2)[1].diagonal())
except Exception as e:
    print('EXC regen', type(e).__name__, e)
