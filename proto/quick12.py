import sys, os, numpy as np, itertools, traceback, pickle
sys.path.insert(0, '/repo')
from onsager import crystal, supercell
src = open('/tmp/explore/quick6.py').read().split('def brute_D')[0]
sys.argv = ['x', sys.argv[1], sys.argv[2]]
exec(src)
def randcrys2(dim):
    c = randcrys(dim)
    # split atoms into 2 chemistries by Wyckoff set if possible
    sl = c.sitelist(0)
    if len(sl) >= 2:
        b0 = [c.basis[0][i] for i in sl[0]]; b1 = [c.basis[0][i] for s in sl[1:] for i in s]
        return crystal.Crystal(c.lattice, [b0, b1])
    return c
nj = 0; bad = 0; nobs = 0
for t in range(int(sys.argv[2])):
    dim = 3 if rng.uniform() < 0.5 else 2
    try: crys = randcrys2(dim)
    except Exception as e: print('gen exc', e); continue
    chem = 0
    cutoff = rng.uniform(0.5, 1.3)
    cd = rng.uniform(0, 0.4) if rng.uniform() < 0.5 else 0
    jn = crys.jumpnetwork(chem, cutoff, cd)
    # brute
    basis = crys.basis[chem]
    rmax = 4
    brute = []
    for i, u0 in enumerate(basis):
        for j, u1 in enumerate(basis):
            for n in itertools.product(range(-rmax, rmax+1), repeat=dim):
                dx = crys.lattice @ (np.array(n) + u1 - u0)
                d2 = dx @ dx
                if abs(np.sqrt(d2) - cutoff) < 1e-6: brute = None; break
                if 0 < d2 < cutoff**2:
                    # obstruction
                    obs = False
                    x0 = crys.lattice @ u0
                    for c in range(crys.Nchem):
                        if c == chem: continue
                        for ua in crys.basis[c]:
                            for m in itertools.product(range(-rmax-1, rmax+2), repeat=dim):
                                xa = crys.lattice @ (np.array(m) + ua) - x0
                                s = xa @ dx
                                if 0 <= s <= d2:
                                    dd2 = (xa @ xa * d2 - s * s) / d2
                                    if abs(dd2 - cd*cd) < 1e-9: brute = None
                                    if dd2 < cd * cd: obs = True
                                if brute is None: break
                            if brute is None: break
                        if brute is None: break
                    if brute is None: break
                    if not obs: brute.append((i, j, dx))
                    else: nobs += 1
            if brute is None: break
        if brute is None: break
    if brute is None: continue
    flat = [(i, j, dx) for jl in jn for (i, j), dx in jl]
    nj += 1
    def key(t): return (t[0], t[1]) + tuple(np.round(t[2], 6))
    A = sorted(key(t) for t in flat); B = sorted(key(t) for t in brute)
    if A != B or len(set(A)) != len(A):
        bad += 1
        print('MISMATCH dim', dim, 'Nchem', crys.Nchem, 'cutoff', cutoff, 'cd', cd, 'code', len(A), 'brute', len(B), 'dups', len(A) - len(set(A)))
print('networks', nj, 'bad', bad, 'obstructed jumps seen', nobs)
