import sys, os, numpy as np, time
sys.path.insert(0, '/repo')
from onsager import crystal, OnsagerCalc
from diag_crys import mk
np.set_printoptions(precision=8, linewidth=200, suppress=True)
rng = np.random.default_rng(int(sys.argv[2]))
crys, cut = mk(sys.argv[1])
jn = crys.jumpnetwork(0, cut); sl = crys.sitelist(0); nW = len(sl)
d = OnsagerCalc.VacancyMediated(crys, 0, sl, jn, 1)
def ra(sc=1.0):
    bFV = rng.normal(size=nW)*sc; bFV -= bFV.min()
    return [bFV, np.zeros(nW), rng.normal(size=d.thermo.Nstars)*sc, rng.normal(size=len(jn))*sc+2, rng.normal(size=len(d.om1_jn))*sc+2, rng.normal(size=len(d.om2_jn))*sc+2]
worst_mono = 0; worst_br = 0
for t in range(20):
    a = ra()
    L = d.Lij(*a)
    # monotonicity: lower one TS
    for which in (3, 4, 5):
        k = rng.integers(len(a[which]))
        b = [x.copy() for x in a]; b[which][k] -= rng.uniform(0.1, 2.0)
        if which == 3:
            pass  # omega0 TS lowering alone (omega1 fixed)
        L2 = d.Lij(*b)
        for idx in (0, 1):
            ev = np.linalg.eigvalsh(L2[idx] - L[idx]).min() / max(np.abs(L[idx]).max(), 1e-300)
            worst_mono = min(worst_mono, ev)
    # branches
    for sc in (1e-3, 1., 1e3, 1e6):
        b = [x.copy() for x in a]; b[5] = b[5] - np.log(sc)
        La = d.Lij(*b, large_om2=0); Lb = d.Lij(*b, large_om2=np.inf)
        rel = max(np.abs(p - q).max() / max(np.abs(q).max(), 1e-300) for p, q in zip(La[1:], Lb[1:]))
        worst_br = max(worst_br, rel)
print(sys.argv[1], 'worst monotonic min-eig (rel)', worst_mono, 'worst branch rel diff', worst_br)
b = [x.copy() for x in a]
for sc in (1e8, 1e10, 1e12, 1e14, 1e16):
    b[5] = a[5] - np.log(sc)
    Ld = d.Lij(*b)
    print(' scale %.0e' % sc, 'Lss', Ld[1].diagonal(), 'finite', all(np.isfinite(x).all() for x in Ld), 'sym', max(np.abs(x - x.T).max() for x in Ld))
