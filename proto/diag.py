import sys, numpy as np
sys.path.insert(0, __import__('os').environ.get('REPO','/repo'))
from onsager import crystal, OnsagerCalc
import torus as T
np.set_printoptions(precision=8, linewidth=200, suppress=True)
def mk(which):
    if which == 'omega':
        return crystal.Crystal(np.array([[1/2,1/2,0.],[-np.sqrt(3/4),np.sqrt(3/4),0.],[0.,0.,np.sqrt(3/8)]]),
              [np.zeros(3), np.array([1/3,2/3,0.5]), np.array([2/3,1/3,0.5])]), 0.7
    if which == 'rumpled':
        return crystal.Crystal(np.array([[1/2,1/2,0.],[-np.sqrt(3/4),np.sqrt(3/4),0.],[0.,0.,np.sqrt(3/8)]]),
              [np.zeros(3), np.array([1/3,2/3,0.55]), np.array([2/3,1/3,0.45])]), 0.7
    if which == 'hcp': return crystal.Crystal.HCP(1.), 1.01
    if which == 'dtria': return crystal.Crystal(np.array([[1.,0.],[0.,np.sqrt(3.)]]), [np.zeros(2), np.array([0.5,0.4])]), 1.2
which = sys.argv[1]; seed = int(sys.argv[2]); L = int(sys.argv[3]); mask = sys.argv[4]
crys, cut = mk(which)
rng = np.random.default_rng(seed)
jn = crys.jumpnetwork(0, cut); sl = crys.sitelist(0)
d = OnsagerCalc.VacancyMediated(crys, 0, sl, jn, 1)
nW = len(sl)
bFV = rng.normal(size=nW) if 'V' in mask else np.zeros(nW); bFV -= bFV.min()
bFS = rng.normal(size=nW) if 'S' in mask else np.zeros(nW); bFS -= bFS.min()
bFSV = rng.normal(size=d.thermo.Nstars) if 'B' in mask else np.zeros(d.thermo.Nstars)
bFT0 = (rng.normal(size=len(jn)) if '0' in mask else np.zeros(len(jn))) + 2
# LIMB-like default for T1,T2
def limb():
    bFSVkin = np.array([bFS[s] + bFV[v] for (s, v) in d.kineticsvWyckoff])
    for t, k in enumerate(d.thermo2kin): bFSVkin[k] += bFSV[t]
    ref = np.array([bFS[s] + bFV[v] for (s, v) in d.kineticsvWyckoff])
    bFT1 = np.array([bFT0[jt] + 0.5*(bFSVkin[a]+bFSVkin[b]) - 0.5*(bFV[d.kineticsvWyckoff[a][1]] + bFV[d.kineticsvWyckoff[b][1]]) for jt,(a,b) in zip(d.om1_jt, d.om1_SP)])
    bFT2 = np.array([bFT0[jt] + 0.5*(bFSVkin[a]+bFSVkin[b]) - 0.5*(bFV[d.kineticsvWyckoff[a][1]] + bFV[d.kineticsvWyckoff[b][1]]) for jt,(a,b) in zip(d.om2_jt, d.om2_SP)])
    return bFT1, bFT2
bFT1, bFT2 = limb()
if '1' in mask: bFT1 = bFT1 + rng.normal(size=len(bFT1))
if '2' in mask: bFT2 = bFT2 + rng.normal(size=len(bFT2))
args = (bFV, bFS, bFSV, bFT0, bFT1, bFT2)
tor = T.Torus(d, L)
real = d.GFcalc
d.GFcalc = T.GFstub(real, tor)
Ls = d.Lij(*args)
pss, psv, pvv, Z, Z0 = T.predict(d, tor, args)
c = T.baresite(d, tor, bFV, bFT0)
SSv = sum(np.exp(-bFS[d.invmap[i]]) for i in range(tor.N)); SVv = sum(np.exp(-bFV[d.invmap[i]]) for i in range(tor.N))
ref = sum(np.exp(-bFS[d.invmap[i]]) * (tor.M * SVv * Ls[0] - c[i]) for i in range(tor.N))
p1 = pvv - tor.N / (SSv * SVv) * ref
print(mask, 'ss', np.abs(Ls[1]-pss).max(), 'sv', np.abs(Ls[2]-psv).max(), '1vv', np.abs(Ls[3]-p1).max())
d.GFcalc = real; d.clearcache()
Lr = d.Lij(*args)
print(mask, 'L', L, 'REAL vs chain: ss', np.abs(Lr[1]-pss).max(), 'sv', np.abs(Lr[2]-psv).max(), '1vv', np.abs(Lr[3]-p1).max(), ' | real vs stub sv', np.abs(Lr[2]-Ls[2]).max())
pass
ps = np.array([np.exp(-bFS[d.invmap[i]]) for i in range(tor.N)]); ps *= tor.N / ps.sum()
ref2 = tor.M * tor.N * Ls[0] - sum(c[i] for i in range(tor.N)) / SVv
p2 = pvv - ref2
print('  cand uniform-block 1vv', np.abs(Ls[3]-p2).max(), ' diff code-(cand1)', (Ls[3]-p1).diagonal(), 'diff code-cand2', (Ls[3]-p2).diagonal())
print('  c_i/SV diag', [ (c[i]/SVv).diagonal() for i in range(tor.N)], 'probS', ps)
if hasattr(d, '_dbg'):
    pref = tor.N / (SSv * SVv)
    print('  code corr vv', d._dbg['L1vv'].diagonal(), 'chain corr vv', (pref * tor.corr['vv']).diagonal())
    unc_ref_1 = sum(np.exp(-bFS[d.invmap[i]]) * (tor.M * SVv * Ls[0] - c[i]) for i in range(tor.N))
    print('  code unc vv', (d._dbg['D0vv'] + d._dbg['D2vv']).diagonal(), 'chain unc-ref(cand1)', (pref * (tor.D0['vv'] - unc_ref_1)).diagonal())
print('  tracer-id: code(stub) Lsv+L0vv', np.abs(Ls[2]+Ls[0]).max(), 'chain psv+L0vv', np.abs(psv+Ls[0]).max(), 'real Lsv+L0', np.abs(Lr[2]+Lr[0]).max(), 'real L1vv', np.abs(Lr[3]).max(), 'chain p1', np.abs(p1).max())
print('  L0vv', Ls[0].flatten(), 'Lss code', Ls[1].flatten(), 'chain', pss.flatten())
