import sys, numpy as np
sys.path.insert(0, '/repo')
from onsager import PowerExpansion as PE
rng = np.random.default_rng(1)
def fn(n): return lambda u: u**n
for T, dim in ((PE.Taylor3D, 3), (PE.Taylor2D, 2)):
    T()
    def rand(nl, shape=()):
        return T([(n, l, rng.normal(size=(T.powlrange[l],)+shape) + 1j*rng.normal(size=(T.powlrange[l],)+shape)) for n, l in nl])
    def ev(t, u):
        if len(t.coefflist) == 0: return 0
        return t(u, {(n, l): fn(n) for (n, l) in t.nl()})
    worst = {}
    for trial in range(200):
        u = rng.normal(size=dim)
        a = rand([(0, 0), (1, 1), (2, 2)], (2, 2)); b = rand([(0, 0), (1, 1), (2, 2)], (2, 2)); c = rand([(1,1),(3,1)], (2,2))
        A, B, C = ev(a, u), ev(b, u), ev(c, u)
        tests = {
          'add': (ev(a + b, u), A + B), 'sub': (ev(a - c, u), A - C), 'neg': (ev(-a, u), -A),
          'scal': (ev(a * 2.5, u), 2.5 * A), 'mul': (ev(a * b, u), A @ B), 'mul3': (ev(a * c, u), A @ C),
          'ldot': (ev(a.ldot(np.arange(4.).reshape(2,2)), u), np.arange(4.).reshape(2,2) @ A),
          'rdot': (ev(a.rdot(np.arange(4.).reshape(2,2)), u), A @ np.arange(4.).reshape(2,2)),
          'slice': (ev(a[0:1, :], u), A[0:1, :]),
          'reduce': (ev((a*b).copy().reduce(), u), A @ B),
          'separate': (ev((a*b).copy().reduce().separate(), u), A @ B),
          'trunc': (ev((a*b).truncate(2), u), ev(T([t for t in (a*b).coefflist if t[0] <= 2]), u)),
        }
        # rotation
        M = rng.normal(size=(dim, dim))
        par = rand([(0,0),(1,1),(2,2),(3,3),(4,4)], (2,2))
        for (n, l, cf) in par.coefflist:
            for deg in range(l + 1):
                if (n - deg) % 2: cf[T.powlrange[deg-1]:T.powlrange[deg]] = 0
        pt = T.rotatedirections(M)
        tests['rotate'] = (ev(par.rotate(pt), u), ev(par, M @ u))
        # inverse
        lead = rng.normal(size=(2,2)) + 3*np.eye(2)
        q = T([(2, 0, lead.reshape((1,2,2)).astype(complex))]) + rand([(3,1),(4,2)], (2,2))
        for Nmax in (-2, -1, 0):
            qi = q.inv(Nmax=Nmax)
            prod = (qi * q)
            # identity through order Nmax+2
            uu = u * 1e-2 / np.linalg.norm(u)
            val = ev(prod.truncate(Nmax + 2), uu)
            tests['inv%d' % Nmax] = (val, np.eye(2))
        for k, (x, y) in tests.items():
            worst[k] = max(worst.get(k, 0), np.abs(np.asarray(x) - np.asarray(y)).max())
    print(T.__name__, {k: float('%.2g' % v) for k, v in worst.items()})
