import numpy as np, sys, os
sys.path.insert(0, os.environ.get('REPO','/repo'))
from onsager import crystal
def mk(which):
    if which == 'omega':
        return crystal.Crystal(np.array([[1/2,1/2,0.],[-np.sqrt(3/4),np.sqrt(3/4),0.],[0.,0.,np.sqrt(3/8)]]),
              [np.zeros(3), np.array([1/3,2/3,0.5]), np.array([2/3,1/3,0.5])]), 0.7
    if which == 'rumpled':
        return crystal.Crystal(np.array([[1/2,1/2,0.],[-np.sqrt(3/4),np.sqrt(3/4),0.],[0.,0.,np.sqrt(3/8)]]),
              [np.zeros(3), np.array([1/3,2/3,0.55]), np.array([2/3,1/3,0.45])]), 0.7
    if which == 'hcp': return crystal.Crystal.HCP(1.), 1.01
    if which == 'fcc': return crystal.Crystal.FCC(1.), 0.8
    if which == 'dtria': return crystal.Crystal(np.array([[1.,0.],[0.,np.sqrt(3.)]]), [np.zeros(2), np.array([0.5,0.4])]), 1.2
    if which == 'tria': return crystal.Crystal(np.array([[1.,0.],[0.,np.sqrt(3.)]]), [np.zeros(2), np.array([0.5,0.5])]), 1.2
    if which == 'honey': return crystal.Crystal(np.array([[0.5,0.5],[-np.sqrt(0.75),np.sqrt(0.75)]]), [np.array([1/3,2/3]), np.array([2/3,1/3])]), 0.6
    if which == 'sq': return crystal.Crystal(np.eye(2), [np.zeros(2)]), 1.01
