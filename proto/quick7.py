import sys, os, numpy as np, pickle
sys.path.insert(0, os.environ.get('REPO', '/repo'))
from onsager import crystal
src = open('/tmp/explore/quick6.py').read().split('def brute_D')[0]
sys.argv = ['x', sys.argv[1], '0']
exec(src)
nexc = 0
for t in range(int(sys.argv[2]) if len(sys.argv) > 2 else 300):
    dim = 3 if rng.uniform() < 0.6 else 2
    try:
        c = randcrys(dim)
    except Exception as e:
        nexc += 1
        print('EXC', type(e).__name__, e)
        pickle.dump(LAST, open('crysfail_%d.pkl' % nexc, 'wb'))
        print(repr(LAST))
print('nexc', nexc)
