import sys, os, numpy as np, traceback
sys.path.insert(0, __import__('os').environ.get('REPO','/repo'))
from onsager import crystal, OnsagerCalc, supercell
np.set_printoptions(precision=6, linewidth=200, suppress=True)
def attempt(name, f):
    try:
        r = f(); print('[ok]', name, r)
    except Exception as e:
        print('[EXC]', name, type(e).__name__, str(e)[:200])
# (e) vTK !=
def e():
    a = OnsagerCalc.vacancyThermoKinetics(np.ones(1), np.zeros(1), np.ones(1), np.zeros(1))
    b = OnsagerCalc.vacancyThermoKinetics(np.ones(1), np.zeros(1), np.ones(1), np.ones(1))
    return a != b
attempt('vTK !=', e)
# (b) 2D NOSYM
attempt('2D NOSYM', lambda: len(crystal.Crystal(np.eye(2), [np.zeros(2), np.array([0.3, 0.1])], NOSYM=True).G))
attempt('2D NOSYM 1atom', lambda: [g.rot.shape for g in crystal.Crystal(np.eye(2), [np.zeros(2)], NOSYM=True).G])
attempt('3D NOSYM', lambda: len(crystal.Crystal(np.eye(3), [np.zeros(3), np.array([0.3, 0.1,0.2])], NOSYM=True).G))
# (c) 2D hex with site of symmetry m at oblique angle
def c():
    hexl = np.array([[0.5, 0.5], [-np.sqrt(0.75), np.sqrt(0.75)]])
    out = []
    for u in (np.array([0.5, 0.]), np.array([0.2, 0.2]), np.array([0.3, 0.6]), np.array([0.1,0.]), np.array([0.,0.15])):
        crys = crystal.Crystal(hexl, [[np.zeros(2)], [u]])
        crys2 = crys  # site (1,0)
        # wyckoff positions of u
        ws = crys.Wyckoffpos(u)
        cr = crystal.Crystal(hexl, [[np.zeros(2)], ws])
        for i in range(len(ws)):
            vb = cr.VectorBasis((1, i))
            # brute: invariant subspace
            P = sum(g.cartrot for g in cr.pointG[1][i]) / len(cr.pointG[1][i])
            dimtrue = int(round(np.trace(P)))
            ok = True
            if vb[0] != dimtrue: ok = False
            if vb[0] == 1 and not np.allclose(P @ vb[1], vb[1]): ok = False
            out.append((len(ws), len(cr.pointG[1][i]), vb[0], dimtrue, ok))
    return out
attempt('2D hex vector basis', c)
# (d) setocc range
def d():
    crys = crystal.Crystal.FCC(1.)
    out = []
    for Ns in (0, 1, 2):
        sup = supercell.Supercell(crys, 2*np.eye(3, dtype=int), Nsolute=Ns)
        sup.fillperiodic((0, 0))
        for cval in (-2, -1, 0, 1, 2, 3):
            s = sup.copy()
            try:
                s.setocc(0, cval); r = 'acc'
            except IndexError as ex:
                r = 'IndexError'
            out.append((Ns, cval, r, s.__sane__()))
    return out
attempt('setocc', d)
