import sys, os, numpy as np, traceback, itertools, time
sys.path.insert(0, os.environ.get('REPO', '/repo'))
from onsager import crystal, OnsagerCalc, GFcalc
np.set_printoptions(precision=8, linewidth=200, suppress=True)
rng = np.random.default_rng(int(sys.argv[1])); LAST = None
def randcrys(dim):
    kind = rng.integers(0, 6)
    if dim == 3:
        a, b, c = 1., rng.uniform(0.8, 1.3), rng.uniform(0.7, 1.5)
        if kind == 0: latt = np.diag([a, a, a])
        elif kind == 1: latt = np.diag([a, a, c])
        elif kind == 2: latt = np.diag([a, b, c])
        elif kind == 3: latt = np.array([[0.5, 0.5, 0], [-np.sqrt(.75), np.sqrt(.75), 0], [0, 0, c]])
        elif kind == 4: latt = np.array([[a, 0.3*rng.normal(), 0], [0, b, 0], [0, 0, c]])  # monoclinic
        else: latt = np.eye(3) + 0.25 * rng.normal(size=(3, 3))
    else:
        a, b = 1., rng.uniform(0.7, 1.4)
        if kind in (0,): latt = np.eye(2)
        elif kind in (1, 2): latt = np.diag([a, b])
        elif kind == 3: latt = np.array([[0.5, 0.5], [-np.sqrt(.75), np.sqrt(.75)]])
        else: latt = np.eye(2) + 0.25 * rng.normal(size=(2, 2))
    base = crystal.Crystal(latt, [np.zeros(dim)])
    # decorate with wyckoff orbits of special/general points
    choices = [0., 0.5, 0.25, 1/3, 2/3, rng.uniform(), rng.uniform()]
    nb = rng.integers(1, 3)
    basis = []
    for _ in range(nb):
        u = np.array([choices[rng.integers(len(choices))] for _ in range(dim)])
        for w in base.Wyckoffpos(u):
            if not any(np.allclose(crystal.inhalf(w - v), 0, atol=1e-6) for v in basis): basis.append(w)
        if len(basis) > 5: break
    global LAST; LAST = (latt, basis[:8])
    return crystal.Crystal(latt, [basis[:8]])
def brute_D(crys, chem, sl, jn, pre, bE, preT, bET):
    N = len(crys.basis[chem]); dim = crys.dim
    inv = [0]*N
    for w, s in enumerate(sl):
        for i in s: inv[i] = w
    lnp = np.array([np.log(pre[inv[i]]) - bE[inv[i]] for i in range(N)]); lnp -= lnp.max()
    p = np.exp(lnp); p /= p.sum()
    Q = np.zeros((N, N)); b = np.zeros((N, dim)); D0 = np.zeros((dim, dim))
    for J, jl in enumerate(jn):
        for (i, j), dx in jl:
            rate = preT[J] / pre[inv[i]] * np.exp(bE[inv[i]] - bET[J])
            Q[i, j] += np.sqrt(p[i]) * rate / np.sqrt(p[j]); Q[i, i] -= rate
            b[i] += np.sqrt(p[i]) * rate * dx
            D0 += 0.5 * p[i] * rate * np.outer(dx, dx)
    assert np.allclose(Q, Q.T, rtol=1e-9, atol=1e-12 * np.abs(Q).max())
    # restrict pinv per connected component handled by pinv automatically
    return D0 + b.T @ np.linalg.pinv(Q, hermitian=True, rcond=1e-12) @ b
if __name__ != "__main__": raise ImportError("stop")
worst = 0; nVB = 0; npinv = 0; n = 0; ndis = 0
t0 = time.time()
for trial in range(int(sys.argv[2])):
    dim = 3 if rng.uniform() < 0.6 else 2
    try:
        crys = randcrys(dim)
    except Exception as e:
        print('crystal gen exc', type(e).__name__, e, repr(LAST)); continue
    chem = 0
    N = len(crys.basis[chem])
    # cutoff: choose to include first few shells
    cutoff = rng.uniform(0.6, 1.3)
    jn = crys.jumpnetwork(chem, cutoff)
    if len(jn) == 0: continue
    sl = crys.sitelist(chem)
    diff = OnsagerCalc.Interstitial(crys, chem, sl, jn)
    pre = rng.uniform(0.5, 2, size=len(sl)); bE = rng.normal(size=len(sl))
    preT = rng.uniform(0.5, 2, size=len(jn)); bET = rng.normal(size=len(jn)) + 2
    D = diff.diffusivity(pre, bE, preT, bET)
    Db = brute_D(crys, chem, sl, jn, pre, bE, preT, bET)
    err = np.abs(D - Db).max() / max(np.abs(Db).max(), 1e-300)
    n += 1; nVB += diff.NV > 0; npinv += (not diff.omega_invertible)
    nd = GFcalc.GFCrystalcalc.networkcount(jn, N); ndis += nd > 1
    scale = max(np.abs(Db).max(), 1e-300)
    if err > 1e-9 and np.abs(D - Db).max() > 1e-9:
        import pickle; pickle.dump(dict(latt=crys.lattice, basis=crys.basis, cutoff=cutoff, pre=pre, bE=bE, preT=preT, bET=bET), open('case_%d.pkl' % trial, 'wb'))
        print('MISMATCH', trial, 'dim', dim, 'N', N, 'NV', diff.NV, 'inv', diff.omega_invertible, 'Ndiff', nd, 'err', err, '\n', D, '\n', Db)
    worst = max(worst, err)
print('n', n, 'withVB', nVB, 'pinv', npinv, 'disconnected', ndis, 'worst rel err', worst, 'time', time.time() - t0)
