import sys, os, numpy as np, time
sys.path.insert(0, '/repo')
from onsager import crystal, OnsagerCalc
from diag_crys import mk
for which, Nth in (('fcc',1),('fcc',2),('fcc',3),('hcp',2),('sq',3),('honey',3),('omega',2),('dtria',2),('rumpled',2)):
    crys, cut = mk(which)
    jn = crys.jumpnetwork(0, cut); sl = crys.sitelist(0)
    t0 = time.time()
    d = OnsagerCalc.VacancyMediated(crys, 0, sl, jn, Nth)
    t1 = time.time()
    nW = len(sl)
    a = (np.zeros(nW), np.zeros(nW), np.zeros(d.thermo.Nstars), np.zeros(len(jn))+1, np.zeros(len(d.om1_jn))+1, np.zeros(len(d.om2_jn))+1)
    d.Lij(*a); t2 = time.time(); d.Lij(*a); t3 = time.time()
    print(which, Nth, 'build %.2f' % (t1-t0), 'Lij first %.2f' % (t2-t1), 'cached %.3f' % (t3-t2), 'kin', d.kinetic.Nstates, 'vstars', d.vkinetic.Nvstars, 'GFstars', d.GFstarset.Nstars, 'om1', len(d.om1_jn))
