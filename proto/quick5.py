import sys, os, numpy as np, traceback, io, tarfile, types, pkgutil, json, subprocess, tempfile, shutil
sys.path.insert(0, os.environ.get('REPO', '/repo'))
shim = types.ModuleType('pkg_resources')
shim.resource_string = lambda name, res: pkgutil.get_data('onsager', res)
sys.modules['pkg_resources'] = shim
from onsager import crystal, OnsagerCalc, supercell, automator
from diag_crys import mk
import warnings
crys, cut = mk(sys.argv[1])
jn = crys.jumpnetwork(0, cut); sl = crys.sitelist(0)
d = OnsagerCalc.VacancyMediated(crys, 0, sl, jn, 1)
n = int(sys.argv[2])
with warnings.catch_warnings(record=True) as w:
    warnings.simplefilter('always')
    sd = d.makesupercells(n * np.eye(3, dtype=int))
    print('warnings', len(w))
buf = io.BytesIO()
with tarfile.open(fileobj=buf, mode='w') as tar:
    automator.supercelltar(tar, sd)
buf.seek(0)
tmp = tempfile.mkdtemp(dir='/tmp/explore')
with tarfile.open(fileobj=buf) as tar:
    names = tar.getnames(); tar.extractall(tmp)
print(len(names), 'members')
tags = json.load(open(tmp + '/tags.json'))
print('ntags', len(tags), 'states', len(sd['states']), 'trans', len(sd['transitions']))
# for each transition with mapping, apply trans.pl to the state's POSCAR as if CONTCAR
bad = 0; n_ok = 0
inv = {v: k for k, v in tags.items()}
for tag, (s0, s1) in sd['transitions'].items():
    dirn = inv[tag]
    for m, t, s in ((sd['transmapping'][tag][0], 'init', s0), (sd['transmapping'][tag][1], 'final', s1)):
        if m is None: continue
        relax = inv[m[0]]
        out = subprocess.run(['perl', tmp + '/trans.pl', f'{tmp}/{dirn}/trans.{t}', f'{tmp}/{relax}/POSCAR'], capture_output=True, text=True)
        if out.returncode != 0: print('perl fail', out.stderr[:200]); bad += 1; continue
        sup = s.copy()
        try:
            sup.POSCAR_occ(out.stdout)
        except Exception as e:
            print('POSCAR_occ exc', tag, t, e); bad += 1; continue
        if sup == s: n_ok += 1
        else:
            bad += 1
            if bad < 3: print('MISMATCH', tag, t, 'occ equal', np.all(sup.occ == s.occ), 'order equal', sup.chemorder == s.chemorder)
print('ok', n_ok, 'bad', bad)
shutil.rmtree(tmp)
