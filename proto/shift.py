import sys, os, numpy as np
sys.path.insert(0, os.environ.get('REPO','/repo'))
from onsager import crystal, OnsagerCalc
from diag_crys import mk
np.set_printoptions(precision=8, linewidth=200, suppress=True)
which = sys.argv[1]; seed = int(sys.argv[2]); mask = sys.argv[3]
crys, cut = mk(which)
rng = np.random.default_rng(seed)
jn = crys.jumpnetwork(0, cut); sl = crys.sitelist(0)
d = OnsagerCalc.VacancyMediated(crys, 0, sl, jn, 1)
nW = len(sl)
bFV = rng.normal(size=nW) if 'V' in mask else np.zeros(nW); bFV -= bFV.min()
bFS = np.zeros(nW); bFSV = np.zeros(d.thermo.Nstars)
bFT0 = (rng.normal(size=len(jn)) if '0' in mask else np.zeros(len(jn))) + 2
bFT1 = np.array([bFT0[jt] for jt in d.om1_jt]); bFT2 = np.array([bFT0[jt] for jt in d.om2_jt])
class Shift:
    def __init__(s, real, C): s.real, s.C = real, C
    def SetRates(s, **kw): s.real.SetRates(**kw)
    def Diffusivity(s): return s.real.Diffusivity()
    def biascorrection(s): return s.real.biascorrection()
    def __call__(s, i, j, dx): return s.real(i, j, dx) + s.C
real = d.GFcalc
for C in (0., 0.5, 2.0):
    d.GFcalc = Shift(real, C); d.clearcache()
    L0, Lss, Lsv, L1 = d.Lij(bFV, bFS, bFSV, bFT0, bFT1, bFT2)
    print('C', C, 'Lss', Lss.diagonal(), 'Lsv+L0', (Lsv+L0).diagonal(), 'L1vv', L1.diagonal())
print('etav', real.biascorrection())
