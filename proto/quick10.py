import sys, os, numpy as np, itertools, traceback
sys.path.insert(0, '/repo')
from onsager import crystal, supercell, cluster
rng = np.random.default_rng(int(sys.argv[1]))
def brute_E(sup, clusterexp, values, mocc, socc):
    E = values[-1] * sup.size if len(values) > len(clusterexp) else 0.
    for clset, val in zip(clusterexp, values):
        for cl in clset:
            if cl.__vacancy__:
                if sup.vacancy is None: continue
                civ, Rv = sup.ciR(sup.vacancy)
                if cl.vacancy().ci != civ: continue
                Rs = [Rv]
            else:
                Rs = sup.Rveclist
            for R in Rs:
                ok = True
                for site in cl:
                    n, mob = sup.index(R + site.R, site.ci)
                    if (mocc[n] if mob else socc[n]) != 1: ok = False; break
                if ok: E += val
    return E
def run(name, crys, superlatt, spectator, cutoff, order, chem, jcut, vac=False):
    sup = supercell.ClusterSupercell(crys, superlatt, spectator=spectator)
    clusterexp = cluster.makeclusters(crys, cutoff, order)
    if vac:
        sup.addvacancy(0)
        clusterexp = clusterexp + cluster.makeVacancyClusters(crys, chem, clusterexp)
    vals = rng.normal(size=len(clusterexp) + 1)
    socc = rng.integers(0, 2, size=sup.Nspec * sup.size)
    jn = crys.jumpnetwork(chem, jcut)
    TS = cluster.makeTSclusters(crys, chem, jn, clusterexp if not vac else clusterexp[len(clusterexp)//2:])
    MC = cluster.MonteCarloSampler(sup, socc, clusterexp, vals, chem, jn, KRAvalues=rng.normal(size=len(jn)), TSclusters=TS, TSvalues=rng.normal(size=len(TS)))
    worst = 0; wdb = 0
    for t in range(10):
        mocc = rng.integers(0, 2, size=sup.Nmobile * sup.size)
        if vac: mocc[0] = 0
        Eb = brute_E(sup, clusterexp, vals, mocc, socc)
        Ec = np.dot(vals, sup.evalcluster(mocc, socc, clusterexp))
        occ = mocc.copy()
        if vac: occ[0] = -1
        MC.start(occ)
        worst = max(worst, abs(Eb - Ec), abs(Eb - MC.E()))
        if not vac:
            ij, Q, dx = MC.transitions()
            E0 = MC.E()
            for (i, j), q, d in list(zip(ij, Q, dx))[:20]:
                MC.update((j,), (i,))
                ij2, Q2, dx2 = MC.transitions()
                E1 = MC.E()
                ms = [m for m, (a, b) in enumerate(ij2) if (a, b) == (j, i) and np.allclose(dx2[m], -d)]
                if len(ms) != 1: wdb = max(wdb, 99); 
                else: wdb = max(wdb, abs((q - Q2[ms[0]]) - (E1 - E0)))
                MC.update((i,), (j,))
    print(name, 'Nclusters', len(clusterexp), 'TS', len(TS), 'njumps', len(MC.jumps), 'worst E err', worst, 'worst DB err', wdb)
cases = {
 'fcc': lambda: run('fcc', crystal.Crystal.FCC(1.), 3*np.eye(3, dtype=int), (), 0.8, 3, 0, 0.8),
 'fccvac': lambda: run('fccvac', crystal.Crystal.FCC(1.), 3*np.eye(3, dtype=int), (), 0.8, 3, 0, 0.8, vac=True),
 'b2': lambda: run('b2', crystal.Crystal(np.eye(3), [[np.zeros(3)], [0.5*np.ones(3)]]), np.array([[2,0,0],[0,2,0],[0,0,3]]), (1,), 1.01, 3, 0, 1.01),
 'hcp': lambda: run('hcp', crystal.Crystal.HCP(1.), np.array([[3,0,0],[0,3,0],[0,0,2]]), (), 1.01, 3, 0, 1.01),
 'omega': lambda: run('omega', crystal.Crystal(np.array([[1/2,1/2,0.],[-np.sqrt(3/4),np.sqrt(3/4),0.],[0.,0.,np.sqrt(3/8)]]), [np.zeros(3), np.array([1/3,2/3,0.5]), np.array([2/3,1/3,0.5])]), np.array([[2,0,0],[0,2,0],[0,0,3]]), (), 0.7, 3, 0, 0.7),
 'rocksalt': lambda: run('rocksalt', crystal.Crystal(np.array([[0.,.5,.5],[.5,0.,.5],[.5,.5,0.]]), [[np.zeros(3)], [0.5*np.ones(3)]]), np.array([[2,1,0],[0,2,0],[0,1,3]]), (1,), 0.75, 3, 0, 0.75),
}
for k in (sys.argv[2:] or cases):
    try: cases[k]()
    except Exception as e:
        print(k, 'EXC', type(e).__name__, e); traceback.print_exc(limit=4)
