import sys, os, numpy as np, itertools, traceback, pickle
sys.path.insert(0, '/repo')
from onsager import crystal
src = open('/tmp/explore/quick6.py').read().split('def brute_D')[0]
sys.argv = ['x', sys.argv[1], sys.argv[2]]
exec(src)
nfail = 0; n = 0; nexc = 0
for t in range(int(sys.argv[2])):
    dim = 3 if rng.uniform() < 0.6 else 2
    try:
        P = randcrys(dim)
    except Exception as e:
        print('gen exc', e); continue
    # supercell
    while True:
        S = rng.integers(-2, 3, size=(dim, dim))
        det = int(round(np.linalg.det(S)))
        if 2 <= abs(det) <= 6: break
    invS = np.linalg.inv(S)
    # all translations in supercell
    trans = []
    rngN = range(-6, 7)
    for nv in itertools.product(rngN, repeat=dim):
        tv = crystal.incell(invS @ np.array(nv))
        if not any(np.allclose(crystal.inhalf(tv - u), 0, atol=1e-7) for u in trans): trans.append(tv)
        if len(trans) == abs(det): break
    assert len(trans) == abs(det), (len(trans), det)
    newbasis = []
    for atomlist in P.basis:
        lis = [crystal.incell(invS @ u + tv + 1e-10 * rng.normal(size=dim)) for u in atomlist for tv in trans]
        perm = rng.permutation(len(lis))
        newbasis.append([lis[k] for k in perm])
    latt = P.lattice @ S
    n += 1
    try:
        Q = crystal.Crystal(latt, newbasis)
    except Exception as e:
        nexc += 1
        print('EXC', type(e).__name__, e, 'dim', dim, 'det', det, 'P.N', P.N)
        pickle.dump((P.lattice, P.basis, S, latt, newbasis), open('redfail_%d.pkl' % nexc, 'wb'))
        continue
    ok = (np.isclose(Q.volume / Q.N, P.volume / P.N) and [len(a) for a in Q.basis] == [len(a) for a in P.basis]
          and np.linalg.det(Q.lattice) > 0 and len(Q.G) == len(P.G))
    if not ok:
        nfail += 1
        print('FAIL dim', dim, 'det', det, 'P.N', P.N, 'Q.N', Q.N, 'vol/atom', P.volume / P.N, Q.volume / Q.N, 'G', len(P.G), len(Q.G), 'detQ', np.linalg.det(Q.lattice))
        pickle.dump((P.lattice, P.basis, S, latt, newbasis), open('redbad_%d.pkl' % nfail, 'wb'))
print('n', n, 'fail', nfail, 'exc', nexc)
