import sys, numpy as np
sys.path.insert(0,'/repo')
from onsager import crystal, OnsagerCalc
from torus import *
np.set_printoptions(precision=8, linewidth=200, suppress=True)
def mk(which):
    if which == 'omega':
        return crystal.Crystal(np.array([[1/2,1/2,0.],[-np.sqrt(3/4),np.sqrt(3/4),0.],[0.,0.,np.sqrt(3/8)]]),
              [np.zeros(3), np.array([1/3,2/3,0.5]), np.array([2/3,1/3,0.5])]), 0.7
    if which == 'rumpled':
        return crystal.Crystal(np.array([[1/2,1/2,0.],[-np.sqrt(3/4),np.sqrt(3/4),0.],[0.,0.,np.sqrt(3/8)]]),
              [np.zeros(3), np.array([1/3,2/3,0.55]), np.array([2/3,1/3,0.45])]), 0.7
    if which == 'hcp': return crystal.Crystal.HCP(1.), 1.01
    if which == 'dtria': return crystal.Crystal(np.array([[1.,0.],[0.,np.sqrt(3.)]]), [np.zeros(2), np.array([0.5,0.4])]), 1.2
if __name__ != "__main__": raise SystemExit
which = sys.argv[1]; seed = int(sys.argv[2]); Nth = int(sys.argv[3]) if len(sys.argv) > 3 else 1
crys, cut = mk(which)
rng = np.random.default_rng(seed)
jn = crys.jumpnetwork(0, cut); sl = crys.sitelist(0)
d = OnsagerCalc.VacancyMediated(crys, 0, sl, jn, Nth)
print('sitelist', sl, 'njumps', len(jn), 'OS', len(d.OSindices))
bFV = rng.normal(size=len(sl)); bFV -= bFV.min()
bFT0 = rng.normal(size=len(jn)) + 2
# tracer: solute == host
bFS = np.zeros(len(sl)); bFSV = np.zeros(d.thermo.Nstars)
bFT1 = np.array([bFT0[jt] for jt in d.om1_jt]); bFT2 = np.array([bFT0[jt] for jt in d.om2_jt])
L0, Lss, Lsv, L1 = d.Lij(bFV, bFS, bFSV, bFT0, bFT1, bFT2)
print('L0vv\n', L0, '\nLss\n', Lss, '\nLsv+L0vv\n', Lsv + L0, '\nL1vv\n', L1)
