import sys, os, numpy as np, pickle
sys.path.insert(0, os.environ.get('REPO', '/repo'))
from onsager import crystal, OnsagerCalc, GFcalc
np.set_printoptions(precision=8, linewidth=200, suppress=True)
c = pickle.load(open(sys.argv[1], 'rb'))
crys = crystal.Crystal(c['latt'], c['basis'])
print(crys); print('NG', len(crys.G), 'Wyckoff', crys.sitelist(0))
jn = crys.jumpnetwork(0, c['cutoff']); sl = crys.sitelist(0)
print('njump classes', len(jn), [len(j) for j in jn])
diff = OnsagerCalc.Interstitial(crys, 0, sl, jn)
pre, bE, preT, bET = c['pre'], c['bE'], c['preT'], c['bET']
D = diff.diffusivity(pre, bE, preT, bET)
print('D code\n', D)

import importlib.util
src = open('/tmp/explore/quick6.py').read().split('worst = 0; nVB')[0].replace('if __name__ != "__main__": raise ImportError("stop")', '')
sys.argv = ['x', '0', '0']
exec(src)
Db = brute_D(crys, 0, sl, jn, pre, bE, preT, bET)
print('D brute\n', Db)
# Bloch eigenvalue oracle
N = len(crys.basis[0]); inv = [0]*N
for w, s_ in enumerate(sl):
    for i in s_: inv[i] = w
lnp = np.array([np.log(pre[inv[i]]) - bE[inv[i]] for i in range(N)]); p = np.exp(lnp - lnp.max()); p /= p.sum()
def lam(k):
    Q = np.zeros((N, N), dtype=complex)
    for J, jl in enumerate(jn):
        for (i, j), dx in jl:
            rate = preT[J] / pre[inv[i]] * np.exp(bE[inv[i]] - bET[J])
            Q[i, j] += np.sqrt(p[i]) * rate / np.sqrt(p[j]) * np.exp(1j * np.dot(k, dx)); Q[i, i] -= rate
    return np.linalg.eigvalsh(Q)[-1]
h = 1e-3
Dbl = np.zeros((crys.dim, crys.dim))
for a in range(crys.dim):
    for b in range(crys.dim):
        ea, eb = np.eye(crys.dim)[a]*h, np.eye(crys.dim)[b]*h
        Dbl[a, b] = -0.5 * (lam(ea+eb) - lam(ea-eb) - lam(-ea+eb) + lam(-ea-eb)) / (4*h*h)
print('D bloch\n', Dbl)
print('VectorBasis NV', diff.NV, 'VB shapes', diff.VectorBasis.shape)
for a, va in enumerate(diff.VectorBasis): print(a, va)
