import sys, os, numpy as np, time
sys.path.insert(0, '/repo')
from onsager import crystal, OnsagerCalc
from diag_crys import mk
np.set_printoptions(precision=6, linewidth=200, suppress=True)
rng = np.random.default_rng(int(sys.argv[2]))
which = sys.argv[1]
if which == 'b2': crys, cut = crystal.Crystal(np.eye(3), [[np.zeros(3)], [np.array([0.45,0.45,0.45])]]), 1.01
elif which == 'lieb': crys, cut = crystal.Crystal(np.eye(2), [np.zeros(2), np.array([0.5,0.]), np.array([0.,0.5])]), 0.6
elif which == 'diamond': crys, cut = crystal.Crystal(np.array([[0.,.5,.5],[.5,0.,.5],[.5,.5,0.]]), [np.zeros(3), np.array([.25,.25,.25])]), 0.45
else: crys, cut = mk(which)
jn = crys.jumpnetwork(0, cut); sl = crys.sitelist(0); nW = len(sl)
d = OnsagerCalc.VacancyMediated(crys, 0, sl, jn, 1)
mask = sys.argv[3] if len(sys.argv) > 3 else 'VB012'
sc = 1.0
bFV = rng.normal(size=nW)*sc if 'V' in mask else np.zeros(nW); bFV -= bFV.min()
a = [bFV, np.zeros(nW), rng.normal(size=d.thermo.Nstars)*sc if 'B' in mask else np.zeros(d.thermo.Nstars),
     (rng.normal(size=len(jn))*sc if '0' in mask else np.zeros(len(jn)))+2,
     (rng.normal(size=len(d.om1_jn))*sc if '1' in mask else np.zeros(len(d.om1_jn)))+2,
     (rng.normal(size=len(d.om2_jn))*sc if '2' in mask else np.zeros(len(d.om2_jn)))+2]
print(which, 'sites', sl, 'om2 classes', len(d.om2_jn), 'OS', len(d.OSindices), 'Nvstars', d.vkinetic.Nvstars)
om2_sv = [n for n in range(len(d.om2expansion)) if not np.allclose(d.om2expansion[n], 0)]
print(' om2_sv_indices', len(om2_sv))
for s in (1e4, 1e6, 1e8, 1e9, 1e10, 1e12, 1e14, 1e16):
    b = [x.copy() for x in a]; b[5] = a[5] - np.log(s)
    Ld = d.Lij(*b); Lf = d.Lij(*b, large_om2=0)
    print('  %.0e default Lss %s  forced-large Lss %s  Lsv %s' % (s, Ld[1].diagonal(), Lf[1].diagonal(), Ld[2].diagonal()))
