import sys, os, numpy as np
sys.path.insert(0, '/repo')
from onsager import crystal, GFcalc
from diag_crys import mk
rng = np.random.default_rng(3)
for which in ('fcc', 'hcp', 'omega', 'rumpled'):
    crys, cut = mk(which)
    jn = crys.jumpnetwork(0, cut); sl = crys.sitelist(0); nW = len(sl)
    bFV = rng.normal(size=nW); bFV -= bFV.min(); bFT0 = rng.normal(size=len(jn)) + 2
    gf = GFcalc.GFCrystalcalc(crys, 0, sl, jn, 4)
    gf.SetRates(np.ones(nW), bFV, np.ones(len(jn)), bFT0)
    N = len(crys.basis[0])
    p = np.array([np.exp(-bFV[gf.invmap[i]]) for i in range(N)]); p /= p.sum()
    D = gf.D; Dinv = np.linalg.inv(D); detD = np.linalg.det(D)
    print(which, 'kptgrid', gf.kptgrid)
    for R in ([1,0,0],[2,1,0],[3,2,1],[4,4,2],[5,0,3],[6,6,6]):
        for (i, j) in ((0, 0), (0, N-1)):
            x = crys.lattice @ (np.array(R) + crys.basis[0][j] - crys.basis[0][i])
            pred = -np.sqrt(p[i]*p[j]) * crys.volume / (4*np.pi*np.sqrt(detD)*np.sqrt(x @ Dinv @ x))
            val = gf(i, j, x)
            print('   R', R, (i,j), 'g %.6e pred %.6e ratio %.4f' % (val, pred, val/pred))
