import sys, os, numpy as np, traceback, io, tempfile
sys.path.insert(0, os.environ.get('REPO', '/repo'))
import h5py, yaml
from onsager import crystal, OnsagerCalc, supercell, GFcalc, crystalStars as stars, cluster
from diag_crys import mk
np.set_printoptions(precision=6, linewidth=200, suppress=True)
def attempt(name, f):
    try:
        r = f(); print('[ok]', name, r)
    except Exception as e:
        print('[EXC]', name, type(e).__name__, str(e)[:300]); traceback.print_exc(limit=3)
def hdf(which, Nth=1, populate=True):
    crys, cut = mk(which)
    jn = crys.jumpnetwork(0, cut); sl = crys.sitelist(0)
    d = OnsagerCalc.VacancyMediated(crys, 0, sl, jn, Nth)
    rng = np.random.default_rng(0)
    nW = len(sl)
    def ra():
        bFV = rng.normal(size=nW); bFV -= bFV.min()
        return (bFV, np.zeros(nW), rng.normal(size=d.thermo.Nstars)*0.5, rng.normal(size=len(jn))*.3+2, rng.normal(size=len(d.om1_jn))*0.5+2, rng.normal(size=len(d.om2_jn))*0.5+2)
    a1, a2 = ra(), ra()
    if populate: r1 = d.Lij(*a1)
    f = h5py.File('x.h5', 'w', driver='core', backing_store=False)
    d.addhdf5(f.create_group('D'))
    d2 = OnsagerCalc.VacancyMediated.loadhdf5(f['D'])
    out = []
    for a in (a1, a2):
        x, y = d.Lij(*a), d2.Lij(*a)
        out.append(max(np.abs(p - q).max() for p, q in zip(x, y)))
    out.append(d.tags == d2.tags)
    return out
for w in ('fcc', 'hcp', 'sq', 'honey', 'dtria', 'omega'):
    attempt('hdf5 ' + w, lambda: hdf(w))
    attempt('hdf5 nopop ' + w, lambda: hdf(w, populate=False))
def yam(which):
    crys, cut = mk(which)
    c2 = yaml.load(yaml.dump(crys), Loader=yaml.Loader)
    ok = [np.allclose(crys.lattice, c2.lattice), all(np.allclose(a, b) for a, b in zip(sum(crys.basis, []), sum(c2.basis, []))), crys.G == c2.G]
    g = next(iter(crys.G))
    g2 = yaml.load(yaml.dump(g), Loader=yaml.Loader)
    ok.append(g == g2)
    return ok
for w in ('fcc', 'hcp', 'sq', 'honey'):
    attempt('yaml ' + w, lambda: yam(w))
