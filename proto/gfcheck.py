import sys, os, numpy as np
sys.path.insert(0, os.environ.get('REPO','/repo'))
from onsager import crystal, OnsagerCalc, GFcalc
np.set_printoptions(precision=8, linewidth=200, suppress=True)
from diag_crys import mk
which = sys.argv[1]; seed = int(sys.argv[2]); mask = sys.argv[3]; Nmax = int(sys.argv[4]) if len(sys.argv)>4 else 4
crys, cut = mk(which)
rng = np.random.default_rng(seed)
jn = crys.jumpnetwork(0, cut); sl = crys.sitelist(0)
nW = len(sl)
bFV = rng.normal(size=nW) if 'V' in mask else np.zeros(nW); bFV -= bFV.min()
bFT0 = (rng.normal(size=len(jn)) if '0' in mask else np.zeros(len(jn))) + 2
gf = GFcalc.GFCrystalcalc(crys, 0, sl, jn, Nmax)
gf.SetRates(np.ones(nW), bFV, np.ones(len(jn)), bFT0)
N = len(crys.basis[0]); inv = gf.invmap
E = np.array([bFV[inv[i]] for i in range(N)])
print('kptgrid', gf.kptgrid, 'Nkpt', gf.Nkpt, 'D', gf.D.flatten())
# residual of lattice equation at a set of (i, j, x)
maxres = 0
basis = crys.basis[0]
import itertools
for i in range(N):
  for j in range(N):
    for R in itertools.product(range(-2,3), repeat=crys.dim):
        x = crys.lattice @ (np.array(R) + basis[j] - basis[i])   # from i to j
        # sum over jumps out of i: i -> k with dx: g(k, j, x - dx)
        tot = 0.
        for J, jl in enumerate(jn):
            for (a, b), dx in jl:
                if a != i: continue
                symm = np.exp(-bFT0[J] + 0.5*(E[a]+E[b]))
                rate = np.exp(-bFT0[J] + E[a])
                tot += symm * gf(b, j, x - dx) - rate * gf(i, j, x)
        delta = 1. if (i == j and not any(R)) else 0.
        maxres = max(maxres, abs(tot - delta))
print('max residual', maxres, ' g(0,0,0)=', gf(0,0,np.zeros(crys.dim)))
