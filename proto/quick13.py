import sys, os, numpy as np, itertools, traceback, warnings
sys.path.insert(0, '/repo')
from onsager import crystal, supercell
src = open('/tmp/explore/quick6.py').read().split('def brute_D')[0]
sys.argv = ['x', sys.argv[1], sys.argv[2]]
exec(src)
nsup = 0; badgeo = 0; badeq = 0; nwarn = 0; nrel = 0; nunrel = 0; badunrel = 0
for t in range(int(sys.argv[2])):
    try: crys = randcrys(3)
    except Exception as e: continue
    if crys.N > 4: continue
    while True:
        S = rng.integers(-2, 3, size=(3, 3))
        if 1 <= abs(round(np.linalg.det(S))) <= 4: break
    with warnings.catch_warnings(record=True) as w:
        warnings.simplefilter('always')
        try: sup = supercell.Supercell(crys, S, Nsolute=1)
        except Exception as e: print('EXC', type(e).__name__, e); continue
        nwarn += len(w)
    nsup += 1
    # geometry of each op
    for g in sup.G:
        pi = g.indexmap[0]
        if sorted(pi) != list(range(len(sup.pos))): badgeo += 1; break
        for n, u in enumerate(sup.pos):
            v = g.rot @ u + g.trans
            if not np.allclose(crystal.inhalf(v - sup.pos[pi[n]]), 0, atol=1e-7): badgeo += 1; break
        else: continue
        break
    # occupations
    sup.fillperiodic((0, 0))
    nsite = len(sup.pos)
    a = sup.copy()
    for k in rng.choice(nsite, size=min(3, nsite), replace=False):
        a[int(k)] = int(rng.choice([-1, crys.Nchem]))
    g = list(sup.G)[rng.integers(len(sup.G))]
    b = g * a
    # random reorder
    mapping = [list(rng.permutation(len(cl))) for cl in b.chemorder]
    b.reorder(mapping)
    g2, m2 = a.equivalencemap(b)
    nrel += 1
    if g2 is None: badeq += 1; print('related pair not found'); continue
    c = (g2 * a); c.reorder(m2)
    if c != b: badeq += 1; print('mapping wrong')
    # unrelated: change one more site
    d = b.copy()
    occ_sites = [n for n in range(nsite) if d.occ[n] == 0]
    if occ_sites:
        d[int(occ_sites[0])] = -1
        # brute: any op mapping a.occ to d.occ?
        exists = False
        for gg in sup.G:
            go = np.empty_like(a.occ); 
            for n, gn in enumerate(gg.indexmap[0]): go[gn] = a.occ[n]
            if np.all(go == d.occ): exists = True; break
        g3, m3 = a.equivalencemap(d)
        nunrel += 1
        if (g3 is not None) != exists: badunrel += 1
print('supercells', nsup, 'warnings', nwarn, 'bad geometry', badgeo, 'related', nrel, 'bad', badeq, 'unrelated', nunrel, 'bad', badunrel)
