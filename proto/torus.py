"""Exploratory: exact torus Markov chain oracle for VacancyMediated.Lij"""
import numpy as np, itertools, sys, time
sys.path.insert(0, __import__('os').environ.get('REPO','/repo'))
from onsager import crystal, OnsagerCalc, crystalStars as stars

def inhalf_int(R, L):
    # map integer vector mod L into centered range
    R = np.asarray(R) % L
    return np.where(R > L // 2, R - L, R) if L % 2 == 1 else np.where(R >= (L + 1) // 2 + (0), R - L, R)

class Torus:
    def __init__(self, diff, L):
        self.d = diff; self.L = L
        crys, chem = diff.crys, diff.chem
        self.crys, self.chem = crys, chem
        self.dim = crys.dim
        self.N = len(crys.basis[chem])
        self.cells = [np.array(t) for t in itertools.product(range(L), repeat=self.dim)]
        self.M = len(self.cells)
        self.cellidx = {tuple(c): n for n, c in enumerate(self.cells)}
        # site index = cell*N + j
        # lattice jumps: (class, i, j, dR, dx)
        self.jumps = []
        for jt, jl in enumerate(diff.om0_jn):
            for (i, j), dx in jl:
                dR = np.round(np.dot(crys.invlatt, dx) - crys.basis[chem][j] + crys.basis[chem][i]).astype(int)
                self.jumps.append((jt, i, j, dR, dx))
    def site(self, R, j):
        return self.cellidx[tuple(np.asarray(R) % self.L)] * self.N + j
    def canon(self, R):
        L = self.L
        R = np.asarray(R) % L
        return np.where(R > L / 2, R - L, R)

    def bareGF(self, bFV, bFT0):
        """symmetrized bare torus rate matrix pseudo-inverse"""
        d = self.d
        n = self.M * self.N
        Om = np.zeros((n, n))
        E = np.array([bFV[d.invmap[j]] for j in range(self.N)])
        for c, R in enumerate(self.cells):
            for (jt, i, j, dR, dx) in self.jumps:
                a = c * self.N + i
                b = self.site(R + dR, j)
                rate = np.exp(-bFT0[jt] + E[i])
                symm = np.exp(-bFT0[jt] + 0.5 * (E[i] + E[j]))
                Om[a, b] += symm
                Om[a, a] -= rate
        self.g0 = np.linalg.pinv(Om, hermitian=True)
        return self.g0

    def g(self, i, j, dx):
        crys, chem = self.crys, self.chem
        dR = np.round(np.dot(crys.invlatt, dx) - crys.basis[chem][j] + crys.basis[chem][i]).astype(int)
        return self.g0[self.site(np.zeros(self.dim, dtype=int), i), self.site(dR, j)]

    def chain(self, bFV, bFS, bFSV, bFT0, bFT1, bFT2):
        d = self.d
        N, M, L = self.N, self.M, self.L
        inv = d.invmap
        # lookup tables from the calculator's classification
        thermo = {}
        for si, star in enumerate(d.thermo.stars):
            for s in star:
                PS = d.thermo.states[s]
                thermo[(PS.i, PS.j, tuple(PS.R))] = si
        om1 = {}
        for k, jl in enumerate(d.om1_jn):
            for (a, b), dx in jl:
                Pa, Pb = d.kinetic.states[a], d.kinetic.states[b]
                key = (Pa.i, Pa.j, tuple(Pa.R), Pb.j, tuple(Pb.R))
                assert key not in om1 or om1[key] == k
                om1[key] = k
        om2 = {}
        for k, jl in enumerate(d.om2_jn):
            for (a, b), dx in jl:
                Pa = d.kinetic.states[a]
                key = (Pa.i, Pa.j, tuple(Pa.R))
                assert key not in om2 or om2[key] == k
                om2[key] = k
        # states
        states = []
        sidx = {}
        for i in range(N):
            for c, R in enumerate(self.cells):
                for j in range(N):
                    if c == self.cellidx[(0,) * self.dim] and j == i: continue
                    sidx[(i, c, j)] = len(states)
                    states.append((i, c, j))
        ns = len(states)
        E = np.zeros(ns)
        for n, (i, c, j) in enumerate(states):
            Rc = self.canon(self.cells[c])
            E[n] = bFS[inv[i]] + bFV[inv[j]]
            k = thermo.get((i, j, tuple(Rc)))
            if k is not None: E[n] += bFSV[k]
        Q = np.zeros((ns, ns))
        dim = self.dim
        bS = np.zeros((ns, dim)); bV = np.zeros((ns, dim))
        D0 = {k: np.zeros((dim, dim)) for k in ('ss', 'sv', 'vv')}
        used1, used2 = set(), set()
        for n, (i, c, j) in enumerate(states):
            R = self.cells[c]
            Rc = self.canon(R)
            for (jt, a, b, dR, dx) in self.jumps:
                if a != j: continue
                Rn = R + dR
                cn = self.cellidx[tuple(Rn % L)]
                if cn == self.cellidx[(0,) * dim] and b == i:
                    # exchange
                    k = om2.get((i, j, tuple(Rc)))
                    assert k is not None, 'exchange not classified'
                    used2.add(k)
                    ETS = bFT2[k]
                    m = sidx[(j, self.cellidx[tuple((-R) % L)], i)]
                    dxs, dxv = -dx, dx
                else:
                    Rnc = self.canon(Rn)
                    k = om1.get((i, j, tuple(Rc), b, tuple(Rnc)))
                    if k is not None:
                        ETS = bFT1[k]; used1.add(k)
                    else:
                        ETS = bFT0[jt] + bFS[inv[i]]
                    m = sidx[(i, cn, b)]
                    dxs, dxv = 0 * dx, dx
                rate = np.exp(-ETS + E[n])
                symm = np.exp(-ETS + 0.5 * (E[n] + E[m]))
                Q[n, m] += symm
                Q[n, n] -= rate
                w = np.exp(-ETS)  # = p_n * rate (unnormalized)
                sq = np.exp(-0.5 * E[n])
                bS[n] += sq * rate * dxs
                bV[n] += sq * rate * dxv
                D0['ss'] += 0.5 * w * np.outer(dxs, dxs)
                D0['sv'] += 0.5 * w * np.outer(dxs, dxv)
                D0['vv'] += 0.5 * w * np.outer(dxv, dxv)
        assert np.allclose(Q, Q.T)
        Qp = np.linalg.pinv(Q, hermitian=True)
        num = {}
        num['ss'] = D0['ss'] + bS.T @ Qp @ bS
        num['sv'] = D0['sv'] + bS.T @ Qp @ bV
        num['vv'] = D0['vv'] + bV.T @ Qp @ bV
        self.D0 = D0; self.corr = {'ss': bS.T @ Qp @ bS, 'sv': bS.T @ Qp @ bV, 'vv': bV.T @ Qp @ bV}
        Z = np.sum(np.exp(-E))
        self.used1, self.used2 = used1, used2
        return num, Z

class GFstub:
    def __init__(self, real, torus):
        self.real, self.torus = real, torus
    def SetRates(self, pre, betaene, preT, betaeneT):
        self.real.SetRates(pre, betaene, preT, betaeneT)
        assert np.allclose(pre, 1) and np.allclose(preT, 1)
        self.torus.bareGF(betaene, betaeneT)
    def Diffusivity(self): return self.real.Diffusivity()
    def biascorrection(self): return self.real.biascorrection()
    def __call__(self, i, j, dx): return self.torus.g(i, j, dx)

def baresite(diff, tor, bFV, bFT0):
    """per-site bare contributions c_j (unnormalized) for unit-cell chain"""
    N, dim = tor.N, tor.dim
    E = np.array([bFV[diff.invmap[j]] for j in range(N)])
    Q = np.zeros((N, N)); b = np.zeros((N, dim)); c = np.zeros((N, dim, dim))
    for (jt, i, j, dR, dx) in tor.jumps:
        rate = np.exp(-bFT0[jt] + E[i])
        Q[i, j] += np.exp(-bFT0[jt] + 0.5 * (E[i] + E[j])); Q[i, i] -= rate
        b[i] += np.exp(-0.5 * E[i]) * rate * dx
        c[i] += 0.5 * np.exp(-bFT0[jt]) * np.outer(dx, dx)
    eta = np.linalg.pinv(Q, hermitian=True) @ b
    for i in range(N):
        c[i] += 0.5 * (np.outer(b[i], eta[i]) + np.outer(eta[i], b[i]))
    return c

def predict(diff, tor, args):
    bFV, bFS, bFSV, bFT0, bFT1, bFT2 = args
    num, Z = tor.chain(*args)
    N, M = tor.N, tor.M
    SS = sum(np.exp(-bFS[diff.invmap[i]]) for i in range(N))
    SV = sum(np.exp(-bFV[diff.invmap[i]]) for i in range(N))
    pref = N / (SS * SV)
    return pref * num['ss'], pref * num['sv'], pref * num['vv'], Z, SS * SV * M

if __name__ == '__main__':
    rng = np.random.default_rng(int(sys.argv[1]) if len(sys.argv) > 1 else 0)
    which = sys.argv[2] if len(sys.argv) > 2 else 'fcc'
    L = int(sys.argv[3]) if len(sys.argv) > 3 else 6
    Nth = int(sys.argv[4]) if len(sys.argv) > 4 else 1
    if which == 'fcc':
        crys = crystal.Crystal.FCC(1.); cut = 0.8
    elif which == 'bcc':
        crys = crystal.Crystal.BCC(1.); cut = 0.87
    elif which == 'hcp':
        crys = crystal.Crystal.HCP(1.); cut = 1.01
    elif which == 'sc':
        crys = crystal.Crystal(np.eye(3), [np.zeros(3)]); cut = 1.01
    elif which == 'sq':
        crys = crystal.Crystal(np.eye(2), [np.zeros(2)]); cut = 1.01
    elif which == 'b2':
        crys = crystal.Crystal(np.eye(3), [[np.zeros(3)], [np.array([0.45, 0.45, 0.45])]]); cut = 1.01
    elif which == 'honey':
        crys = crystal.Crystal(np.array([[0.5,0.5],[-np.sqrt(0.75),np.sqrt(0.75)]]), [np.array([1/3,2/3]), np.array([2/3,1/3])]); cut=0.6
    elif which == 'rumpled':
        crys = crystal.Crystal(np.array([[1/2,1/2,0.],[-np.sqrt(3/4),np.sqrt(3/4),0.],[0.,0.,np.sqrt(3/8)]]),
              [np.zeros(3), np.array([1/3,2/3,0.55]), np.array([2/3,1/3,0.45])]); cut = 0.7
    elif which == 'omega':
        crys = crystal.Crystal(np.array([[1/2,1/2,0.],[-np.sqrt(3/4),np.sqrt(3/4),0.],[0.,0.,np.sqrt(3/8)]]),
              [np.zeros(3), np.array([1/3,2/3,0.5]), np.array([2/3,1/3,0.5])]); cut = 0.7
    elif which == 'dtria':
        crys = crystal.Crystal(np.array([[1.,0.],[0.,np.sqrt(3.)]]), [np.zeros(2), np.array([0.5,0.4])]); cut = 1.2
    elif which == 'l12':
        crys = crystal.Crystal(np.eye(3), [np.zeros(3), np.array([0.05,0.5,0.5]), np.array([0.5,0.05,0.5]), np.array([0.5,0.5,0.05])]); cut=0.99
    chem = 0
    jn = crys.jumpnetwork(chem, cut); sl = crys.sitelist(chem)
    t0 = time.time()
    diff = OnsagerCalc.VacancyMediated(crys, chem, sl, jn, Nth)
    print('build', time.time() - t0, 'Nvstars', diff.vkinetic.Nvstars, 'kin states', diff.kinetic.Nstates, 'OS', len(diff.OSindices))
    nW = len(sl)
    sc = 0.7
    bFV = rng.normal(size=nW) * sc; bFV -= bFV.min()
    bFS = rng.normal(size=nW) * sc; bFS -= bFS.min()
    bFSV = rng.normal(size=diff.thermo.Nstars) * sc
    bFT0 = rng.normal(size=len(diff.om0_jn)) * sc + 2
    bFT1 = rng.normal(size=len(diff.om1_jn)) * sc + 2
    bFT2 = rng.normal(size=len(diff.om2_jn)) * sc + 2
    args = (bFV, bFS, bFSV, bFT0, bFT1, bFT2)
    t0 = time.time()
    Lr = diff.Lij(*args)
    print('real Lij', time.time() - t0)
    tor = Torus(diff, L)
    real = diff.GFcalc
    diff.GFcalc = GFstub(real, tor)
    diff.clearcache()
    t0 = time.time()
    Ls = diff.Lij(*args)
    print('stub Lij', time.time() - t0)
    t0 = time.time()
    pss, psv, pvv, Z, Z0 = predict(diff, tor, args)
    print('chain', time.time() - t0, 'used om1', len(tor.used1), '/', len(diff.om1_jn), 'om2', len(tor.used2), '/', len(diff.om2_jn))
    L0vv = Ls[0]
    p1vv = pvv - tor.N * tor.M * L0vv
    np.set_printoptions(precision=10, linewidth=200)
    print('Z/Z0', Z / Z0)
    for name, a, b, c in (('ss', Ls[1], pss, Lr[1]), ('sv', Ls[2], psv, Lr[2]), ('1vv', Ls[3], p1vv, Lr[3])):
        print(name, 'stub', a.flatten()[:4], '\n   chain', b.flatten()[:4], '\n   real', c.flatten()[:4], '\n   maxabs stub-chain', np.abs(a - b).max(), 'real-chain', np.abs(c-b).max())
    MN = tor.N * tor.M
    c = baresite(diff, tor, bFV, bFT0)
    SSv = sum(np.exp(-bFS[diff.invmap[i]]) for i in range(tor.N)); SVv = sum(np.exp(-bFV[diff.invmap[i]]) for i in range(tor.N))
    print('check sum c / SV == L0vv', np.abs(c.sum(axis=0) / SVv - L0vv).max())
    ref = sum(np.exp(-bFS[diff.invmap[i]]) * (tor.M * SVv * L0vv - c[i]) for i in range(tor.N))
    cc = pvv - tor.N / (SSv * SVv) * ref
    print('cand c (per-site ref)', np.abs(cc - Ls[3]).max(), 'scale', np.abs(Ls[3]).max())
    ca = pvv * (Z0 / Z) - MN * L0vv
    cb = pvv - MN * L0vv - L0vv * MN * (Z - Z0) / Z0
    print('L0vv', L0vv[0,0], 'cand a', np.abs(ca - Ls[3]).max(), 'cand b', np.abs(cb - Ls[3]).max())
