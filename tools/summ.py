#!/usr/bin/env python3
import json,glob,collections,re,sys
pid=sys.argv[1]
rows=collections.defaultdict(list)
for f in glob.glob('/verif/replay/%s-*.json'%pid):
    d=json.load(open(f))
    for v in d['violations']:
        m=re.search(r"'crystal': '(\w+)', 'Nthermo': (\d), 'mask': '(\w*)'", v['detail'])
        e=re.search(r"err=([\d.e+-]+) tol=([\d.e+-]+) scale=([\d.e+-]+)", v['detail'])
        rel=float(e.group(1))/float(e.group(3)) if e else float('nan')
        rows[(v['clause'], m.group(1) if m else '?')].append((rel, m.group(3) if m else '?'))
for k,v in sorted(rows.items()):
    print(k, len(v), 'rel max %.2e min %.2e'%(max(x[0] for x in v), min(x[0] for x in v)), sorted(set(x[1] for x in v))[:8])
