#!/bin/sh
# tools/seeded_all.sh <logfile> [ids...] : confirms every seeded change (seeded/<id>/) in a scratch worktree of /repo HEAD and runs the
# check of its property (plus related checks) against it. Safe to run several instances on disjoint id lists.
cd "$(dirname "$0")/.."
LOG=$1; shift
IDS=${*:-$(ls seeded)}
: > $LOG
for id in $IDS; do
  case $id in
    C02) cs="C02 C04";; C04) cs="C04 C02";; C05) cs="C05 C08";; C08) cs="C08 C05 C03";; C09) cs="C09 C19";; C19) cs="C19 C09";;
    C26) cs="C26 C01";; C03) cs="C03 C01";; C25) cs="C25 C24";;
    C01b) cs="C01 C03";; C03b) cs="C03 C02";; C04b) cs="C04 C02";; C05b) cs="C05 C02";; C06b) cs="C06 C01";; C07b) cs="C07 C01";;
    C14b) cs="C14 C10";; C17b) cs="C17 C10";; C32b) cs="C32 C33";;
    *) cs="$(echo $id | cut -c1-3)";;
  esac
  tools/seeded.sh $id "$cs" >> $LOG 2>&1
done
