#!/bin/sh
# tools/seeded_all.sh <logfile> [ids...] : confirms every seeded change and runs its own check (plus related checks) against it
cd "$(dirname "$0")/.."
LOG=$1; shift
IDS=${*:-$(ls seeded)}
: > $LOG
for id in $IDS; do
  case $id in
    C02) cs="C02 C04";; C04) cs="C04 C02";; C05) cs="C05 C08";; C08) cs="C08 C05 C03";; C09) cs="C09 C19";; C19) cs="C19 C09";;
    C26) cs="C26 C01";; C03) cs="C03 C01";; C25) cs="C25 C24";; *) cs="$id";;
  esac
  tools/seeded.sh $id "$cs" >> $LOG 2>&1
done

