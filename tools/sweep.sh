#!/bin/sh
# tools/sweep.sh "<ids>" "<seeds>" [tier]  : runs the checks and prints one line per run
cd "$(dirname "$0")/.."
for s in $2; do for p in $1; do
  out=$(./check $p --seed $s --tier ${3:-quick} 2>&1); rc=$?
  echo "rc=$rc $(echo "$out" | grep "tier=" | tail -1)"
  [ $rc -ne 0 ] && echo "$out" | grep "VIOLATION\|INCONCLUSIVE" | head -3
done; done
