#!/usr/bin/env python3
"""Runs the repository's pinned baseline (hooks off) and compares with /root/.vp/BASELINE.json stable_pass."""
import json, subprocess, sys, xml.etree.ElementTree as ET, os, tempfile
b = json.load(open('/root/.vp/BASELINE.json'))
out = tempfile.mktemp(suffix='.xml')
cmd = b['cmd'].replace('<file>', out)
env = {k: v for k, v in os.environ.items() if k != 'ONSAGER_VERIF'}
r = subprocess.run(cmd, shell=True, env=env, capture_output=True, text=True)
passed = set()
for tc in ET.parse(out).getroot().iter('testcase'):
    if not any(ch.tag in ('failure', 'error', 'skipped') for ch in tc):
        passed.add('%s::%s' % (tc.get('classname'), tc.get('name')))
want = set(b['stable_pass'])
missing = sorted(want - passed)
print('stable_pass', len(want), 'passed now', len(passed), 'missing', len(missing))
for m in missing[:20]: print('  MISSING', m)
print(r.stdout[-300:])
os.remove(out)
sys.exit(1 if missing else 0)
