#!/usr/bin/env python3
"""Writes seeded/<id>/meta.json and the seeded-changes table of DESIGN.md from the confirmation logs produced by
tools/seeded.sh (pass the log files as arguments)."""
import json, os, re, sys
ROOT = os.path.dirname(os.path.dirname(os.path.abspath(__file__)))

NEEDS = {
    'C01': ('Lij step 2: binding energies added to kinetic stars through a slice instead of thermo2kin',
            'thermodynamic stars that are not the first kinetic stars in the same order: simple cubic / BCC at Nthermo=2, or multi-site crystals '
            'with equal-length inequivalent stars; and different binding energies on the affected stars'),
    'C02': ('Interstitial bias solver: pinv(omega, atol=crystal threshold)',
            'pseudo-inverse branch (no inversion or disconnected network, non-empty vector basis) and absolute rates below 1e-8 (barriers >= 18 kT)'),
    'C03': ('VectorStarSet.generateouter fills the upper triangle without the Cartesian transpose',
            'point group with an invariant axial vector (1, -1, 2/m, 4/m ...) and omega1 barriers without accidental symmetry: L1vv / Lsv get an antisymmetric part'),
    'C04': ('Interstitial bias solver: pinv(omega, atol=crystal threshold) (rate scaling / displacement)',
            'pseudo-inverse branch, non-zero bias, and a rate scale that takes the rates below 1e-8'),
    'C05': ('large-omega2 branch: relative cut for the null space of the exchange block',
            'two symmetry-distinct exchange classes whose rates differ by > 7e7 while the large-omega2 algorithm is active (one class lowered into the large regime)'),
    'C06': ('Lij step 2: site probabilities built with np.repeat in sitelist order, indexed by site index',
            '>= 2 Wyckoff sets with interleaved site indices (double hcp listed A,B,A,C) and different vacancy site energies'),
    'C07': ('makeLIMBpreene: "+=" became "=" for the interaction energy of thermodynamic stars',
            'non-zero solute site energy and at least one omega1/omega2 class back-filled by LIMB (the larger-range calculator)'),
    'C08': ('large-omega2 branch: extra "roundoff guard" om2min = min(om2min, 1e-8 * largest eigenvalue)',
            'two exchange classes differing by > 5e7 with the large-rate branch active'),
    'C09': ('Crystal.reduce: mult[0] uses 1/|T[m]/M| (sign lost)',
            'non-reduced multi-site cell given to the reducing constructor in an atom order that makes the first translation negative, new lattice vector not orthogonal to the others'),
    'C10': ('GFcalc.SetRates: pmax from eigenvalues paired with unrotated zone vectors',
            'anisotropic D whose principal axes are not x,y,z in ascending order (hexagonal/tetragonal with slow c axis, orthorhombic, low symmetry)'),
    'C11': ('generateJumpSymmTensorBasis: sign in the reversed-jump stabiliser test',
            'transition state whose stabiliser contains a jump-reversing 2-fold axis or mirror (non-centrosymmetric / low-symmetry crystals) and a non-invariant dipole'),
    'C12': ('losstensors: escape rates reconstructed from detailed balance after the loop',
            'jump network containing i -> i jumps (site to its own periodic image) with more than one site per cell'),
    'C13': ('loadhdf5 (VacancyMediated and GFcalc): sitelist initialised with [[]] * n (aliased lists)',
            'save/reload of a calculator whose species has >= 2 Wyckoff sets with different site energies'),
    'C14': ('vacancyThermoKinetics.__hash__ reduced to the array lengths',
            'history: a second input within allclose tolerance of an earlier one, or in-place edit of previously passed bFV/bFT0 arrays, on the same calculator'),
    'C15': ('tags2preene caches its default arrays and hands out shallow copies',
            'two tags2preene calls on one calculator: classes without data in the second call keep the numbers of the first'),
    'C16': ('Taylor reducecoeff: search for the highest surviving l steps by 2',
            'a term whose stored l exceeds its true angular order by an odd amount (cancellation (a+b)-b, or a zero-padded block)'),
    'C17': ('Taylor inversecoeff: second-order tail multiplied on the wrong side',
            'matrix-valued expansion (non-commuting) inverted to second order in the tail (lead n=0 with n=1 term and Nmax=2, ...)'),
    'C18': ('gengroup rootsofunity: 3-fold operations try cube roots only (no -1 phase)',
            'antiferromagnet (scalar spins with a spin-reversing symmetry) with a 3-fold axis'),
    'C19': ('Crystal.reduce: floor division in the coordinate-change coefficients',
            'supercell determinant 4 or 6 with an oblique cyclic translation whose smallest component does not divide another, found first in the atom order'),
    'C20': ('Crystal.VectorBasis / SymmTensorBasis memoised per site and returned without copy',
            'history: FullVectorBasis (e.g. building an Interstitial calculator) called before, on a crystal with a multi-site orbit whose site basis is a line'),
    'C21': ('jumpnetwork obstruction loop: obstacles farther than the cutoff from the start site are skipped',
            'non-zero closestdistance, jump length close to the cutoff, obstacle beside the far end only (inequivalent end sites / low symmetry)'),
    'C22': ('fullkptmesh: at most two folding sweeps',
            'low-symmetry 3-D lattice (triclinic, face/body-centred orthorhombic) and a mesh with a point that needs a third sweep (0.6-4.5 % of meshes)'),
    'C23': ('GroupOp.__mul__: index map of the product composed in the wrong order',
            'sublattice with >= 3 equivalent atoms whose permutations do not commute (perovskite O, BCC octahedral sites)'),
    'C24': ('StarSet.copy() shares the states list',
            'history: a star set used again after being the operand of +, or repeated / reversed / chained sums'),
    'C25': ('VectorStarSet.generate no longer resets vecpos/vecvec',
            'history: one VectorStarSet object re-generated for a different star set'),
    'C26': ('VacancyMediated.generate: outer kinetic stars assumed to follow the thermodynamic ones contiguously',
            'Nthermo=2 on simple cubic / BCC / low-symmetry lattices (a (N+1)-jump state closer than the farthest N-jump state)'),
    'C27': ('Supercell.defectindices cached; cache not cleared by __imul__',
            'history: defects queried, then sup *= g moving a defect, then equivalencemap'),
    'C28': ('Supercell.setocc validates the species against len(chemistry) (= Nchem+1)',
            'species index exactly Nchem on an occupied site, IndexError caught, supercell used afterwards'),
    'C29': ('VacancyMediated.makesupercells omega1 branch: positions multiplied by invsuper without transpose',
            'non-symmetric supercell matrix and Nthermo >= 1'),
    'C30': ('automator.map2string: per-chemistry index shift overwritten instead of accumulated',
            'supercells with >= 3 chemistry slots where first and third are non-empty (two-component hosts with solute or interstitial)'),
    'C31': ('makeclusters: in-cell separation wrapped to the nearest image without correcting the lattice vector',
            '>= 2 non-excluded sites per cell whose direct coordinates differ by more than 0.5 along an axis'),
    'C32': ('clusterevaluator: vacancy clusters skip the "touches the vacancy site" test',
            'fixed vacancy + vacancy clusters in a supercell thin enough that an image of the vacancy lies within the cluster range'),
    'C33': ('MonteCarloSampler.update: clustercount updated by in-place fancy indexing',
            'supercell in which a cluster contains a site and its own periodic image (repeated index)'),
    'C34': ('jumpnetworkevaluator: reverse end point built as -cs_j (keeps the wrong basis index)',
            'no vacancy, >= 2 mobile basis sites, jump between different basis indices across a cell boundary, clusters on the arrival sublattice'),
    'C35': ('MonteCarloSampler_jit.deltaE_trial: "optimised" scan assumes each interaction occurs once per site',
            'supercell period not longer than a cluster (cluster wraps onto the same site)'),
    'C36': ('vacancyThermoKinetics.__ne__: fast path on different hashes',
            'two distinct keys equal within allclose tolerance but different in some bit, compared with !='),
    # second wave (a different mechanism / location was requested)
    'C01b': ('VectorStarSet.generateouter: upper-triangle loop mirrors blocks without the Cartesian transpose (same slip as seeded C03, found independently)',
             'point group allowing an antisymmetric invariant tensor and a bias component on a perpendicular vector star (binding or omega1 != omega0)'),
    'C03b': ('Interstitial.diffusivity / elastodiffusion: projected rate matrix filled for b >= a only',
             'pseudo-inverse branch (no inversion or disconnected network) with >= 2 vector-basis functions'),
    'C07b': ('Lij step 2: thermodynamic stars written through a slice starting at thermo2kin[0] (same slip as seeded C01, found independently)',
             'Nthermo pair (2,3) on simple cubic / BCC, interaction on the farthest thermodynamic star'),
    'C11b': ('Interstitial.diffusivity(CalcDeriv=True): the two bias-derivative cross terms merged into 2 x one of them',
             'NV > 1 and a point group allowing an antisymmetric second-rank tensor'),
    'C12b': ('Interstitial.symmratelist: prefactor normalisation invsqrtpre[i] * invsqrtpre[i]',
             'jump between two Wyckoff sets with different site prefactors'),
    'C13b': ('Cluster._asdict: "elif vacancy" drops the vacancy flag of transition-state clusters',
             'YAML round trip of a cluster with transition=True and vacancy=True (makeTSclusters on vacancy clusters)'),
    'C14b': ('GFCrystalcalc.SetRates keeps its cut-off function tables between calls (rebuilt only when pmax or the term list changes)',
             'history: two cache-missing evaluations on one calculator with equal pmax but different anisotropy (HCP, pyramidal >= basal rate)'),
    'C18b': ('gengroup: vector spins rotated with the transpose (np.dot(s, cartrot))',
             'non-collinear vector spins and operations that are not their own inverse (3-, 4-, 6-fold, rotoinversions)'),
    'C20b': ('genpoint: "one atom of that chemistry" shortcut returns the space-group operations unshifted',
             'species with exactly one site per cell that is not at the origin (B2 centre, perovskite B site)'),
    'C23b': ('Crystal.g_pos memoises the unit-cell shift of image atoms in a class-level dict keyed by the operation and atom, not the crystal',
             'history: two crystals in one process with the same lattice and an equal operation whose image atom falls into a different cell'),
    'C02b': ('Interstitial.diffusivity builds the symmetrised rate in place with the probability ratio inverted',
             '>= 2 Wyckoff sets with a vector basis, joined by jumps, with different site probabilities'),
    'C04b': ('Interstitial.diffusivity: symmetrised rate rebuilt from detailed balance with the ratio inverted (same slip as C02b / C05b, found independently)',
             'jump between two sites that both carry a vector basis, in different Wyckoff sets with different probabilities'),
    'C05b': ('Interstitial.diffusivity: symmetrised rates from ratelist with the probability ratio inverted (same slip as C02b, found independently)',
             'as C02b'),
    'C06b': ('Lij step 6c: origin-state correction scaled with sqrt(crys.N) (atoms of all species) instead of the number of vacancy sites',
             'compound (spectator species) whose vacancy sites are polar: origin states and crys.N != N'),
    'C08b': ('large-omega2 branch: block replaced by (g^-1+w)^-1 - w^-1 instead of -inv(w + w g w) (catastrophic cancellation)',
             'exchange rate >= 1e11 x bare rate with the large-rate algorithm active'),
    'C09b': ('Interstitial.siteprob: probabilities laid out with np.repeat in sitelist order',
             'Wyckoff sets interleaved in the site index (atom order t,o,t,o,t,t) with different energies'),
    'C10b': ('GFCrystalcalc.__init__ sorts its copy of the site list and builds invmap from it',
             'user site list whose Wyckoff sets are not in order of first site index, with different energies per set'),
    'C15b': ('tags2preene VERBOSE report: duplicates collected pairwise against the first tag of the class',
             'VERBOSE=True and >= 3 member tags of one class in the user dictionary'),
    'C16b': ('Taylor sumcoeff: empty left operand returns alpha*b instead of beta*b (not in place)',
             'difference / weighted sum whose left operand has no terms'),
    'C17b': ('Taylor3D.rotatedirections: range for monomials with three non-zero exponents loses its +1',
             '3-D expansion of order Lmax with a coefficient on x^2 y z, x y^2 z or x y z^2'),
    'C19b': ('Crystal.reduce averages matched copies with v - newatom instead of the minimum-image displacement',
             'non-primitive input with position noise 1e-7 (threshold 1e-6) and an atom on a reduced-cell face'),
    'C21b': ('jumpnetwork: symmetry-grouped jump list memoised (lru_cache) and pruned in place by the obstruction loop',
             'history: same crystal object, same (chem, cutoff), a later call with a weaker closestdistance'),
    'C22b': ('reducekptmesh assumes the first sorted k-point is Gamma',
             'mesh with an odd division (no Gamma point)'),
    'C25b': ('VectorStarSet.GFexpansion memoised and never cleared by generate()',
             'history: GFexpansion(), generate(other star set), GFexpansion() on one object'),
    'C26b': ('StarSet.jumpnetwork_omega1/2 memoised with Nshells as the only validity key',
             'history: generate(N, originstates=a), omega networks, generate(N, not a), omega networks'),
    'C27b': ('Supercell.equivalencemap accepts an operation when defect names match instead of comparing occupations',
             'two chemistry indices sharing a name (unnamed solutes, isotope tracer)'),
    'C32b': ('MonteCarloSampler.update: per-site occupancy guards dropped (set.discard / add)',
             'history with a redundant request: occupy an occupied site or empty an empty one'),
    'C33b': ('MonteCarloSampler.deltaE_trial fast path for single swaps uses set differences of interaction rows',
             'supercell in which a cluster wraps onto itself; single occupy + unoccupy move completing such a cluster'),
    'C35b': ('MonteCarloSampler_jit.start() clears clustercount[:Nenergy] only',
             'second start() on a compiled sampler with a jump network, then transitions()'),
    'C36b': ('PairState.__add__: every zero state treated as additive identity before the end-point check',
             'zero state added to / subtracted from a state with non-matching end points'),
    'C24b': ('StarSet.generate continues from the previous outermost shell and seeds with the old states',
             'history: generate(N, originstates=True) then generate(M > N, originstates=False) on one object'),
    'C28b': ('Supercell.POSCAR omits the count entry of an empty interstitial species',
             'supercell with declared interstitial sublattice, currently empty, and an occupied species of higher index; POSCAR -> POSCAR_occ'),
    'C29b': ('makesupercells size check loops over one representative per kinetic star',
             'supercell that breaks the point symmetry (5x3x3 ...) or whose half-length equals a shell distance'),
    'C30b': ('supercelltar builds the Makefile by extending a module-level list in place',
             'history: a second archive written in the same process'),
    'C31b': ('ClusterSite.g memoises site images in a class-level dict keyed by (g, site) without the crystal',
             'history: two crystals in one process sharing an equal group operation with the same site label on different special positions'),
    'C34b': ('makeTSclusters (vacancy branch): forward orbit appended before the reverse clusters are united into a new set',
             'vacancy sampler with TS clusters whose reverse is not a symmetry image of the forward cluster (range beyond first neighbours, low symmetry)'),
    # third wave (a mechanism and location different from both earlier changes was requested)
    'C05c': ('_symmetricandescaperates builds the configuration energy with bFS[vacancy set] instead of bFS[solute set]',
             '>= 2 Wyckoff sets with different solute site energies and an exchange jump joining them (default algorithm)'),
    'C07c': ('tags2preene: omega0 data applied after the LIMB back-fill',
             'tag dictionary with non-default omega0 data and at least one untagged omega1/omega2 class'),
    'C08c': ('Lij selects the large-omega2 algorithm by the absolute exchange rate instead of G.omega2',
             'exchange/bare ratio above 1e9 while every absolute rate is small (all rates x 1e-9)'),
    'C11c': ('generateJumpGroupOps: reversed match never tried when both end points have the same index',
             'network with i -> i jumps whose reversal is not in the site stabiliser (P1 / P-1, polar single-site cells, long hcp in-plane jump)'),
    'C12c': ('Interstitial.__init__ builds invmap by a flat comprehension over the site list',
             'site list whose flattened order is not 0..N-1 (interleaved sets or user order) with different data per set'),
    'C13c': ('Taylor3D.loadhdf5 collects terms in a dict keyed on n alone',
             'save / reload of an expansion with several (n, l) terms of equal n (separated expansions, GF Taylor tables)'),
    'C14c': ('Lij: on a cache miss the returned L0vv is the array just stored in the cache',
             'history: first evaluation for a vacancy input, in-place edit of the returned L0vv, second evaluation'),
    'C20c': ('shared helper for the vectors perpendicular to an axis: wrong index in the near-z branch',
             'site operation whose axis / mirror normal has |n_z| >= 0.75, is not z and has n_x != n_y (crystals in rotated Cartesian frames)'),
    'C22c': ('fullkptmesh prefilter radius from the reciprocal basis vectors instead of the zone-face vectors',
             'unreduced cell (noreduce=True) whose shortest reciprocal vector is a combination of the basis vectors'),
    'C24c': ('StarSet.__iadd__ skips every sum with R = 0, not only true zero states',
             '>= 3 sites per cell and a same-cell pair of distinct sites not already in the larger addend'),
    'C27c': ('Supercell.gengroup filters the operations by a mask but not the array of supercell rotations',
             'supercell matrix that keeps only part of the point group (1x1x2, 2x2x3 ...)'),
    'C28c': ('POSCAR_occ (EMPTY_SUPER) vacates only unlisted sites after placing the listed atoms',
             'history: POSCAR read into an already occupied supercell whose kept species were in a different order'),
    'C30c': ('supercelltar normalises transmapping tuples by stripping None and re-padding at the end',
             'transition whose initial end point is unmapped while the final one is mapped (symmetry-breaking or small supercells)'),
    'C31c': ('makeclusters extends one representative per orbit and only with sites that sort last',
             'crystal whose symmetry permutes sites within the cell (>= 3 equivalent sites; hcp with two shells at order 4)'),
    'C33c': ('MonteCarloSampler.E() caches the energy; start() does not clear the cache',
             'history: start, E(), start with another occupation, E() before any update'),
    'C34c': ('jumpnetworkevaluator_vacancy reads the spectator environment of TS clusters around cell 0 instead of around the vacancy',
             'vacancy in a cell with R != 0, non-uniform spectators, TS clusters containing spectator sites'),
    'C01c': ('vacancyThermoKinetics.__eq__/__hash__ reduce site and transition arrays separately (common rate factor lost)',
             'history: one calculator, two inputs whose vacancy data differ by a uniform shift of all omega0 barriers (any temperature sweep on a one-class network)'),
    'C02c': ('Interstitial.siteprob vectorised with np.repeat in site-list order (same slip as C09b, found independently)',
             'Wyckoff sets interleaved in the site index or a user-ordered site list, with different probabilities'),
    'C03c': ('Lij step 6c: origin-state correction of L1vv written without the final symmetrisation',
             'origin states with a >= 2-D site vector basis, point group without mirrors, >= 2 Wyckoff orbits with different solute site energies'),
    'C04c': ('preene2betafree: solute reference read again after it was subtracted (bFT1/bFT2 keep the solute reference)',
             'solute reference free energy different from zero (eneS.min() != 0 or preS != 1)'),
    'C06c': ('vacancyThermoKinetics key reduced per array (same slip as C01c, found independently)',
             'as C01c'),
    'C10c': ('GFCrystalcalc.__call__ memoises values; cache dropped only when the symmetrised rates change',
             'history: SetRates twice on one object with site energies of two Wyckoff sets moved oppositely, same separation evaluated again'),
    'C15c': ('generatetags takes the solute-vacancy tag classes as a contiguous slice of the kinetic stars',
             'network where a state outside the thermodynamic range is closer than one inside (tetragonal c/a > sqrt 2, sc with <100>+<111> jumps)'),
    'C16c': ('Taylor __getitem__: key prefixed with Ellipsis instead of a full slice',
             'matrix-valued expansion indexed with fewer indices than the value has axes'),
    'C17c': ('Taylor rotatecoeff (not in place): per-order block chosen by l instead of n for reduced entries',
             'rotate() of a reduced expansion (entries with l < n) by a non-orthogonal matrix'),
    'C18c': ('maptranslation compares separately wrapped separations without re-wrapping the difference',
             'operations with translation component exactly 1/2 and inexact atomic coordinates (screw axes, glides: Pnma general positions)'),
    'C19c': ('minlattice applies the sort / handedness matrix only when the order changes',
             'left-handed cell description whose vectors are already sorted by length'),
    'C21c': ('jumpnetwork2lattice takes site positions from all species stacked',
             'jumping species not first in the crystal, >= 2 sites'),
    'C23c': ('g_vect takes the lattice part from a plain floor while the in-cell part keeps the 1e-8 tolerance',
             'image coordinate that is an integer up to roundoff (n - 1e-16)'),
    'C25c': ('rate/bias expansions (omega2): origin-state vector stars looked up through a table that skips sites whose vector basis is the whole space',
             'origin states, omega2, site with trivial site group'),
    'C26c': ('symmequivjumplist adds the reverse of an image jump only when the end points lie in different stars',
             'omega1 jump between symmetry-equivalent states that no operation exchanges (rotation-only site symmetry of order >= 3)'),
    'C29c': ('Supercell.maketrans: integer inverse multiplied by the signed determinant',
             'supercell matrix with negative determinant'),
    'C32c': ('MonteCarloSampler.start() increments clustercount by fancy indexing',
             'cluster that wraps onto one site twice; start with that site empty, then update() occupying it'),
    'C35c': ('MonteCarloSampler_jit.MCmoves gathers all trial sites before the loop',
             'batch of >= 2 moves with an accepted move whose slot is reused later in the batch'),
    'C36c': ('PairState.__sub__ fast path for a - a returns the zero state on the final site',
             'difference of two equal pair states with i != j'),
    # fourth wave (continued session; only the property text was given, time-boxed)
    'C21d': ('jumpnetwork: per-species closestdistance list drops the jumping species slot (indices of later species shift down by one)',
             'closestdistance given as a list and the jumping species not the last chemistry index'),
    'C23d': ('GroupOp.inv(): inverse translation computed as -(trans . R^-1) instead of -(R^-1 . trans)',
             'non-symmorphic operation whose lattice-coordinate inverse rotation is not symmetric (diamond on the primitive fcc cell)'),
    'C27d': ('Supercell.equivalencemap step 4 compares only the vacant / occupied pattern, not the species',
             'two cooperating defect types: vacancy pattern matches under an operation while a solute arrangement does not'),
    'C28d': ('Supercell.setocc range check c > Nchem (same slip as seeded C28, found independently)',
             'species index exactly Nchem on an occupied site, IndexError caught, supercell used afterwards'),
    'C19d': ('Crystal.reduce: translation-accepted flag reset per species (only the last species can veto a candidate translation)',
             'multi-species cell whose smallest species is listed last and has an internal rational pseudo-translation not shared by an earlier species'),
    'C20d': ('module VectorBasis: -4 rotoinversion treated as leaving the axis invariant (line instead of point)',
             'site whose point group is exactly S4 (-4): low-symmetry tetragonal two-species crystal with a general P-4 orbit'),
    'C29d': ('Interstitial.makesupercells: host species with chemistry index above the interstitial species are not placed',
             'multi-species crystal in which the interstitial species is not the last chemistry index'),
    'C36d': ('GroupOp.__eq__ compares index maps with zip (prefix equality) while __hash__ uses the full map',
             'operations of two crystals on one lattice with a different number of species (fcc vs rock salt): equal but different hashes'),
    'C22d': ('fullkptmesh: the "already inside the zone" pre-filter bound taken from the reciprocal basis vectors instead of the zone-face vectors',
             'low-symmetry lattice whose shortest reciprocal vector is a combination of the basis vectors, and a mesh with a point in the thin shell between the two bounds'),
}


def parse(logs):
    res = {}
    cur = None
    for path in logs:
        for line in open(path):
            m = re.match(r'== (C\d+[a-z]?) patch: (\d+) changed lines in (\d+) file', line)
            if m:
                cur = res.setdefault(m.group(1), {'changed_lines': int(m.group(2)), 'files': int(m.group(3)), 'checks': {}})
                cur['checks'] = {}
                continue
            if cur is None: continue
            m = re.match(r'demo (WITH|WITHOUT) change: exit (\d+)', line)
            if m: cur['demo_' + m.group(1).lower()] = int(m.group(2))
            m = re.match(r'check (C\d+) vs seeded (C\d+[a-z]?): rc=(\d+) .*violations=(\d+)', line)
            if m: cur['checks'][m.group(1)] = {'rc': int(m.group(3)), 'violations': int(m.group(4))}
            if 'PATCH DOES NOT APPLY' in line: cur['patch_applies'] = False
    return res


def tests_line(sid):
    """summary of the pinned suite run with the change applied (tools/seeded_tests.sh), else what the seeding agent reported"""
    f = os.path.join(ROOT, 'seeded', sid, 'tests.txt')
    if os.path.exists(f):
        txt = ' | '.join(x.strip() for x in open(f) if x.strip())
        return 'pinned suite with the change applied (tools/seeded_tests.sh): ' + txt + ' -- the 2 failures and 1 error are the pre-existing ones ' \
               '(test_cluster testSampler_Run_jit x2, collection of test_PowerExpansion.py); the 291 stable tests pass'
    return 'full pinned suite run by the seeding agent with the change applied: 291 passed + the 3 known pre-existing failures (see notes.md)'


def main():
    append = '--append' in sys.argv          # keep the existing table rows, add / replace only the ids found in these logs
    res = parse([a for a in sys.argv[1:] if a != '--append'])
    rows = ['| change | seeded in | needs to manifest | demo with / without | caught by (quick tier, seed 0) | not caught by |', '|---|---|---|---|---|---|']
    for sid in sorted(res):
        r = res[sid]
        what, needs = NEEDS.get(sid, ('', ''))
        caught = [c for c, v in r['checks'].items() if v['rc'] == 1]
        missed = [c for c, v in r['checks'].items() if v['rc'] != 1]
        meta = {'property': sid[:3], 'change': what, 'needs_to_manifest': needs,
                'patch_changed_lines': r['changed_lines'],
                'confirmed': {'demo_exit_with_change': r.get('demo_with'), 'demo_exit_without_change': r.get('demo_without'),
                              'repository_tests': tests_line(sid),
                              'how': 'tools/seeded.sh %s (worktree of /repo HEAD, patch.diff applied with git apply, demo.py run with and without, '
                                     'checks run with VERIF_REPO=<worktree>)' % sid},
                'checks_run': r['checks'], 'caught_by': caught, 'not_caught_by': missed}
        d = os.path.join(ROOT, 'seeded', sid)
        if os.path.isdir(d):
            json.dump(meta, open(os.path.join(d, 'meta.json'), 'w'), indent=1)
        rows.append('| %s | %s | %s | %s / %s | %s | %s |' % (sid, what, needs, r.get('demo_with'), r.get('demo_without'),
                                                          ', '.join(caught) or '-', ', '.join(missed) or '-'))
    p = os.path.join(ROOT, 'DESIGN.md')
    s = open(p).read()
    a = s.index('<!-- SEEDED-BEGIN -->') + len('<!-- SEEDED-BEGIN -->')
    b = s.index('<!-- SEEDED-END -->')
    if append:
        old = [l for l in s[a:b].strip().split('\n') if l.startswith('| C') and l.split('|')[1].strip() not in res]
        rows = rows[:2] + sorted(old + rows[2:])
    open(p, 'w').write(s[:a] + '\n' + '\n'.join(rows) + '\n' + s[b:])
    print('seeded changes', len(res), 'caught', sum(1 for r in res.values() if any(v['rc'] == 1 for v in r['checks'].values())))


if __name__ == '__main__':
    main()
