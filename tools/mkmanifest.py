#!/usr/bin/env python3
"""Regenerates /verif/MANIFEST.json from the property drivers' metadata (run: python3 tools/mkmanifest.py)."""
import json, os, sys, re, ast
ROOT = os.path.dirname(os.path.dirname(os.path.abspath(__file__)))
BASE = ('cd /repo && /venv/bin/python -m pytest -ra -q -p no:cacheprovider --timeout=900 '
        '--continue-on-collection-errors')


def meta(path):
    """Read top-level string/list constants of a driver without importing it."""
    tree = ast.parse(open(path).read())
    out = {'doc': ast.get_docstring(tree) or ''}
    for node in tree.body:
        if isinstance(node, ast.Assign) and len(node.targets) == 1 and isinstance(node.targets[0], ast.Name):
            try:
                out[node.targets[0].id] = ast.literal_eval(node.value)
            except Exception:
                pass
    return out


def main():
    props = [json.loads(l) for l in open(os.path.join(ROOT, 'properties.jsonl'))]
    checks, na = [], []
    pending = json.load(open(os.path.join(ROOT, 'tools', 'not_claimed.json'))) if os.path.exists(
        os.path.join(ROOT, 'tools', 'not_claimed.json')) else {}
    for p in props:
        pid = p['id']
        path = os.path.join(ROOT, 'vmon', 'props', pid + '.py')
        if pid in pending or not os.path.exists(path):
            na.append({'property_id': pid, 'reason': pending.get(pid, 'monitor not built yet (work in progress); no claim is made')})
            continue
        m = meta(path)
        checks.append({
            'property_id': pid,
            'quick_cmd': './check %s --tier quick' % pid,
            'thorough_cmd': './check %s --tier thorough' % pid,
            'evidence_file': 'evidence/%s.json' % pid,
            'replay_cmd_template': './check %s --replay {path}' % pid,
            'engine': 'vmon',
            'level_claimed': {'category': m.get('LEVEL', 'exploration'),
                              'text': m.get('LEVEL_TEXT') or ('Runtime monitoring: ' + ' '.join(m['doc'].split())[:900]),
                              'design_ref': 'DESIGN.md section 4/' + pid},
            'level_note': m.get('LEVEL_NOTE') or '; '.join(m.get('ASSUMPTIONS', [])) or 'reference models in vmon/ref are trusted',
            'technique': m.get('TECHNIQUE', 'runtime monitoring: contracts and reference-model monitors over generated workloads'),
        })
    man = {
        'version': 1,
        'setup_cmd': '/venv/bin/pip install -q --no-index --find-links /opt/veriftools/wheels --target /verif/.deps icontract deal jsonschema',
        'hooks': {'guard': 'ONSAGER_VERIF',
                  'enable': 'no source hooks: every contract/monitor is attached from the harness at import time in the worker '
                            '(ONSAGER_VERIF=1 is set by the runner); /repo is imported from its working tree via PYTHONPATH',
                  'baseline_off_cmd': BASE, 'source_commits': [], 'add_only': True},
        'engines': [{'name': 'vmon', 'path': 'vmon/', 'serves_properties': [c['property_id'] for c in checks],
                     'kind_free_text': 'runtime monitoring harness: per-case subprocess workers, contracts attached to the real '
                                       'functions, independent reference models, history recorders and offline checkers'}],
        'checks': checks,
        'not_applicable': na,
        'notes': 'Verdicts: exit 0 held on everything explored; exit 1 + VIOLATION line; exit 2 + INCONCLUSIVE line when a '
                 'deciding monitor did not run or a watchdog fired. known_findings.json lists recorded findings and fixed defects.',
    }
    json.dump(man, open(os.path.join(ROOT, 'MANIFEST.json'), 'w'), indent=1)
    print('checks', len(checks), 'not_applicable', len(na))


if __name__ == '__main__':
    main()
