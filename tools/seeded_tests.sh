#!/bin/sh
# tools/seeded_tests.sh <id>... : runs the repository's pinned test suite with each seeded change applied (scratch worktree of /repo HEAD,
# removed afterwards) and writes the summary line to seeded/<id>/tests.txt
cd "$(dirname "$0")/.."; V=$(pwd)
mkdir -p /tmp/seeded_tt
for ID in "$@"; do
  WT=/tmp/seeded_tt/$ID
  git -C /repo worktree remove --force $WT 2>/dev/null
  git -C /repo worktree add -q --detach $WT HEAD || continue
  git -C $WT apply $V/seeded/$ID/patch.diff || { echo "PATCH DOES NOT APPLY" > seeded/$ID/tests.txt; git -C /repo worktree remove --force $WT; continue; }
  (cd $WT && /venv/bin/python -m pytest -q -p no:cacheprovider --timeout=900 --continue-on-collection-errors test/ 2>&1 | tail -n 6 | grep -E "passed|failed|FAILED|ERROR" ) > seeded/$ID/tests.txt
  echo "/repo HEAD $(git -C /repo rev-parse --short HEAD) + patch.diff; command: /venv/bin/python -m pytest -q -p no:cacheprovider --timeout=900 --continue-on-collection-errors test/" >> seeded/$ID/tests.txt
  git -C /repo worktree remove --force $WT
done
