#!/bin/sh
# tools/seeded.sh <id> "<checks to run>" ["<pytest args>"] : confirm the seeded change seeded/<id>/ in a scratch worktree of /repo HEAD
# (created under /tmp and removed afterwards) and run checks against it. /repo itself is never modified; git stash is never used.
ID=$1; WT=/tmp/seeded_wt/$ID; cd "$(dirname "$0")/.."; V=$(pwd)
mkdir -p /tmp/seeded_wt
git -C /repo worktree remove --force $WT 2>/dev/null
git -C /repo worktree add -q --detach $WT HEAD || exit 2
cp seeded/$ID/demo.py $WT/demo.py
echo "== $ID patch: $(grep -c '^[+-][^+-]' seeded/$ID/patch.diff) changed lines in $(grep -c '^diff' seeded/$ID/patch.diff) file(s)"
(cd $WT && PYTHONPATH=$WT timeout 1800 /venv/bin/python -W ignore demo.py >/tmp/seeded_wt/$ID.demo_without.log 2>&1; echo "demo WITHOUT change: exit $?")
git -C $WT apply $V/seeded/$ID/patch.diff || { echo "PATCH DOES NOT APPLY"; git -C /repo worktree remove --force $WT; exit 1; }
(cd $WT && PYTHONPATH=$WT timeout 1800 /venv/bin/python -W ignore demo.py >/tmp/seeded_wt/$ID.demo_with.log 2>&1; echo "demo WITH change: exit $?")
if [ -n "$3" ]; then (cd $WT && /venv/bin/python -m pytest -q -p no:cacheprovider --timeout=900 $3 2>&1 | tail -1); fi
for c in $2; do
  out=$(VERIF_REPO=$WT ./check $c 2>&1); rc=$?
  echo "check $c vs seeded $ID: rc=$rc $(echo "$out" | grep 'tier=' | tail -1)"
  echo "$out" | grep "witness" | head -2 | cut -c1-220
done
git -C /repo worktree remove --force $WT
