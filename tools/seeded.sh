#!/bin/sh
# tools/seeded.sh <id> "<checks to run>" ["<pytest args>"] : confirm a seeded change in /tmp/mut/<id> and run checks against it.
# The agent's patch.diff is the source of truth; git stash is never used (the stash is shared between worktrees).
ID=$1; WT=/tmp/mut/$ID; cd /verif
mkdir -p seeded/$ID
cp $WT/patch.diff seeded/$ID/patch.diff; cp $WT/demo.py seeded/$ID/demo.py; cp $WT/notes.md seeded/$ID/notes.md 2>/dev/null
git -C $WT checkout -q -- onsager
git -C $WT checkout -q --detach $(git -C /repo rev-parse HEAD)
echo "== $ID patch: $(grep -c '^[+-][^+-]' seeded/$ID/patch.diff) changed lines in $(grep -c '^diff' seeded/$ID/patch.diff) file(s)"
(cd $WT && PYTHONPATH=$WT timeout 1800 /venv/bin/python -W ignore demo.py >/tmp/mut/$ID.demo_without.log 2>&1; echo "demo WITHOUT change: exit $?")
git -C $WT apply /verif/seeded/$ID/patch.diff || { echo "PATCH DOES NOT APPLY"; exit 1; }
(cd $WT && PYTHONPATH=$WT timeout 1800 /venv/bin/python -W ignore demo.py >/tmp/mut/$ID.demo_with.log 2>&1; echo "demo WITH change: exit $?")
if [ -n "$3" ]; then (cd $WT && /venv/bin/python -m pytest -q -p no:cacheprovider --timeout=900 $3 2>&1 | tail -1); fi
for c in $2; do
  out=$(VERIF_REPO=$WT ./check $c 2>&1); rc=$?
  echo "check $c vs seeded $ID: rc=$rc $(echo "$out" | grep 'tier=' | tail -1)"
  echo "$out" | grep "witness" | head -2 | cut -c1-220
done
