#!/usr/bin/env python3
"""Renders the findings table of DESIGN.md from known_findings.json."""
import json, os, re
ROOT = os.path.dirname(os.path.dirname(os.path.abspath(__file__)))
d = json.load(open(os.path.join(ROOT, 'known_findings.json')))
rows = ['| status | property | commit / id | what failed |', '|---|---|---|---|']
for f in d['fixed']:
    m = re.match(r'fixed: property=(\S+) (\S+) (.*)', f)
    rows.append('| fixed | %s | %s | %s |' % (m.group(1), m.group(2), m.group(3).replace('|', '/')))
seen = set()
for f in d['findings']:
    key = (f['id'], f['property'])
    if key in seen: continue
    seen.add(key)
    rows.append('| finding | %s | %s | %s (clauses %s, requires %s) |' % (f['property'], f['id'], f['what'].replace('|', '/'),
                ', '.join(f['clauses']), ', '.join(f.get('requires', []))))
p = os.path.join(ROOT, 'DESIGN.md')
s = open(p).read()
a = s.index('<!-- FINDINGS-BEGIN -->') + len('<!-- FINDINGS-BEGIN -->')
b = s.index('<!-- FINDINGS-END -->')
open(p, 'w').write(s[:a] + '\n' + '\n'.join(rows) + '\n' + s[b:])
print('rows', len(rows) - 2)
